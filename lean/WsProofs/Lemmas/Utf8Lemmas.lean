import WsModel.Utf8
import WsModel.Spec.Utf8Table

/-! Lemmas about the UTF-8 model (`utf8Step`, `utf8Validate`) against Table 3-7
(`Spec.WellFormed`).  Byte-level facts are moved to `Nat` and closed by `omega`; everything
about `utf8Step` is then structural. -/
namespace WsProofs.Utf8
open WsModel WsModel.Spec

/-! ## byte facts over `Nat` -/

theorem u8_lt (b : UInt8) : b.toNat < 256 := by
  have := UInt8.toNat_lt b; omega

theorem width_nat (b : UInt8) :
    utf8CharWidth b =
      if b.toNat < 128 then 1 else if 194 ≤ b.toNat ∧ b.toNat ≤ 223 then 2
      else if 224 ≤ b.toNat ∧ b.toNat ≤ 239 then 3
      else if 240 ≤ b.toNat ∧ b.toNat ≤ 244 then 4 else 0 := by
  simp [utf8CharWidth, UInt8.le_iff_toNat_le, UInt8.lt_iff_toNat_lt]

theorem width1 (b : UInt8) : utf8CharWidth b = 1 ↔ b.toNat < 128 := by
  rw [width_nat]; repeat' split
  all_goals omega

theorem width2 (b : UInt8) : utf8CharWidth b = 2 ↔ 194 ≤ b.toNat ∧ b.toNat ≤ 223 := by
  rw [width_nat]; repeat' split
  all_goals omega

theorem width3 (b : UInt8) : utf8CharWidth b = 3 ↔ 224 ≤ b.toNat ∧ b.toNat ≤ 239 := by
  rw [width_nat]; repeat' split
  all_goals omega

theorem width4 (b : UInt8) : utf8CharWidth b = 4 ↔ 240 ≤ b.toNat ∧ b.toNat ≤ 244 := by
  rw [width_nat]; repeat' split
  all_goals omega

theorem width_cases (a : UInt8) :
    utf8CharWidth a = 0 ∨ utf8CharWidth a = 1 ∨ utf8CharWidth a = 2 ∨
    utf8CharWidth a = 3 ∨ utf8CharWidth a = 4 := by
  rw [width_nat]; repeat' split
  all_goals omega

theorem isCont_nat (b : UInt8) : isCont b = true ↔ 128 ≤ b.toNat ∧ b.toNat ≤ 191 := by
  simp [isCont, UInt8.le_iff_toNat_le]

theorem cont_nat (b : UInt8) : cont b ↔ 128 ≤ b.toNat ∧ b.toNat ≤ 191 := by
  simp [cont, UInt8.le_iff_toNat_le]

theorem contB_eq (b : UInt8) : contB b = isCont b := rfl

theorem second3Ok_nat (a b : UInt8) : second3Ok a b = true ↔
    (a.toNat = 224 ∧ 160 ≤ b.toNat ∧ b.toNat ≤ 191) ∨
    (225 ≤ a.toNat ∧ a.toNat ≤ 236 ∧ 128 ≤ b.toNat ∧ b.toNat ≤ 191) ∨
    (a.toNat = 237 ∧ 128 ≤ b.toNat ∧ b.toNat ≤ 159) ∨
    (238 ≤ a.toNat ∧ a.toNat ≤ 239 ∧ 128 ≤ b.toNat ∧ b.toNat ≤ 191) := by
  simp [second3Ok, UInt8.le_iff_toNat_le, ← UInt8.toNat_inj, and_assoc, or_assoc]

theorem second4Ok_nat (a b : UInt8) : second4Ok a b = true ↔
    (a.toNat = 240 ∧ 144 ≤ b.toNat ∧ b.toNat ≤ 191) ∨
    (241 ≤ a.toNat ∧ a.toNat ≤ 243 ∧ 128 ≤ b.toNat ∧ b.toNat ≤ 191) ∨
    (a.toNat = 244 ∧ 128 ≤ b.toNat ∧ b.toNat ≤ 143) := by
  simp [second4Ok, UInt8.le_iff_toNat_le, ← UInt8.toNat_inj, and_assoc, or_assoc]

theorem isCont_80 : isCont 0x80 = true := by decide

theorem second3_exists (a : UInt8) (h : utf8CharWidth a = 3) : ∃ s, second3Ok a s = true := by
  rw [width3] at h
  by_cases h0 : a.toNat = 224
  · refine ⟨0xA0, ?_⟩
    rw [second3Ok_nat]; simp; omega
  · refine ⟨0x80, ?_⟩
    rw [second3Ok_nat]; simp; omega

theorem second4_exists (a : UInt8) (h : utf8CharWidth a = 4) : ∃ s, second4Ok a s = true := by
  rw [width4] at h
  by_cases h0 : a.toNat = 240
  · refine ⟨0x90, ?_⟩
    rw [second4Ok_nat]; simp; omega
  · refine ⟨0x80, ?_⟩
    rw [second4Ok_nat]; simp; omega

/-! ## one well-formed sequence, in the vocabulary of the model -/

/-- `enc` is exactly one sequence accepted by the validation loop -/
def Seq : Bytes → Prop
  | [a] => utf8CharWidth a = 1
  | [a, b] => utf8CharWidth a = 2 ∧ isCont b = true
  | [a, b, c] => utf8CharWidth a = 3 ∧ second3Ok a b = true ∧ isCont c = true
  | [a, b, c, d] =>
    utf8CharWidth a = 4 ∧ second4Ok a b = true ∧ isCont c = true ∧ isCont d = true
  | _ => False

theorem Seq.length_pos {enc : Bytes} (h : Seq enc) : 1 ≤ enc.length := by
  cases enc with
  | nil => simp [Seq] at h
  | cons a r => simp

theorem Seq.length_le {enc : Bytes} (h : Seq enc) : enc.length ≤ 4 := by
  match enc, h with
  | [_], _ => simp
  | [_, _], _ => simp
  | [_, _, _], _ => simp
  | [_, _, _, _], _ => simp

theorem Seq.ne_nil {enc : Bytes} (h : Seq enc) : enc ≠ [] := by
  intro h0; subst h0; simp [Seq] at h

/-- the loop accepts a sequence whatever follows it -/
theorem seq_step {enc : Bytes} (h : Seq enc) (rest : Bytes) :
    utf8Step (enc ++ rest) = .ok enc.length := by
  match enc, h with
  | [a], h => simp [Seq] at h; simp [utf8Step, h]
  | [a, b], h => simp [Seq] at h; simp [utf8Step, h]
  | [a, b, c], h => simp [Seq] at h; simp [utf8Step, h]
  | [a, b, c, d], h => simp [Seq] at h; simp [utf8Step, h]

/-- and only those -/
theorem step_ok_seq {bs : Bytes} {n : Nat} (hne : bs ≠ []) (h : utf8Step bs = .ok n) :
    n ≤ bs.length ∧ Seq (bs.take n) := by
  cases bs with
  | nil => exact absurd rfl hne
  | cons a r =>
    rcases width_cases a with hw | hw | hw | hw | hw
    · simp [utf8Step, hw] at h
    · simp [utf8Step, hw] at h; subst h; simp [Seq, hw]
    · cases r with
      | nil => simp [utf8Step, hw] at h
      | cons s r2 =>
        by_cases hs : isCont s = true <;> simp [utf8Step, hw, hs] at h
        subst h; simp [Seq, hw, hs]
    · cases r with
      | nil => simp [utf8Step, hw] at h
      | cons s r2 =>
        by_cases hs : second3Ok a s = true <;> simp [utf8Step, hw, hs] at h
        cases r2 with
        | nil => simp at h
        | cons t r3 =>
          by_cases ht : isCont t = true <;> simp [ht] at h
          subst h; simp [Seq, hw, hs, ht]
    · cases r with
      | nil => simp [utf8Step, hw] at h
      | cons s r2 =>
        by_cases hs : second4Ok a s = true <;> simp [utf8Step, hw, hs] at h
        cases r2 with
        | nil => simp at h
        | cons t r3 =>
          by_cases ht : isCont t = true <;> simp [ht] at h
          cases r3 with
          | nil => simp at h
          | cons u r4 =>
            by_cases hu : isCont u = true <;> simp [hu] at h
            subst h; simp [Seq, hw, hs, ht, hu]

/-- `invalid k` is decided by the first `k + 1` bytes -/
theorem step_invalid_local {bs : Bytes} {k : Nat} (h : utf8Step bs = .invalid k) :
    1 ≤ k ∧ k ≤ 3 ∧ k ≤ bs.length ∧ ∀ x, utf8Step (bs.take (k + 1) ++ x) = .invalid k := by
  cases bs with
  | nil => simp [utf8Step] at h
  | cons a r =>
    rcases width_cases a with hw | hw | hw | hw | hw
    · simp [utf8Step, hw] at h
      subst h; simp [utf8Step, hw]
    · simp [utf8Step, hw] at h
    · cases r with
      | nil => simp [utf8Step, hw] at h
      | cons s r2 =>
        by_cases hs : isCont s = true <;> simp [utf8Step, hw, hs] at h
        subst h; simp [utf8Step, hw, hs]
    · cases r with
      | nil => simp [utf8Step, hw] at h
      | cons s r2 =>
        by_cases hs : second3Ok a s = true <;> simp [utf8Step, hw, hs] at h
        · cases r2 with
          | nil => simp at h
          | cons t r3 =>
            by_cases ht : isCont t = true <;> simp [ht] at h
            subst h; simp [utf8Step, hw, hs, ht]
        · subst h; simp [utf8Step, hw, hs]
    · cases r with
      | nil => simp [utf8Step, hw] at h
      | cons s r2 =>
        by_cases hs : second4Ok a s = true <;> simp [utf8Step, hw, hs] at h
        · cases r2 with
          | nil => simp at h
          | cons t r3 =>
            by_cases ht : isCont t = true <;> simp [ht] at h
            · cases r3 with
              | nil => simp at h
              | cons u r4 =>
                by_cases hu : isCont u = true <;> simp [hu] at h
                subst h; simp [utf8Step, hw, hs, ht, hu]
            · subst h; simp [utf8Step, hw, hs, ht]
        · subst h; simp [utf8Step, hw, hs]

theorem step_invalid_append {bs : Bytes} {k : Nat} (h : utf8Step bs = .invalid k) (more : Bytes) :
    utf8Step (bs ++ more) = .invalid k := by
  have := (step_invalid_local h).2.2.2 (bs.drop (k + 1) ++ more)
  rwa [← List.append_assoc, List.take_append_drop] at this

/-- `incomplete`: a proper non-empty prefix of one sequence -/
theorem step_incomplete {bs : Bytes} (h : utf8Step bs = .incomplete) :
    1 ≤ bs.length ∧ bs.length ≤ 3 ∧ ∃ more, more ≠ [] ∧ Seq (bs ++ more) := by
  cases bs with
  | nil => simp [utf8Step] at h
  | cons a r =>
    rcases width_cases a with hw | hw | hw | hw | hw
    · simp [utf8Step, hw] at h
    · simp [utf8Step, hw] at h
    · cases r with
      | nil => exact ⟨by simp, by simp, [0x80], by simp, by simp [Seq, hw, isCont_80]⟩
      | cons s r2 =>
        by_cases hs : isCont s = true <;> simp [utf8Step, hw, hs] at h
    · cases r with
      | nil =>
        obtain ⟨s, hs⟩ := second3_exists a hw
        exact ⟨by simp, by simp, [s, 0x80], by simp, by simp [Seq, hw, hs, isCont_80]⟩
      | cons s r2 =>
        by_cases hs : second3Ok a s = true <;> simp [utf8Step, hw, hs] at h
        cases r2 with
        | nil => exact ⟨by simp, by simp, [0x80], by simp, by simp [Seq, hw, hs, isCont_80]⟩
        | cons t r3 =>
          by_cases ht : isCont t = true <;> simp [ht] at h
    · cases r with
      | nil =>
        obtain ⟨s, hs⟩ := second4_exists a hw
        exact ⟨by simp, by simp, [s, 0x80, 0x80], by simp, by simp [Seq, hw, hs, isCont_80]⟩
      | cons s r2 =>
        by_cases hs : second4Ok a s = true <;> simp [utf8Step, hw, hs] at h
        cases r2 with
        | nil =>
          exact ⟨by simp, by simp, [0x80, 0x80], by simp, by simp [Seq, hw, hs, isCont_80]⟩
        | cons t r3 =>
          by_cases ht : isCont t = true <;> simp [ht] at h
          cases r3 with
          | nil =>
            exact ⟨by simp, by simp, [0x80], by simp, by simp [Seq, hw, hs, ht, isCont_80]⟩
          | cons u r4 =>
            by_cases hu : isCont u = true <;> simp [hu] at h

/-! ## link between `Seq` and the rows of Table 3-7 -/

theorem u8_le_iff (a b : UInt8) : a ≤ b ↔ a.toNat ≤ b.toNat := UInt8.le_iff_toNat_le

theorem seq_wf_cons {enc : Bytes} (h : Seq enc) {rest : Bytes} (hr : WellFormed rest) :
    WellFormed (enc ++ rest) := by
  match enc, h with
  | [a], h =>
    simp only [Seq, width1] at h
    exact WellFormed.ascii a rest (by rw [u8_le_iff]; simp; omega) hr
  | [a, b], h =>
    simp only [Seq, width2, isCont_nat] at h
    exact WellFormed.two a b rest (by rw [u8_le_iff]; simp; omega) (by rw [u8_le_iff]; simp; omega)
      (by rw [cont_nat]; omega) hr
  | [a, b, c], h =>
    simp only [Seq, width3, isCont_nat, second3Ok_nat] at h
    obtain ⟨hw, h2, h3⟩ := h
    have hc : cont c := by rw [cont_nat]; omega
    rcases h2 with h2 | h2 | h2 | h2
    · have : a = 0xE0 := UInt8.toNat_inj.mp (by simpa using h2.1)
      subst this
      exact WellFormed.threeE0 b c rest (by rw [u8_le_iff]; simp; omega) (by rw [u8_le_iff]; simp; omega) hc hr
    · exact WellFormed.threeE1EC a b c rest (by rw [u8_le_iff]; simp; omega) (by rw [u8_le_iff]; simp; omega)
        (by rw [cont_nat]; omega) hc hr
    · have : a = 0xED := UInt8.toNat_inj.mp (by simpa using h2.1)
      subst this
      exact WellFormed.threeED b c rest (by rw [u8_le_iff]; simp; omega) (by rw [u8_le_iff]; simp; omega) hc hr
    · exact WellFormed.threeEEEF a b c rest (by rw [u8_le_iff]; simp; omega) (by rw [u8_le_iff]; simp; omega)
        (by rw [cont_nat]; omega) hc hr
  | [a, b, c, d], h =>
    simp only [Seq, width4, isCont_nat, second4Ok_nat] at h
    obtain ⟨hw, h2, h3, h4⟩ := h
    have hc : cont c := by rw [cont_nat]; omega
    have hd : cont d := by rw [cont_nat]; omega
    rcases h2 with h2 | h2 | h2
    · have : a = 0xF0 := UInt8.toNat_inj.mp (by simpa using h2.1)
      subst this
      exact WellFormed.fourF0 b c d rest (by rw [u8_le_iff]; simp; omega) (by rw [u8_le_iff]; simp; omega) hc hd hr
    · exact WellFormed.fourF1F3 a b c d rest (by rw [u8_le_iff]; simp; omega) (by rw [u8_le_iff]; simp; omega)
        (by rw [cont_nat]; omega) hc hd hr
    · have : a = 0xF4 := UInt8.toNat_inj.mp (by simpa using h2.1)
      subst this
      exact WellFormed.fourF4 b c d rest (by rw [u8_le_iff]; simp; omega) (by rw [u8_le_iff]; simp; omega) hc hd hr

theorem wf_seq_induction {P : Bytes → Prop} (hnil : P [])
    (hstep : ∀ enc rest, Seq enc → WellFormed rest → P rest → P (enc ++ rest))
    {bs : Bytes} (h : WellFormed bs) : P bs := by
  induction h with
  | nil => exact hnil
  | ascii b rest hb hr ih =>
    refine hstep [b] rest ?_ hr ih
    rw [u8_le_iff] at hb; simp at hb
    simp only [Seq, width1]; omega
  | two b1 b2 rest h1 h2 hc hr ih =>
    refine hstep [b1, b2] rest ?_ hr ih
    rw [u8_le_iff] at h1 h2; simp at h1 h2; rw [cont_nat] at hc
    simp only [Seq, width2, isCont_nat]; omega
  | threeE0 b2 b3 rest h1 h2 hc hr ih =>
    refine hstep [0xE0, b2, b3] rest ?_ hr ih
    rw [u8_le_iff] at h1 h2; simp at h1 h2; rw [cont_nat] at hc
    simp only [Seq, width3, isCont_nat, second3Ok_nat]; simp; omega
  | threeE1EC b1 b2 b3 rest h1 h2 hc2 hc hr ih =>
    refine hstep [b1, b2, b3] rest ?_ hr ih
    rw [u8_le_iff] at h1 h2; simp at h1 h2; rw [cont_nat] at hc hc2
    simp only [Seq, width3, isCont_nat, second3Ok_nat]; omega
  | threeED b2 b3 rest h1 h2 hc hr ih =>
    refine hstep [0xED, b2, b3] rest ?_ hr ih
    rw [u8_le_iff] at h1 h2; simp at h1 h2; rw [cont_nat] at hc
    simp only [Seq, width3, isCont_nat, second3Ok_nat]; simp; omega
  | threeEEEF b1 b2 b3 rest h1 h2 hc2 hc hr ih =>
    refine hstep [b1, b2, b3] rest ?_ hr ih
    rw [u8_le_iff] at h1 h2; simp at h1 h2; rw [cont_nat] at hc hc2
    simp only [Seq, width3, isCont_nat, second3Ok_nat]; omega
  | fourF0 b2 b3 b4 rest h1 h2 hc3 hc4 hr ih =>
    refine hstep [0xF0, b2, b3, b4] rest ?_ hr ih
    rw [u8_le_iff] at h1 h2; simp at h1 h2; rw [cont_nat] at hc3 hc4
    simp only [Seq, width4, isCont_nat, second4Ok_nat]; simp; omega
  | fourF1F3 b1 b2 b3 b4 rest h1 h2 hc2 hc3 hc4 hr ih =>
    refine hstep [b1, b2, b3, b4] rest ?_ hr ih
    rw [u8_le_iff] at h1 h2; simp at h1 h2; rw [cont_nat] at hc2 hc3 hc4
    simp only [Seq, width4, isCont_nat, second4Ok_nat]; omega
  | fourF4 b2 b3 b4 rest h1 h2 hc3 hc4 hr ih =>
    refine hstep [0xF4, b2, b3, b4] rest ?_ hr ih
    rw [u8_le_iff] at h1 h2; simp at h1 h2; rw [cont_nat] at hc3 hc4
    simp only [Seq, width4, isCont_nat, second4Ok_nat]; simp; omega

/-! ## the validation loop -/

/-- move an error position by `n` bytes -/
def shift (n : Nat) : Utf8Res → Utf8Res
  | .ok => .ok
  | .err v el => .err (n + v) el

@[simp] theorem shift_ok (n : Nat) : shift n .ok = .ok := rfl
@[simp] theorem shift_err (n v : Nat) (el : Option Nat) : shift n (.err v el) = .err (n + v) el := rfl
theorem shift_shift (m n : Nat) (r : Utf8Res) : shift m (shift n r) = shift (m + n) r := by
  cases r <;> simp [shift, Nat.add_assoc]
theorem shift_zero (r : Utf8Res) : shift 0 r = r := by cases r <;> simp [shift]
theorem shift_eq_ok {n : Nat} {r : Utf8Res} : shift n r = .ok ↔ r = .ok := by
  cases r <;> simp [shift]

theorem step_ok_pos {bs : Bytes} {n : Nat} (hne : bs ≠ []) (h : utf8Step bs = .ok n) : 1 ≤ n := by
  have h2 := step_ok_seq hne h
  have := h2.2.length_pos
  rw [List.length_take] at this; omega

theorem step_ok_le4 {bs : Bytes} {n : Nat} (hne : bs ≠ []) (h : utf8Step bs = .ok n) : n ≤ 4 := by
  have h2 := step_ok_seq hne h
  have := h2.2.length_le
  rw [List.length_take] at this; omega

theorem validateFrom_pos (fuel pos : Nat) (bs : Bytes) :
    utf8ValidateFrom fuel pos bs = shift pos (utf8ValidateFrom fuel 0 bs) := by
  induction fuel generalizing pos bs with
  | zero => cases bs <;> simp [utf8ValidateFrom]
  | succ f ih =>
    cases bs with
    | nil => simp [utf8ValidateFrom]
    | cons a r =>
      simp only [utf8ValidateFrom]
      cases hs : utf8Step (a :: r) with
      | ok n =>
        simp only
        rw [ih (pos + n), ih (0 + n), shift_shift, Nat.zero_add]
      | invalid k => simp
      | incomplete => simp

theorem validateFrom_fuel (f1 f2 pos : Nat) (bs : Bytes) (h1 : bs.length ≤ f1) (h2 : bs.length ≤ f2) :
    utf8ValidateFrom f1 pos bs = utf8ValidateFrom f2 pos bs := by
  induction f1 generalizing f2 pos bs with
  | zero =>
    cases bs with
    | nil => cases f2 <;> simp [utf8ValidateFrom]
    | cons a r => simp at h1
  | succ f ih =>
    cases bs with
    | nil => cases f2 <;> simp [utf8ValidateFrom]
    | cons a r =>
      cases f2 with
      | zero => simp at h2
      | succ g =>
        simp only [utf8ValidateFrom]
        cases hs : utf8Step (a :: r) with
        | ok n =>
          simp only
          have hn := step_ok_pos (by simp) hs
          apply ih
          · simp only [List.length_drop, List.length_cons] at h1 ⊢; omega
          · simp only [List.length_drop, List.length_cons] at h2 ⊢; omega
        | invalid k => rfl
        | incomplete => rfl

theorem validate_nil : utf8Validate [] = .ok := rfl

theorem validate_of_step_ok {bs : Bytes} {n : Nat} (hne : bs ≠ []) (h : utf8Step bs = .ok n) :
    utf8Validate bs = shift n (utf8Validate (bs.drop n)) := by
  have hn := step_ok_pos hne h
  cases bs with
  | nil => exact absurd rfl hne
  | cons a r =>
    unfold utf8Validate
    simp only [List.length_cons, utf8ValidateFrom, h]
    rw [validateFrom_pos, Nat.zero_add]
    congr 1
    apply validateFrom_fuel
    · simp only [List.length_drop, List.length_cons]; omega
    · exact Nat.le_refl _

theorem validate_of_step_invalid {bs : Bytes} {k : Nat} (h : utf8Step bs = .invalid k) :
    utf8Validate bs = .err 0 (some k) := by
  cases bs with
  | nil => simp [utf8Step] at h
  | cons a r =>
    unfold utf8Validate
    simp only [List.length_cons, utf8ValidateFrom, h]

theorem validate_of_step_incomplete {bs : Bytes} (h : utf8Step bs = .incomplete) :
    utf8Validate bs = .err 0 none := by
  cases bs with
  | nil => simp [utf8Step] at h
  | cons a r =>
    unfold utf8Validate
    simp only [List.length_cons, utf8ValidateFrom, h]

theorem validate_append_seq {enc : Bytes} (h : Seq enc) (rest : Bytes) :
    utf8Validate (enc ++ rest) = shift enc.length (utf8Validate rest) := by
  have := validate_of_step_ok (bs := enc ++ rest) (by simp [h.ne_nil]) (seq_step h rest)
  rwa [List.drop_left] at this

theorem validate_append_wf {a : Bytes} (h : WellFormed a) (b : Bytes) :
    utf8Validate (a ++ b) = shift a.length (utf8Validate b) := by
  refine wf_seq_induction (P := fun a => utf8Validate (a ++ b) = shift a.length (utf8Validate b))
    ?_ ?_ h
  · simp [shift_zero]
  · intro enc rest hs _ ih
    rw [List.append_assoc, validate_append_seq hs, ih, shift_shift, List.length_append]

/-- the step result announced by an `error_len` -/
def stepOfEl : Option Nat → StepRes
  | none => .incomplete
  | some k => .invalid k

theorem validate_spec_aux (n : Nat) : ∀ bs : Bytes, bs.length ≤ n →
    (utf8Validate bs = .ok ∧ WellFormed bs) ∨
    (∃ v el, utf8Validate bs = .err v el ∧ v ≤ bs.length ∧ WellFormed (bs.take v) ∧
      utf8Step (bs.drop v) = stepOfEl el) := by
  induction n with
  | zero =>
    intro bs h
    have : bs = [] := List.length_eq_zero_iff.mp (by omega)
    subst this
    exact Or.inl ⟨rfl, .nil⟩
  | succ n ih =>
    intro bs h
    by_cases hne : bs = []
    · subst hne; exact Or.inl ⟨rfl, .nil⟩
    · cases hs : utf8Step bs with
      | ok m =>
        have hm := step_ok_pos hne hs
        obtain ⟨hle, hseq⟩ := step_ok_seq hne hs
        have hv := validate_of_step_ok hne hs
        have hsplit : bs = bs.take m ++ bs.drop m := (List.take_append_drop m bs).symm
        have hlen : (bs.take m).length = m := by rw [List.length_take]; omega
        rcases ih (bs.drop m) (by rw [List.length_drop]; omega) with ⟨h1, h2⟩ | ⟨v, el, h1, h2, h3, h4⟩
        · left
          refine ⟨by rw [hv, h1]; rfl, ?_⟩
          rw [hsplit]; exact seq_wf_cons hseq h2
        · right
          refine ⟨m + v, el, by rw [hv, h1]; rfl, ?_, ?_, ?_⟩
          · rw [List.length_drop] at h2; omega
          · rw [List.take_add]
            exact seq_wf_cons hseq h3
          · rw [← List.drop_drop] at *; exact h4
      | invalid k =>
        right
        exact ⟨0, some k, validate_of_step_invalid hs, by omega, by simpa using WellFormed.nil, by simpa [stepOfEl] using hs⟩
      | incomplete =>
        right
        exact ⟨0, none, validate_of_step_incomplete hs, by omega, by simpa using WellFormed.nil, by simpa [stepOfEl] using hs⟩

theorem validate_spec (bs : Bytes) :
    (utf8Validate bs = .ok ∧ WellFormed bs) ∨
    (∃ v el, utf8Validate bs = .err v el ∧ v ≤ bs.length ∧ WellFormed (bs.take v) ∧
      utf8Step (bs.drop v) = stepOfEl el) :=
  validate_spec_aux bs.length bs (Nat.le_refl _)

theorem validate_ok_iff (bs : Bytes) : utf8Validate bs = .ok ↔ WellFormed bs := by
  constructor
  · intro h
    rcases validate_spec bs with ⟨_, h2⟩ | ⟨v, el, h1, _⟩
    · exact h2
    · rw [h] at h1; cases h1
  · intro h
    have := validate_append_wf h []
    simpa [validate_nil] using this

theorem validate_err_spec {bs : Bytes} {v : Nat} {el : Option Nat} (h : utf8Validate bs = .err v el) :
    v ≤ bs.length ∧ WellFormed (bs.take v) ∧ utf8Step (bs.drop v) = stepOfEl el := by
  rcases validate_spec bs with ⟨h1, _⟩ | ⟨v', el', h1, h2⟩
  · rw [h] at h1; cases h1
  · rw [h] at h1; cases h1; exact h2

theorem wf_append {a b : Bytes} (ha : WellFormed a) (hb : WellFormed b) : WellFormed (a ++ b) := by
  rw [← validate_ok_iff, validate_append_wf ha, (validate_ok_iff b).mpr hb]; rfl

theorem wf_cancel {a b : Bytes} (ha : WellFormed a) (hab : WellFormed (a ++ b)) : WellFormed b := by
  rw [← validate_ok_iff, validate_append_wf ha, shift_eq_ok, validate_ok_iff] at hab
  exact hab

theorem seq_wf {enc : Bytes} (h : Seq enc) : WellFormed enc := by
  simpa using seq_wf_cons h WellFormed.nil

/-- a well-formed input starts with a sequence the loop accepts -/
theorem wf_step {bs : Bytes} (h : WellFormed bs) : ∃ n, utf8Step bs = .ok n := by
  have hv := (validate_ok_iff bs).mpr h
  cases hs : utf8Step bs with
  | ok n => exact ⟨n, rfl⟩
  | invalid k => rw [validate_of_step_invalid hs] at hv; cases hv
  | incomplete => rw [validate_of_step_incomplete hs] at hv; cases hv

theorem not_wf_of_step_invalid {bs : Bytes} {k : Nat} (h : utf8Step bs = .invalid k) (more : Bytes) :
    ¬ WellFormed (bs ++ more) := by
  intro hw
  have h2 := step_invalid_append h more
  obtain ⟨n, hn⟩ := wf_step hw
  rw [hn] at h2; cases h2

theorem not_wf_of_step_incomplete {bs : Bytes} (h : utf8Step bs = .incomplete) : ¬ WellFormed bs := by
  intro hw
  obtain ⟨n, hn⟩ := wf_step hw
  rw [hn] at h; cases h

end WsProofs.Utf8
