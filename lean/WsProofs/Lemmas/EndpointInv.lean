import WsProofs.Lemmas.EndpointPrim

/-! The global invariant of the endpoint and its preservation by the write side
(`bufferFrame` … `flush`, `close`, `write`). The read side is in `EndpointRead`. -/
namespace WsProofs
open WsModel WsModel.Gen

structure Inv (w : World) : Prop where
  fifo : w.t.accepted ++ w.c.codec.outBuf = encodeAll w.queued
  bound : w.c.codec.outBuf.length ≤ w.c.codec.maxOut
  cfgFixed : w.c.codec.maxOut = w.c.cfg.maxw ∧ w.c.codec.writeLen = w.c.cfg.wbuf
  closeLast : CloseLast w.queued
  active : w.c.state = .active →
    (∀ f ∈ w.queued, f.isClose = false) ∧ (∀ f, w.c.additional = some f → f.isPong = true)
  closing : w.c.state.closing3 = true →
    ∀ f, w.c.additional = some f → (f.isClose = true ∧ ∀ g ∈ w.queued, g.isClose = false)
  drained : w.c.state.closing3 = true → w.c.additional = none → w.c.unflushed = false →
    w.c.codec.outBuf = []
  /-- (added) the pending slot only ever holds a pong or a close frame -/
  slot : ∀ f, w.c.additional = some f → (f.isPong = true ∨ f.isClose = true)
  /-- (added) while the slot is occupied no Close frame has been queued yet, in every state -/
  slotClean : ∀ f, w.c.additional = some f → ∀ g ∈ w.queued, g.isClose = false

/-! ### small facts -/

theorem closeLast_snoc {q : List Frame} (f : Frame) (h : ∀ g ∈ q, g.isClose = false) :
    CloseLast (q ++ [f]) := by
  intro pre g post heq hclose
  rcases List.eq_nil_or_concat post with hp | ⟨post', x, hp⟩
  · exact hp
  · exfalso
    rw [hp, List.concat_eq_append] at heq
    have heq' : q ++ [f] = (pre ++ g :: post') ++ [x] := by simpa using heq
    have hq : q = pre ++ g :: post' := (List.append_singleton_inj.mp heq').1
    have hg : g ∈ q := by rw [hq]; simp
    rw [h g hg] at hclose
    cases hclose

theorem no_close_snoc {q : List Frame} {f : Frame} (h : ∀ g ∈ q, g.isClose = false)
    (hf : f.isClose = false) : ∀ g ∈ q ++ [f], g.isClose = false := by
  intro g hg
  rcases List.mem_append.mp hg with hg | hg
  · exact h g hg
  · rw [List.mem_singleton.mp hg]; exact hf

theorem pong_not_close {f : Frame} (h : f.isPong = true) : f.isClose = false := by
  unfold Frame.isPong at h
  unfold Frame.isClose
  have : f.header.opcode = .control .pong := by simpa using h
  rw [this]; rfl

theorem close_not_pong {f : Frame} (h : f.isClose = true) : f.isPong = false := by
  unfold Frame.isClose at h
  unfold Frame.isPong
  have : f.header.opcode = .control .close := by simpa using h
  rw [this]; rfl

theorem isClose_close (c : Option CloseFrame) : (Frame.close c).isClose = true := rfl
theorem isPong_pong (d : Bytes) : (Frame.pong d).isPong = true := rfl

theorem closing3_not_active {s : WsState} (h : s.closing3 = true) : s ≠ .active := by
  intro hs; rw [hs] at h; cases h

theorem active_not_closing3 {s : WsState} (h : s = .active) : s.closing3 = false := by
  rw [h]; rfl

/-- nothing the invariant looks at has changed, except that the state may have become
`terminated` and `unflushed` may have become `true` -/
theorem Inv_weaken {w w' : World} (h : Inv w)
    (hacc : w'.t.accepted = w.t.accepted) (hout : w'.c.codec.outBuf = w.c.codec.outBuf)
    (hmax : w'.c.codec.maxOut = w.c.codec.maxOut) (hwl : w'.c.codec.writeLen = w.c.codec.writeLen)
    (hcfg : w'.c.cfg = w.c.cfg) (hq : w'.queued = w.queued)
    (ha : w'.c.additional = w.c.additional)
    (hs : w'.c.state = w.c.state ∨ w'.c.state = .terminated)
    (hu : w'.c.unflushed = w.c.unflushed ∨ w'.c.unflushed = true) : Inv w' := by
  refine ⟨?_, ?_, ?_, ?_, ?_, ?_, ?_, ?_, ?_⟩
  · rw [hacc, hout, hq]; exact h.fifo
  · rw [hout, hmax]; exact h.bound
  · rw [hmax, hwl, hcfg]; exact h.cfgFixed
  · rw [hq]; exact h.closeLast
  · intro hact
    rw [hq, ha]
    rcases hs with hs | hs
    · exact h.active (hs ▸ hact)
    · rw [hs] at hact; cases hact
  · intro hcl
    rw [hq, ha]
    rcases hs with hs | hs
    · exact h.closing (hs ▸ hcl)
    · rw [hs] at hcl; cases hcl
  · intro hcl hnone hunf
    rw [hout]
    rcases hs with hs | hs
    · rcases hu with hu | hu
      · exact h.drained (hs ▸ hcl) (ha ▸ hnone) (hu ▸ hunf)
      · rw [hu] at hunf; cases hunf
    · rw [hs] at hcl; cases hcl
  · rw [ha]; exact h.slot
  · rw [ha, hq]; exact h.slotClean

theorem Inv_setTerminated {w : World} (h : Inv w) : Inv (w.setState .terminated) :=
  Inv_weaken h rfl rfl rfl rfl rfl rfl rfl (Or.inr rfl) (Or.inl rfl)

theorem Inv_setUnflushed_true {w : World} (h : Inv w) : Inv (w.setUnflushed true) :=
  Inv_weaken h rfl rfl rfl rfl rfl rfl rfl (Or.inl rfl) (Or.inr rfl)

theorem Inv_setIncomplete {w : World} (h : Inv w) (i : Option Incomplete) : Inv (w.setIncomplete i) :=
  Inv_weaken h rfl rfl rfl rfl rfl rfl rfl (Or.inl rfl) (Or.inl rfl)

theorem Inv_setUnflushed_false {w : World} (h : Inv w) (he : w.c.codec.outBuf = []) :
    Inv (w.setUnflushed false) :=
  ⟨h.fifo, h.bound, h.cfgFixed, h.closeLast, h.active, h.closing, fun _ _ _ => he, h.slot,
    h.slotClean⟩

/-- entering a closing state from `active` with a Close frame in the slot -/
theorem Inv_enter_closing {w : World} (h : Inv w) (hs : w.c.state = .active) (s' : WsState)
    (hs' : s'.closing3 = true) (c : Option CloseFrame) :
    Inv ((w.setState s').setAdditionalRaw (some (Frame.close c))) := by
  obtain ⟨hq, _⟩ := h.active hs
  refine ⟨h.fifo, h.bound, h.cfgFixed, h.closeLast, ?_, ?_, ?_, ?_, ?_⟩
  · intro hact
    exact absurd hact (closing3_not_active hs')
  · intro _ f hf
    have : f = Frame.close c := by
      simp only [World.setAdditionalRaw, World.setState] at hf
      exact (Option.some.inj hf).symm
    subst this
    exact ⟨rfl, hq⟩
  · intro _ hnone
    simp [World.setAdditionalRaw] at hnone
  · intro f hf
    have : f = Frame.close c := by
      simp only [World.setAdditionalRaw, World.setState] at hf
      exact (Option.some.inj hf).symm
    subst this
    exact Or.inr rfl
  · intro f _
    exact hq

theorem setAdditional_of_active {w : World} (h : Inv w) (hs : w.c.state = .active) (s' : WsState)
    (f : Frame) : (w.setState s').setAdditional f = (w.setState s').setAdditionalRaw (some f) := by
  obtain ⟨_, hp⟩ := h.active hs
  unfold World.setAdditional
  cases ha : (w.setState s').c.additional with
  | none => rfl
  | some g =>
    have hg : g.isPong = true := hp g ha
    simp [hg]

theorem setState_self (w : World) : w.setState w.c.state = w := rfl

/-- queueing a pong in the slot while active -/
theorem Inv_setAdditional_pong {w : World} (h : Inv w) (hs : w.c.state = .active) (d : Bytes) :
    Inv (w.setAdditional (Frame.pong d)) := by
  have he := setAdditional_of_active h hs w.c.state (Frame.pong d)
  rw [setState_self] at he
  rw [he]
  obtain ⟨hq, _⟩ := h.active hs
  refine ⟨h.fifo, h.bound, h.cfgFixed, h.closeLast, ?_, ?_, ?_, ?_, ?_⟩
  · intro _
    refine ⟨hq, ?_⟩
    intro f hf
    have : f = Frame.pong d := by
      simp only [World.setAdditionalRaw] at hf
      exact (Option.some.inj hf).symm
    subst this
    rfl
  · intro hcl
    have : (w.setAdditionalRaw (some (Frame.pong d))).c.state = .active := hs
    rw [this] at hcl
    cases hcl
  · intro _ hnone
    simp [World.setAdditionalRaw] at hnone
  · intro f hf
    have : f = Frame.pong d := by
      simp only [World.setAdditionalRaw] at hf
      exact (Option.some.inj hf).symm
    subst this
    exact Or.inl rfl
  · intro f _
    exact hq

/-- moving between closing states -/
theorem Inv_closing_state {w : World} (h : Inv w) (hs : w.c.state.closing3 = true) (s' : WsState)
    (hs' : s'.closing3 = true) : Inv (w.setState s') :=
  ⟨h.fifo, h.bound, h.cfgFixed, h.closeLast, fun hact => absurd hact (closing3_not_active hs'),
    fun _ => h.closing hs, fun _ => h.drained hs, h.slot, h.slotClean⟩

/-! ### `bufferFrame` -/

/-- the wire part of the invariant after a frame has been queued -/
theorem fifo_snoc {w w' : World} {f' : Frame} (h : Inv w)
    (hq : w'.queued = w.queued ++ [f'])
    (hf : w'.t.accepted ++ w'.c.codec.outBuf = w.t.accepted ++ w.c.codec.outBuf ++ f'.format) :
    w'.t.accepted ++ w'.c.codec.outBuf = encodeAll w'.queued := by
  rw [hf, hq, encodeAll_append, encodeAll_singleton, h.fifo]

/-- a data (non-Close) frame buffered while active -/
theorem bufferFrame_inv_active {w : World} (h : Inv w) (hs : w.c.state = .active) (f : Frame)
    (hf : f.isClose = false) :
    Inv (w.bufferFrame f).1 ∧ (w.bufferFrame f).1.c.state = .active := by
  have S := World.bufferFrame_spec w f
  generalize w.bufferFrame f = x at *
  obtain ⟨w', r⟩ := x
  simp only [] at S ⊢
  have hst : w'.c.state = .active := by
    rcases S.state with h1 | ⟨_, h2⟩
    · rw [h1, hs]
    · have := (S.cc h2).2.1
      rw [hs] at this
      cases this
  refine ⟨?_, hst⟩
  obtain ⟨hq, hp⟩ := h.active hs
  obtain ⟨f', hsk, hcase⟩ := S.queue
  have hf' : f'.isClose = false := by rw [hsk.isClose]; exact hf
  rcases hcase with ⟨_, hqq, hout, hacc, _⟩ | ⟨_, hqq, hfifo, hbound⟩
  · exact Inv_weaken h hacc hout S.maxOut S.writeLen S.cfg hqq S.additional (Or.inl (hst.trans hs.symm))
      (Or.inl S.unflushed)
  · have hall : ∀ g ∈ w'.queued, g.isClose = false := by
      rw [hqq]; exact no_close_snoc hq hf'
    refine ⟨fifo_snoc h hqq hfifo, ?_, ?_, ?_, ?_, ?_, ?_, ?_, ?_⟩
    · rw [S.maxOut]; exact hbound
    · rw [S.maxOut, S.writeLen, S.cfg]; exact h.cfgFixed
    · rw [hqq]; exact closeLast_snoc f' hq
    · intro _
      refine ⟨hall, ?_⟩
      rw [S.additional]; exact hp
    · intro hcl
      rw [hst] at hcl; cases hcl
    · intro hcl
      rw [hst] at hcl; cases hcl
    · rw [S.additional]; exact h.slot
    · intro _ _
      exact hall

/-! ### `writeOutBuffer`, `streamFlush` -/

theorem writeOutBuffer_inv {w : World} (h : Inv w) :
    Inv w.writeOutBuffer.1 ∧ (w.writeOutBuffer.2 = .ok () → w.writeOutBuffer.1.c.codec.outBuf = []) := by
  have S := World.writeOutBuffer_spec w
  generalize w.writeOutBuffer = x at *
  obtain ⟨w', r⟩ := x
  simp only [] at S ⊢
  refine ⟨?_, S.codec.empty⟩
  refine ⟨?_, ?_, ?_, ?_, ?_, ?_, ?_, ?_, ?_⟩
  · rw [S.codec.fifo, S.queued]; exact h.fifo
  · rw [S.codec.maxOut]; exact Nat.le_trans S.codec.len h.bound
  · rw [S.codec.maxOut, S.codec.writeLen, S.cfg]; exact h.cfgFixed
  · rw [S.queued]; exact h.closeLast
  · rw [S.state, S.queued, S.additional]; exact h.active
  · rw [S.state, S.queued, S.additional]; exact h.closing
  · rw [S.state, S.additional, S.unflushed]
    intro h1 h2 h3
    have := h.drained h1 h2 h3
    have hl := S.codec.len
    rw [this] at hl
    exact List.eq_nil_of_length_eq_zero (Nat.le_zero.mp hl)
  · rw [S.additional]; exact h.slot
  · rw [S.additional, S.queued]; exact h.slotClean

theorem streamFlush_inv {w : World} (h : Inv w) : Inv w.streamFlush.1 := by
  have S := World.streamFlush_spec w
  exact Inv_weaken h S.accepted (by rw [S.c]) (by rw [S.c]) (by rw [S.c]) (by rw [S.c]) S.queued
    (by rw [S.c]) (Or.inl (by rw [S.c])) (Or.inl (by rw [S.c]))

theorem streamFlush_outBuf (w : World) : w.streamFlush.1.c.codec.outBuf = w.c.codec.outBuf := by
  rw [(World.streamFlush_spec w).c]

/-! ### `writeSlot`, `writeTail`, `writeInternal` -/

theorem writeSlot_inv {w : World} (h : Inv w) : Inv w.writeSlot.1 := by
  unfold World.writeSlot
  cases ha : w.c.additional with
  | none => exact h
  | some msg =>
    simp only []
    have S := World.bufferFrame_spec (w.setAdditionalRaw none) msg
    generalize (w.setAdditionalRaw none).bufferFrame msg = x at *
    obtain ⟨w1, r⟩ := x
    simp only [World.setAdditionalRaw] at S
    have hq : ∀ g ∈ w.queued, g.isClose = false := h.slotClean msg ha
    obtain ⟨f', hsk, hcase⟩ := S.queue
    rcases hcase with ⟨hr, hqq, hout, hacc, hst⟩ | ⟨hnw, hqq, hfifo, hbound⟩
    · -- handed back: the frame returns to the slot
      subst hr
      simp only []
      have hadd : w1.c.additional = none := S.additional
      have he : w1.setAdditional f' = w1.setAdditionalRaw (some f') := by
        unfold World.setAdditional; rw [hadd]
      rw [he]
      refine ⟨?_, ?_, ?_, ?_, ?_, ?_, ?_, ?_, ?_⟩
      · show w1.t.accepted ++ w1.c.codec.outBuf = encodeAll w1.queued
        rw [hacc, hout, hqq]; exact h.fifo
      · show w1.c.codec.outBuf.length ≤ w1.c.codec.maxOut
        rw [hout, S.maxOut]; exact h.bound
      · show w1.c.codec.maxOut = w1.c.cfg.maxw ∧ w1.c.codec.writeLen = w1.c.cfg.wbuf
        rw [S.maxOut, S.writeLen, S.cfg]; exact h.cfgFixed
      · show CloseLast w1.queued
        rw [hqq]; exact h.closeLast
      · intro hact
        have hact' : w.c.state = .active := hst ▸ hact
        refine ⟨by show ∀ f ∈ w1.queued, f.isClose = false; rw [hqq]; exact hq, ?_⟩
        intro f hf
        have : f = f' := (Option.some.inj hf).symm
        subst this
        rw [hsk.isPong]
        exact (h.active hact').2 msg ha
      · intro hcl f hf
        have hcl' : w.c.state.closing3 = true := hst ▸ hcl
        have : f = f' := (Option.some.inj hf).symm
        subst this
        rw [hsk.isClose]
        refine ⟨(h.closing hcl' msg ha).1, ?_⟩
        show ∀ g ∈ w1.queued, g.isClose = false
        rw [hqq]; exact hq
      · intro _ hnone
        simp [World.setAdditionalRaw] at hnone
      · intro f hf
        have : f = f' := (Option.some.inj hf).symm
        subst this
        rw [hsk.isPong, hsk.isClose]
        exact h.slot msg ha
      · intro f _
        show ∀ g ∈ w1.queued, g.isClose = false
        rw [hqq]; exact hq
    · -- queued: `unflushed` is set
      have hI : Inv (w1.setUnflushed true) := by
        refine ⟨?_, ?_, ?_, ?_, ?_, ?_, ?_, ?_, ?_⟩
        · exact fifo_snoc h hqq hfifo
        · show w1.c.codec.outBuf.length ≤ w1.c.codec.maxOut
          rw [S.maxOut]; exact hbound
        · show w1.c.codec.maxOut = w1.c.cfg.maxw ∧ w1.c.codec.writeLen = w1.c.cfg.wbuf
          rw [S.maxOut, S.writeLen, S.cfg]; exact h.cfgFixed
        · show CloseLast w1.queued
          rw [hqq]; exact closeLast_snoc f' hq
        · intro hact
          have hact' : w.c.state = .active := by
            rcases S.state with h1 | ⟨h1, _⟩
            · exact h1 ▸ hact
            · have : w1.c.state = .active := hact
              rw [h1] at this; cases this
          have hf' : f'.isClose = false := by
            rw [hsk.isClose]; exact pong_not_close ((h.active hact').2 msg ha)
          refine ⟨by show ∀ f ∈ w1.queued, f.isClose = false; rw [hqq]; exact no_close_snoc hq hf', ?_⟩
          intro f hf
          have : w1.c.additional = some f := hf
          rw [S.additional] at this; cases this
        · intro _ f hf
          have : w1.c.additional = some f := hf
          rw [S.additional] at this; cases this
        · intro _ _ hu
          cases hu
        · intro f hf
          have : w1.c.additional = some f := hf
          rw [S.additional] at this; cases this
        · intro f hf
          have : w1.c.additional = some f := hf
          rw [S.additional] at this; cases this
      rcases S.kind with rfl | ⟨k, rfl⟩ | rfl | ⟨g, rfl⟩
      · exact hI
      · exact hI
      · exact hI
      · exact absurd rfl (hnw g)

theorem writeTail_inv {w : World} (h : Inv w) (sf : Bool) : Inv (w.writeTail sf).1 := by
  unfold World.writeTail
  by_cases hc : w.c.role = .server ∧ (!w.c.state.canRead) = true ∧ w.c.additional.isNone = true
  · rw [if_pos hc]
    apply andThen_pres (P := Inv)
    · exact (writeOutBuffer_inv h).1
    · intro w1 _ h1
      exact Inv_setTerminated h1
  · rw [if_neg hc]
    exact h

theorem writeInternal_inv {w : World} (h : Inv w) (data : Option Frame)
    (hd : ∀ f, data = some f → w.c.state = .active ∧ f.isClose = false) :
    Inv (w.writeInternal data).1 := by
  unfold World.writeInternal
  apply andThen_pres (P := Inv)
  · cases data with
    | none => exact h
    | some f =>
      obtain ⟨hs, hf⟩ := hd f rfl
      exact (bufferFrame_inv_active h hs f hf).1
  · intro w1 _ h1
    apply andThen_pres (P := Inv)
    · exact writeSlot_inv h1
    · intro w2 sf h2
      exact writeTail_inv h2 sf

/-! ### `flush`, `close`, `write` -/

/-- invariant plus "a successful result means the write buffer is empty" -/
def InvE (w : World) (r : Res Unit) : Prop := Inv w ∧ (r = .ok () → w.c.codec.outBuf = [])

theorem flushRetry_invE {w : World} (h : Inv w) (he : w.c.codec.outBuf = []) :
    InvE w.flushRetry.1 w.flushRetry.2 := by
  unfold World.flushRetry
  by_cases hc : w.c.additional.isSome = true
  · rw [if_pos hc]
    apply andThen_spec (Q1 := fun w (_ : Res Bool) => Inv w) (Q2 := InvE)
    · exact writeInternal_inv h none (by simp)
    · intro w1 _ h1
      exact writeOutBuffer_inv h1
    · intro w1 e h1
      exact ⟨h1, by simp⟩
    · intro w1 s h1
      exact ⟨h1, by simp⟩
  · rw [if_neg hc]
    exact ⟨h, fun _ => he⟩

theorem flush_inv {w : World} (h : Inv w) : Inv w.flush.1 := by
  unfold World.flush
  by_cases hc : (!w.c.state.notTerminated) = true
  · rw [if_pos hc]; exact h
  · rw [if_neg hc]
    apply andThen_pres (P := Inv)
    · exact writeInternal_inv h none (by simp)
    · intro w1 _ h1
      apply andThen_spec (Q1 := InvE) (Q2 := fun w (_ : Res Unit) => Inv w)
      · exact writeOutBuffer_inv h1
      · intro w2 _ h2
        apply andThen_spec (Q1 := InvE) (Q2 := fun w (_ : Res Unit) => Inv w)
        · exact flushRetry_invE h2.1 (h2.2 rfl)
        · intro w3 _ h3
          apply andThen_spec (Q1 := InvE) (Q2 := fun w (_ : Res Unit) => Inv w)
          · exact ⟨streamFlush_inv h3.1, fun _ => by rw [streamFlush_outBuf]; exact h3.2 rfl⟩
          · intro w4 _ h4
            exact Inv_setUnflushed_false h4.1 (h4.2 rfl)
          · intro w4 e h4; exact h4.1
          · intro w4 s h4; exact h4.1
        · intro w3 e h3; exact h3.1
        · intro w3 s h3; exact h3.1
      · intro w2 e h2; exact h2.1
      · intro w2 s h2; exact h2.1

theorem close_inv {w : World} (h : Inv w) (c : Option CloseFrame) : Inv (w.close c).1 := by
  unfold World.close
  by_cases hs : w.c.state = .active
  · simp only [hs, if_true]
    exact flush_inv (Inv_enter_closing h hs .closedByUs rfl c)
  · simp only [hs, if_false]
    exact flush_inv h

theorem writeData_inv {w : World} (h : Inv w) (hs : w.c.state = .active) (f : Frame)
    (hf : f.isClose = false) : Inv (w.writeData f).1 := by
  unfold World.writeData
  apply andThen_pres (P := Inv)
  · exact writeInternal_inv h (some f) (fun g hg => by cases hg; exact ⟨hs, hf⟩)
  · intro w1 sf h1
    cases sf with
    | true => exact flush_inv h1
    | false => exact h1

theorem isActive_eq_true {s : WsState} (h : s.isActive = true) : s = .active := by
  cases s <;> first | rfl | cases h

theorem write_inv {w : World} (h : Inv w) (m : Message) (hm : Op.noRaw (.write m)) :
    Inv (w.write m).1 := by
  unfold World.write
  by_cases h1 : (!w.c.state.notTerminated) = true
  · rw [if_pos h1]; exact h
  · rw [if_neg h1]
    by_cases h2 : (!w.c.state.isActive) = true
    · rw [if_pos h2]; exact h
    · rw [if_neg h2]
      have hs : w.c.state = .active := isActive_eq_true (by simpa using h2)
      cases m with
      | text d => exact writeData_inv h hs _ rfl
      | binary d => exact writeData_inv h hs _ rfl
      | ping d => exact writeData_inv h hs _ rfl
      | pong d =>
        apply andThen_pres (P := Inv)
        · exact writeInternal_inv (Inv_setAdditional_pong h hs d) none (by simp)
        · intro w1 _ h1; exact h1
      | close c => exact close_inv h c
      | frame f => exact absurd hm (by simp [Op.noRaw])

end WsProofs
