import WsProofs.Lemmas.GlobalSlot

/-! The read side's effect on the pending slot: `read_message_frame` overwrites it at most once
(a fresh pong, or the Close reply), and only when it holds nothing or a pong; then the
decomposition of every operation into "prepare, drain, maybe overwrite". -/
namespace WsProofs
open WsModel WsModel.Gen

/-- the slot holds nothing or a pong -/
def Pongy (w : World) : Prop := ∀ f, w.c.additional = some f → f.isPong = true

theorem Pongy.of_eq {w w' : World} (h : Pongy w) (ha : w'.c.additional = w.c.additional) : Pongy w' := by
  intro f hf; rw [ha] at hf; exact h f hf

theorem Inv.pongy {w : World} (h : Inv w) (hs : w.c.state = .active) : Pongy w := (h.active hs).2

theorem setAdditional_slot (w : World) (f : Frame) :
    (w.setAdditional f).c.additional = w.c.additional ∨
    (Pongy w ∧ (w.setAdditional f).c.additional = some f) := by
  by_cases hp : Pongy w
  · right
    refine ⟨hp, ?_⟩
    unfold World.setAdditional
    cases ha : w.c.additional with
    | none => rfl
    | some g =>
      have hg : g.isPong = true := hp g ha
      simp only [hg, if_true]
      rfl
  · left
    unfold World.setAdditional
    cases ha : w.c.additional with
    | none => exact absurd (fun g hg => by rw [ha] at hg; cases hg) hp
    | some g =>
      by_cases hg : g.isPong = true
      · exfalso; apply hp; intro g' hg'; rw [ha] at hg'; cases hg'; exact hg
      · simp only [hg]
        exact ha

theorem setAdditional_pongy {w : World} (h : Pongy w) (f : Frame) :
    (w.setAdditional f).c.additional = some f := by
  unfold World.setAdditional
  cases ha : w.c.additional with
  | none => rfl
  | some g =>
    have hg : g.isPong = true := h g ha
    simp only [hg, if_true]
    rfl

/-- at most one overwrite of the slot, by a fresh automatic reply, possible only while active and
only if the slot held nothing or a pong -/
structure Ovw (w w' : World) : Prop where
  role : w'.c.role = w.c.role
  queued : w'.queued = w.queued
  slot : w'.c.additional = w.c.additional ∨
    (w.c.state = .active ∧ Pongy w ∧
      ((∃ d, w'.c.additional = some (Frame.pong d)) ∨ (∃ c, w'.c.additional = some (Frame.close c))))

theorem Ovw.of_same {w w' : World} (hr : w'.c.role = w.c.role) (hq : w'.queued = w.queued)
    (ha : w'.c.additional = w.c.additional) : Ovw w w' := ⟨hr, hq, Or.inl ha⟩

theorem Ovw.refl (w : World) : Ovw w w := Ovw.of_same rfl rfl rfl

/-- slot/queue effect of one arm of `read_message_frame`, with what the result tells -/
structure OS (w w' : World) (r : Res (Option Message)) : Prop extends Ovw w w' where
  none : r = .ok none → w'.c.additional = w.c.additional
  closeMsg : ∀ c, r = .ok (some (.close c)) → w.c.state = .active → Pongy w →
    w'.c.additional = some (Frame.close c)

theorem OS.same (w : World) (r : Res (Option Message)) (hcl : ∀ c, r ≠ .ok (some (.close c))) :
    OS w w r := ⟨Ovw.refl w, fun _ => rfl, fun c h => absurd h (hcl c)⟩

theorem OS.setIncomplete (w : World) (i : Option Incomplete) (r : Res (Option Message))
    (hcl : ∀ c, r ≠ .ok (some (.close c))) : OS w (w.setIncomplete i) r :=
  ⟨Ovw.of_same rfl rfl rfl, fun _ => rfl, fun c h => absurd h (hcl c)⟩

/-! ### `doClose`, control frames -/

theorem doClose_os (w : World) (c : Option CloseFrame) :
    Ovw w (w.doClose c).1 ∧
    ((w.doClose c).2 = .ok none → (w.doClose c).1.c.additional = w.c.additional) ∧
    (∀ y, (w.doClose c).2 = .ok (some y) → w.c.state = .active → Pongy w →
      (w.doClose c).1.c.additional = some (Frame.close y)) := by
  unfold World.doClose
  cases hs : w.c.state with
  | active =>
    simp only []
    obtain ⟨f1, f2, f3, f4, _⟩ := setAdditional_fields (w.setState .closedByPeer)
      (Frame.close (c.map fun cf =>
        if (!closeCodeIsAllowed cf.code) = true then
          { code := .protocol, reason := protocolViolationReason } else cf))
    refine ⟨⟨f2, f4, ?_⟩, by simp, ?_⟩
    · rcases setAdditional_slot (w.setState .closedByPeer)
        (Frame.close (c.map fun cf =>
          if (!closeCodeIsAllowed cf.code) = true then
            { code := .protocol, reason := protocolViolationReason } else cf)) with h | ⟨hp, h⟩
      · exact Or.inl h
      · exact Or.inr ⟨hs, hp, Or.inr ⟨_, h⟩⟩
    · intro y hy _ hp
      have hy' : y = c.map fun cf =>
          if (!closeCodeIsAllowed cf.code) = true then
            { code := .protocol, reason := protocolViolationReason } else cf := by
        injection hy with hy
        injection hy with hy
        exact hy.symm
      rw [hy']
      exact setAdditional_pongy (w := w.setState .closedByPeer) hp _
  | closedByPeer => exact ⟨Ovw.refl w, fun _ => rfl, by simp⟩
  | closeAcknowledged => exact ⟨Ovw.refl w, fun _ => rfl, by simp⟩
  | closedByUs =>
    exact ⟨Ovw.of_same rfl rfl rfl, fun _ => rfl, fun _ _ h => by cases h⟩
  | terminated => exact ⟨Ovw.refl w, fun _ => rfl, by simp⟩

theorem onControl_os (w : World) (frame : Frame) (ctl : OpCtl) :
    OS w (w.onControl frame ctl).1 (w.onControl frame ctl).2 := by
  unfold World.onControl
  by_cases h1 : (!frame.header.fin) = true
  · rw [if_pos h1]; exact OS.same _ _ (by simp)
  · rw [if_neg h1]
    by_cases h2 : frame.payload.length > 125
    · rw [if_pos h2]; exact OS.same _ _ (by simp)
    · rw [if_neg h2]
      cases ctl with
      | reserved i => exact OS.same _ _ (by simp)
      | pong => exact OS.same _ _ (by simp)
      | ping =>
        simp only []
        by_cases ha : w.c.state.isActive = true
        · simp only [ha, if_true]
          obtain ⟨f1, f2, f3, f4, _⟩ := setAdditional_fields w (Frame.pong frame.payload)
          refine ⟨⟨f2, f4, ?_⟩, by simp, by simp⟩
          rcases setAdditional_slot w (Frame.pong frame.payload) with h | ⟨hp, h⟩
          · exact Or.inl h
          · exact Or.inr ⟨isActive_eq_true ha, hp, Or.inl ⟨_, h⟩⟩
        · simp only [ha, if_false, Bool.false_eq_true]
          exact OS.same _ _ (by simp)
      | close =>
        simp only []
        cases hic : frame.intoClose with
        | err e => exact OS.same _ _ (by simp)
        | panic s => exact OS.same _ _ (by simp)
        | ok c =>
          simp only []
          obtain ⟨S1, S2, S3⟩ := doClose_os w c
          generalize w.doClose c = x at *
          obtain ⟨w1, r⟩ := x
          cases r with
          | err e => exact ⟨S1, by simp [andThen], by simp [andThen]⟩
          | panic s => exact ⟨S1, by simp [andThen], by simp [andThen]⟩
          | ok o =>
            cases o with
            | none => exact ⟨S1, fun _ => S2 rfl, by simp [andThen]⟩
            | some y =>
              refine ⟨S1, by simp [andThen], ?_⟩
              intro c' hc' hs hp
              have : y = c' := by
                simp only [andThen, Option.map] at hc'
                injection hc' with hc'
                injection hc' with hc'
                injection hc'
              subst this
              exact S3 y rfl hs hp

/-! ### data frames -/

theorem onContinue_os (w : World) (frame : Frame) :
    OS w (w.onContinue frame).1 (w.onContinue frame).2 := by
  unfold World.onContinue
  cases hi : w.c.incomplete with
  | none => exact OS.same _ _ (by simp)
  | some msg =>
    simp only []
    generalize msg.extend frame.payload w.c.cfg.maxMsg = x
    obtain ⟨msg', r⟩ := x
    cases r with
    | err e => exact OS.setIncomplete _ _ _ (by simp)
    | panic s => exact OS.setIncomplete _ _ _ (by simp)
    | ok u =>
      cases u
      simp only []
      by_cases hf : frame.header.fin = true
      · rw [if_pos hf]
        obtain ⟨_, hc2⟩ := Incomplete.complete_spec msg'
        cases hcm : msg'.complete with
        | ok m =>
          rw [hcm] at hc2
          exact OS.setIncomplete _ _ _ (by
            intro c hc; injection hc with hc; injection hc with hc
            exact hc2 c (by rw [hc]))
        | err e => exact OS.setIncomplete _ _ _ (by simp)
        | panic s => exact OS.setIncomplete _ _ _ (by simp)
      · rw [if_neg hf]
        exact OS.setIncomplete _ _ _ (by simp)

theorem startFragmented_os (w : World) (frame : Frame) (ty : Incomplete) :
    OS w (w.startFragmented frame ty).1 (w.startFragmented frame ty).2 := by
  unfold World.startFragmented
  generalize ty.extend frame.payload w.c.cfg.maxMsg = x
  obtain ⟨msg', r⟩ := x
  cases r with
  | err e => exact OS.same _ _ (by simp)
  | panic s => exact OS.same _ _ (by simp)
  | ok u =>
    cases u
    exact OS.setIncomplete _ _ _ (by simp)

theorem onData_os (w : World) (frame : Frame) (d : OpData) :
    OS w (w.onData frame d).1 (w.onData frame d).2 := by
  unfold World.onData
  cases d with
  | «continue» => exact onContinue_os w frame
  | reserved i =>
    simp only []
    by_cases h1 : w.c.incomplete.isSome = true
    · rw [if_pos h1]; exact OS.same _ _ (by simp)
    · rw [if_neg h1]; exact OS.same _ _ (by simp)
  | text =>
    simp only []
    by_cases h1 : w.c.incomplete.isSome = true
    · rw [if_pos h1]; exact OS.same _ _ (by simp)
    · rw [if_neg h1]
      by_cases h2 : frame.header.fin = true
      · rw [if_pos h2]
        by_cases h3 : (!checkMaxSize frame.payload.length w.c.cfg.maxMsg) = true
        · rw [if_pos h3]; exact OS.same _ _ (by simp)
        · rw [if_neg h3]
          cases hit : frame.intoText with
          | ok t => exact OS.same _ _ (by simp)
          | err e => exact OS.same _ _ (by simp)
          | panic s => exact OS.same _ _ (by simp)
      · rw [if_neg h2]; exact startFragmented_os w frame _
  | binary =>
    simp only []
    by_cases h1 : w.c.incomplete.isSome = true
    · rw [if_pos h1]; exact OS.same _ _ (by simp)
    · rw [if_neg h1]
      by_cases h2 : frame.header.fin = true
      · rw [if_pos h2]
        by_cases h3 : (!checkMaxSize frame.payload.length w.c.cfg.maxMsg) = true
        · rw [if_pos h3]; exact OS.same _ _ (by simp)
        · rw [if_neg h3]; exact OS.same _ _ (by simp)
      · rw [if_neg h2]; exact startFragmented_os w frame _

theorem onFrame_os (w : World) (frame : Frame) :
    OS w (w.onFrame frame).1 (w.onFrame frame).2 := by
  unfold World.onFrame
  by_cases h0 : (!w.c.state.canRead) = true
  · rw [if_pos h0]; exact OS.same _ _ (by simp)
  · rw [if_neg h0]
    by_cases h1 : frame.header.rsv1 = true ∨ frame.header.rsv2 = true ∨ frame.header.rsv3 = true
    · rw [if_pos h1]; exact OS.same _ _ (by simp)
    · rw [if_neg h1]
      by_cases h2 : w.c.role = .client ∧ frame.header.mask.isSome = true
      · rw [if_pos h2]; exact OS.same _ _ (by simp)
      · rw [if_neg h2]
        cases frame.header.opcode with
        | control ctl => exact onControl_os w frame ctl
        | data d => exact onData_os w frame d

theorem onEof_os (w : World) : OS w w.onEof.1 w.onEof.2 := by
  unfold World.onEof
  cases hs : w.c.state <;>
    exact ⟨Ovw.of_same rfl rfl rfl, fun _ => rfl, by simp⟩

theorem readMessageFrame_os (w : World) : OS w w.readMessageFrame.1 w.readMessageFrame.2 := by
  rw [readMessageFrame_eq]
  have S := readRaw_spec w
  generalize readRaw w = x at *
  obtain ⟨w1, r⟩ := x
  simp only [] at S
  have hO : Ovw w w1 := Ovw.of_same S.role S.queued S.additional
  cases r with
  | panic s => exact ⟨hO, by simp [andThen], by simp [andThen]⟩
  | err e => exact ⟨hO, by simp [andThen], by simp [andThen]⟩
  | ok o =>
    have hst : w1.c.state = w.c.state := by
      rcases S.state with h1 | ⟨_, h2⟩
      · exact h1
      · cases h2
    have lift : ∀ (w2 : World) (r2 : Res (Option Message)), OS w1 w2 r2 → OS w w2 r2 := by
      intro w2 r2 F
      refine ⟨⟨F.role.trans S.role, F.queued.trans S.queued, ?_⟩, fun h => (F.none h).trans S.additional,
        fun c h hs hp => F.closeMsg c h (hst.trans hs) (hp.of_eq S.additional)⟩
      rcases F.slot with h | ⟨a1, a2, a3⟩
      · exact Or.inl (h.trans S.additional)
      · refine Or.inr ⟨hst ▸ a1, ?_, a3⟩
        intro f hf
        exact a2 f (S.additional.trans hf)
    cases o with
    | some frame => exact lift _ _ (onFrame_os w1 frame)
    | none => exact lift _ _ (onEof_os w1)

/-! ### the `read` loop: drain, then at most one overwrite -/

/-- `read`: some slot draining (the retries at the top of each iteration), then the last
`read_message_frame`, which may overwrite the slot once -/
def RLS (w w' : World) (r : Res Message) : Prop :=
  ∃ w1, SD w w1 ∧ (w.c.state = .active → w1.c.state = .active) ∧ Ovw w1 w' ∧
    (∀ c, r = .ok (.close c) → w1.c.state = .active → Pongy w1 →
      w'.c.additional = some (Frame.close c))

theorem readLoop_slot (fuel : Nat) (w : World) (hnt : w.c.state ≠ .terminated) :
    RLS w (World.readLoop fuel w).1 (World.readLoop fuel w).2 := by
  induction fuel generalizing w with
  | zero => exact ⟨w, SD.refl w, id, Ovw.refl w, by simp [World.readLoop]⟩
  | succ fuel ih =>
    simp only [World.readLoop]
    have P := readPre_FS hnt
    have PW := (readPre_ws w).toSD
    generalize w.readPre = x at *
    obtain ⟨wa, r1⟩ := x
    simp only [] at P PW
    cases r1 with
    | panic s => exact (P.not_panic).elim
    | err e => exact ⟨wa, PW, fun hs => (P.active hs).1, Ovw.refl wa, by simp [andThen]⟩
    | ok u =>
      have hsa : wa.c.state = w.c.state := P.state_of_ok
      have hnta : wa.c.state ≠ .terminated := hsa ▸ hnt
      show RLS w (andThen wa.readMessageFrame _).1 (andThen wa.readMessageFrame _).2
      have M := readMessageFrame_spec wa
      have O := readMessageFrame_os wa
      generalize wa.readMessageFrame = y at *
      obtain ⟨wb, r2⟩ := y
      simp only [] at M O
      cases r2 with
      | panic s => exact ⟨wa, PW, fun hs => hsa.trans hs, O.toOvw, by simp [andThen]⟩
      | err e => exact ⟨wa, PW, fun hs => hsa.trans hs, O.toOvw, by simp [andThen]⟩
      | ok om =>
        cases om with
        | some m =>
          refine ⟨wa, PW, fun hs => hsa.trans hs, O.toOvw, ?_⟩
          intro c hc hs hp
          have : m = .close c := by
            simp only [andThen] at hc
            injection hc
          exact O.closeMsg c (by rw [this]) hs hp
        | none =>
          have hsb : wb.c.state = wa.c.state := M.none rfl
          have hab : SD wa wb := SD.of_same O.role (O.none rfl) O.queued
          obtain ⟨w1, h1, h2, h3, h4⟩ := ih wb (by rw [hsb]; exact hnta)
          show RLS w (World.readLoop fuel wb).1 (World.readLoop fuel wb).2
          exact ⟨w1, SD.trans PW (SD.trans hab h1),
            fun hs => h2 (hsb.trans (hsa.trans hs)), h3, h4⟩

theorem read_slot (w : World) (hnt : w.c.state ≠ .terminated) : RLS w w.read.1 w.read.2 := by
  unfold World.read
  have hnt' : ¬ (!w.c.state.notTerminated) = true := by simp [notTerminated_iff.mpr hnt]
  rw [if_neg hnt']
  exact readLoop_slot _ w hnt

/-! ### every operation: prepare, drain, maybe overwrite -/

/-- frames a user `write` creates -/
def UserFrame (f : Frame) : Prop :=
  (∃ d, f = Frame.message d (.data .text) true) ∨ (∃ d, f = Frame.message d (.data .binary) true) ∨
  (∃ d, f = Frame.ping d)

/-- what an operation does before any slot draining -/
inductive Pre (w : World) (op : Op) (w0 : World) : Prop
  | same : w0.c.additional = w.c.additional → w0.queued = w.queued → Pre w op w0
  | close (c : Option CloseFrame) : w.c.state = .active → Pongy w →
      w0.c.additional = some (Frame.close c) → w0.queued = w.queued → Pre w op w0
  | pong (d : Bytes) : op = .write (.pong d) → w.c.state = .active → Pongy w →
      w0.c.additional = some (Frame.pong d) → w0.queued = w.queued → Pre w op w0
  | data (f f' : Frame) : UserFrame f → Masked w.c.role f f' →
      w0.c.additional = w.c.additional → w0.queued = w.queued ++ [f'] → Pre w op w0

theorem Pre.of_bq {w : World} {op : Op} {f : Frame} {w1 : World} {r : Res Unit}
    (hu : UserFrame f) (h : BQ w f w1 r) : Pre w op w1 := by
  obtain ⟨f', hm, hcase⟩ := h.queue
  rcases hcase with ⟨_, hq⟩ | ⟨_, hq⟩
  · exact Pre.same h.additional hq
  · exact Pre.data f f' hu hm h.additional hq

theorem step_decomp (w : World) (op : Op) (hI : Inv w) (hop : op.noRaw) :
    ∃ w0 w1, w0.c.role = w.c.role ∧ Pre w op w0 ∧ SD w0 w1 ∧ Ovw w1 (w.step op).1 := by
  have trivial_case : (w.step op).1 = w →
      ∃ w0 w1, w0.c.role = w.c.role ∧ Pre w op w0 ∧ SD w0 w1 ∧ Ovw w1 (w.step op).1 := by
    intro h
    rw [h]
    exact ⟨w, w, rfl, Pre.same rfl rfl, SD.refl w, Ovw.refl w⟩
  cases op with
  | read =>
    by_cases hnt : w.c.state = .terminated
    · apply trivial_case
      simp only [World.step, terminated_read w hnt]
    · obtain ⟨w1, h1, _, h3, _⟩ := read_slot w hnt
      exact ⟨w, w1, rfl, Pre.same rfl rfl, h1, h3⟩
  | flush =>
    exact ⟨w, w.flush.1, rfl, Pre.same rfl rfl, (flush_ws w).toSD, Ovw.refl _⟩
  | close c =>
    by_cases hs : w.c.state = .active
    · exact ⟨(w.setState .closedByUs).setAdditionalRaw (some (Frame.close c)), (w.close c).1, rfl,
        Pre.close c hs (hI.pongy hs) rfl rfl, (close_ws_active w c hs).toSD, Ovw.refl _⟩
    · exact ⟨w, (w.close c).1, rfl, Pre.same rfl rfl, (close_ws_other w c hs).toSD, Ovw.refl _⟩
  | write m =>
    by_cases hs : w.c.state = .active
    · obtain ⟨e1, e2, e3⟩ := write_data_eq w hs
      have data_case : ∀ f, UserFrame f → w.write m = w.writeData f →
          ∃ w0 w1, w0.c.role = w.c.role ∧ Pre w (.write m) w0 ∧ SD w0 w1 ∧
            Ovw w1 (w.step (.write m)).1 := by
        intro f hu he
        have B := World.bufferFrame_bq w f
        refine ⟨(w.bufferFrame f).1, (w.writeData f).1, B.role, Pre.of_bq hu B,
          (writeData_ws w f).toSD, ?_⟩
        show Ovw _ (w.write m).1
        rw [he]
        exact Ovw.refl _
      cases m with
      | text d => exact data_case _ (Or.inl ⟨d, rfl⟩) (e1 d)
      | binary d => exact data_case _ (Or.inr (Or.inl ⟨d, rfl⟩)) (e2 d)
      | ping d => exact data_case _ (Or.inr (Or.inr ⟨d, rfl⟩)) (e3 d)
      | frame f => exact absurd hop (by simp [Op.noRaw])
      | close c =>
        refine ⟨(w.setState .closedByUs).setAdditionalRaw (some (Frame.close c)), (w.close c).1, rfl,
          Pre.close c hs (hI.pongy hs) rfl rfl, (close_ws_active w c hs).toSD, ?_⟩
        show Ovw _ (w.write (.close c)).1
        rw [write_close_eq w c hs]
        exact Ovw.refl _
      | pong d =>
        obtain ⟨f1, f2, f3, f4, _⟩ := setAdditional_fields w (Frame.pong d)
        refine ⟨w.setAdditional (Frame.pong d), (slotTail (w.setAdditional (Frame.pong d))).1, f2,
          Pre.pong d rfl hs (hI.pongy hs) (setAdditional_pongy (hI.pongy hs) _) f4,
          (slotTail_ws _).toSD, ?_⟩
        show Ovw _ (w.write (.pong d)).1
        rw [write_pong_eq w d hs, andThen_unit_fst]
        exact Ovw.refl _
    · apply trivial_case
      show (w.write m).1 = w
      exact (write_refused w m hs).1

/-- the role never changes, for every operation from every state (raw frames included) -/
theorem step_role (w : World) (op : Op) : (w.step op).1.c.role = w.c.role := by
  cases op with
  | read =>
    by_cases hnt : w.c.state = .terminated
    · simp only [World.step, terminated_read w hnt]
    · exact (read_spec w hnt).role
  | flush => exact (flush_ws w).role
  | close c =>
    by_cases hs : w.c.state = .active
    · exact (close_ws_active w c hs).role
    · exact (close_ws_other w c hs).role
  | write m =>
    show (w.write m).1.c.role = w.c.role
    by_cases hs : w.c.state = .active
    · obtain ⟨e1, e2, e3⟩ := write_data_eq w hs
      have hd : ∀ f, (w.writeData f).1.c.role = w.c.role := fun f =>
        (writeData_ws w f).role.trans (World.bufferFrame_bq w f).role
      cases m with
      | text d => rw [e1 d]; exact hd _
      | binary d => rw [e2 d]; exact hd _
      | ping d => rw [e3 d]; exact hd _
      | frame f =>
        have : w.write (.frame f) = w.writeData f := by
          unfold World.write
          have h1 : ¬ (!w.c.state.notTerminated) = true := by rw [hs]; simp [WsState.notTerminated]
          have h2 : ¬ (!w.c.state.isActive) = true := by rw [hs]; simp [WsState.isActive]
          rw [if_neg h1, if_neg h2]
        rw [this]; exact hd _
      | close c => rw [write_close_eq w c hs]; exact (close_ws_active w c hs).role
      | pong d =>
        rw [write_pong_eq w d hs, andThen_unit_fst]
        exact (slotTail_ws _).role.trans (setAdditional_fields w _).2.1
    · rw [(write_refused w m hs).1]

end WsProofs
