import WsProofs.Lemmas.ReadWorld

/-! Layer 3: successive reads of the whole stream against the specification. -/
namespace WsProofs.Read
open WsModel WsModel.Gen WsModel.Spec

/-- the model's reading agrees with the specification's decoding -/
def Agree (role : Role) (r : List Message × Final) (s : List Message × End) : Prop :=
  r.1 = s.1 ∧ finalMatches role r.2 s.2

theorem readAll_ok {fuel : Nat} {w w' : World} {m : Message} (h : w.read = (w', .ok m)) :
    readAll (fuel + 1) w = (m :: (readAll fuel w').1, (readAll fuel w').2) := by
  rw [readAll, h]

theorem readAll_block {fuel : Nat} {w w' : World} (h : w.read = (w', .err (.io .wouldBlock))) :
    readAll (fuel + 1) w = if w'.t.rd.isEmpty then ([], .pending) else readAll fuel w' := by
  rw [readAll, h]

theorem readAll_err {fuel : Nat} {w w' : World} {e : Err} (h : w.read = (w', .err e))
    (hne : e ≠ .io .wouldBlock) : readAll (fuel + 1) w = ([], .error e) := by
  rw [readAll, h]
  cases e with
  | io k =>
    cases k with
    | wouldBlock => exact absurd rfl hne
    | _ => rfl
  | _ => rfl

theorem class_ne_block {e : Err} {c : ErrClass} (h : errClassOf e = some c) :
    e ≠ .io .wouldBlock := by
  intro he; subst he; cases h

/-! ## after the Close -/

theorem closed_server_readAll {cfg : Config} {w : World} (hc : ClosedInv .server cfg w)
    (fuel : Nat) (hf : 1 ≤ fuel) : readAll fuel w = ([], .error .connectionClosed) := by
  obtain ⟨fuel, rfl⟩ : ∃ f, fuel = f + 1 := ⟨fuel - 1, by omega⟩
  obtain ⟨w', h⟩ := closed_server_read hc
  exact readAll_err h (by intro h; cases h)

theorem closed_client_readAll {cfg : Config} : ∀ (fuel : Nat) (w : World),
    ClosedInv .client cfg w →
    (readAll fuel w).1 = [] ∧ ∀ s, (readAll fuel w).2 ≠ .panicked s := by
  intro fuel
  induction fuel with
  | zero => intro w _; exact ⟨rfl, fun s h => by cases h⟩
  | succ fuel ih =>
    intro w hc
    rcases closed_client_read hc with ⟨h1, h2⟩ | ⟨e, c, h1, h2⟩
    · have hread : w.read = (w.read.1, .err (.io .wouldBlock)) := by rw [← h1]
      rw [readAll_block hread]
      by_cases hemp : w.read.1.t.rd.isEmpty = true
      · rw [if_pos hemp]; exact ⟨rfl, fun s h => by cases h⟩
      · rw [if_neg hemp]; exact ih _ h2
    · have hread : w.read = (w.read.1, .err e) := by rw [← h1]
      rw [readAll_err hread (class_ne_block h2)]
      exact ⟨rfl, fun s h => by cases h⟩

theorem closed_readAll {role : Role} {cfg : Config} {w : World} (hc : ClosedInv role cfg w)
    (fuel : Nat) (hf : 1 ≤ fuel) :
    (readAll fuel w).1 = [] ∧ finalMatches role (readAll fuel w).2 .closed := by
  cases role with
  | server =>
    rw [closed_server_readAll hc fuel hf]
    exact ⟨rfl, rfl⟩
  | client => exact closed_client_readAll fuel w hc

/-! ## the whole stream -/

theorem readAll_spec (role : Role) (cfg : Config) (lim : Limits) (K : Nat)
    (hmf : lim.maxFrame = cfg.maxFrame) (hlim : LimOK lim.maxMsg cfg.maxMsg K) :
    ∀ (fuel : Nat) (w : World) (S : Bytes) (frag : Option Partial), Inv role cfg w S frag →
      accLen frag + S.length ≤ K → measM w + 1 ≤ fuel →
      Agree role (readAll fuel w) (dec role cfg.acceptUnmasked lim frag S) := by
  intro fuel
  induction fuel with
  | zero => intro w S frag _ _ hf; omega
  | succ fuel ih =>
    intro w S frag hinv hK hf
    have hro := read_spec role cfg lim K hmf hlim w S frag hinv hK
    generalize hres : w.read = res at hro
    obtain ⟨w', r⟩ := res
    unfold ReadOut at hro
    dsimp only at hro
    rcases hro with ⟨m, S', frag', hr, hd, hi, hm, hk⟩ | ⟨m, hr, hd, hc, hm⟩ |
      ⟨S', frag', hr, hd, hi, hk, he, hne⟩ | ⟨e, c, hr, hc, hd⟩
    · subst hr
      rw [readAll_ok hres, hd]
      obtain ⟨h1, h2⟩ := ih w' S' frag' hi hk (by omega)
      exact ⟨by show m :: _ = m :: _; rw [h1], h2⟩
    · subst hr
      rw [readAll_ok hres, hd]
      obtain ⟨h1, h2⟩ := closed_readAll hc fuel (by omega)
      exact ⟨by show m :: _ = [m]; rw [h1], h2⟩
    · subst hr
      rw [readAll_block hres, hd]
      by_cases hemp : w'.t.rd.isEmpty = true
      · rw [if_pos hemp, he (List.isEmpty_iff.mp hemp)]
        exact ⟨rfl, rfl⟩
      · rw [if_neg hemp]
        have hne' : w'.t.rd ≠ [] := fun h => hemp (List.isEmpty_iff.mpr h)
        have := hne hne'
        exact ih w' S' frag' hi hk (by omega)
    · subst hr
      rw [readAll_err hres (class_ne_block hc), hd]
      exact ⟨rfl, e, rfl, hc⟩

/-! ## the initial state -/

theorem init_inv (role : Role) (cfg : Config) (pre : Bytes) (c : Ctx)
    (hc : Ctx.new role cfg pre = some c) (hmax : 200 ≤ cfg.maxw)
    (t : Transport) (hb : ∀ e ∈ t.rd, e.benign = true) (hdef : t.rdDef = .err .wouldBlock)
    (hout : t.acceptsAll) (mu : List Mask) :
    Inv role cfg { c := c, t := t, mu := mu } (pre ++ dataOf t.rd) none := by
  unfold Ctx.new at hc
  by_cases hv : configValid cfg.maxw cfg.wbuf = true
  · rw [if_pos hv] at hc
    cases hc
    refine ⟨⟨rfl, rfl, hmax, rfl, (fun f hf => by cases hf), hb, hdef, hout⟩, rfl,
      ⟨pre, rfl, rfl⟩, (fun h len hh => by cases hh), trivial⟩
  · rw [if_neg hv] at hc; cases hc

theorem init_measM (c : Ctx) (t : Transport) (mu : List Mask) :
    measM { c := c, t := t, mu := mu } + 1 ≤ readAllFuel { c := c, t := t, mu := mu } := by
  unfold measM measN readAllFuel
  omega

/-- the general statement: any specification limits that agree with the configuration on the
sizes that can occur -/
theorem readAll_init (role : Role) (cfg : Config) (lim : Limits) (pre : Bytes) (c : Ctx)
    (hc : Ctx.new role cfg pre = some c) (hmax : 200 ≤ cfg.maxw)
    (t : Transport) (hb : ∀ e ∈ t.rd, e.benign = true) (hdef : t.rdDef = .err .wouldBlock)
    (hout : t.acceptsAll) (mu : List Mask)
    (hmf : lim.maxFrame = cfg.maxFrame)
    (hlim : LimOK lim.maxMsg cfg.maxMsg (pre ++ dataOf t.rd).length) :
    Agree role (readAll (readAllFuel { c := c, t := t, mu := mu }) { c := c, t := t, mu := mu })
      (Spec.decode role cfg.acceptUnmasked lim (pre ++ dataOf t.rd)) := by
  rw [decode_eq_dec]
  exact readAll_spec role cfg lim _ hmf hlim _ _ _ none
    (init_inv role cfg pre c hc hmax t hb hdef hout mu)
    (by simp only [accLen, Nat.zero_add]; exact Nat.le_refl _)
    (init_measM c t mu)

end WsProofs.Read
