import WsProofs.Lemmas.ProgressClose

/-! A read that meets the end of the transport at a frame boundary, with nothing pending:
`read_frame` returns `None` and an endpoint that has received a Close reports `ConnectionClosed`. -/
namespace WsProofs.Progress
open WsModel WsModel.Gen WsProofs

/-- `read_frame` at a frame boundary with an empty buffer over an ended transport -/
theorem Codec.readFrame_eof (c : Codec) (t : Transport) (hin : c.inBuf = []) (hh : c.header = none)
    (hrd : t.rd = []) (hdef : t.rdDef = .eof) (m : Option Nat) (u a : Bool) :
    c.readFrame t m u a = (c, (t.read).1, .ok none) := by
  obtain ⟨inBuf, outBuf, maxOut, writeLen, header⟩ := c
  obtain ⟨rd, wr, fl, rdDef, wrDef, flDef, accepted, flushedUpTo, log, exhausted⟩ := t
  dsimp only at hin hh hrd hdef
  subst hin hh hrd hdef
  rfl

theorem readPre_idle (w : World) (hn : w.c.additional = none) (hu : w.c.unflushed = false)
    (hc : w.c.role = .client) : w.readPre = (w, .ok ()) := by
  unfold World.readPre
  rw [if_neg (by rw [hn, hu]; simp), if_neg (by rw [hc]; simp)]

theorem onEof_closeReceived (w : World) (h : w.c.state.closeReceived = true) :
    w.onEof = (w.setState .terminated, .err .connectionClosed) := by
  unfold World.onEof
  cases hs : w.c.state with
  | closedByPeer => rfl
  | closeAcknowledged => rfl
  | active => rw [hs] at h; cases h
  | closedByUs => rw [hs] at h; cases h
  | terminated => rw [hs] at h; cases h

theorem read_eof (w : World) (hc : w.c.role = .client) (hcr : w.c.state.closeReceived = true)
    (hn : w.c.additional = none) (hu : w.c.unflushed = false)
    (hin : w.c.codec.inBuf = []) (hh : w.c.codec.header = none)
    (hrd : w.t.rd = []) (hdef : w.t.rdDef = .eof) :
    w.read.2 = .err .connectionClosed ∧ w.read.1.c.state = .terminated := by
  have hnt : w.c.state ≠ .terminated := (closeReceived_cases hcr).2.1
  unfold World.read
  have hnt' : ¬ (!w.c.state.notTerminated) = true := by
    simp [notTerminated_iff.mpr hnt]
  rw [if_neg hnt']
  have hfuel : w.readFuel = (w.c.codec.inBuf.length + rdBytes w.t.rd + 1) + 1 := rfl
  rw [hfuel]
  unfold World.readLoop
  rw [readPre_idle w hn hu hc, andThen_ok_eq, readMessageFrame_eq]
  have hraw : readRaw w = (w.setCodec w.c.codec (w.t.read).1, .ok none) := by
    unfold readRaw
    rw [Codec.readFrame_eof w.c.codec w.t hin hh hrd hdef]
    rfl
  rw [hraw, andThen_ok_eq]
  dsimp only
  rw [onEof_closeReceived (w.setCodec w.c.codec (w.t.read).1) hcr, andThen_err_eq]
  exact ⟨rfl, rfl⟩

end WsProofs.Progress
