import WsProofs.Lemmas.ProgressFlush

/-! One `flush` over an accepting transport: the slot is emptied, the write buffer drained, and a
server that can no longer read is terminated with `ConnectionClosed` (`flush_post`); the same for
the start of `read` (`read_closed`). -/
namespace WsProofs.Progress
open WsModel WsModel.Gen WsProofs

/-- "the server ends the connection once nothing is left to send" applies -/
def T (w : World) : Prop := w.c.role = .server ∧ w.c.state.canRead = false

/-- the pending frame fits into an empty write buffer whatever mask it is given -/
def Fits (w : World) : Prop :=
  ∀ f, w.c.additional = some f → ∀ g : Frame, g.payload = f.payload → g.len ≤ w.c.codec.maxOut

theorem Fits.of_len {w : World} (h : ∀ f, w.c.additional = some f → f.len + 4 ≤ w.c.codec.maxOut) :
    Fits w := by
  intro f hf g hg
  have := Local.len_le_of_payload f g hg
  have := h f hf
  omega

/-! ### `writeSlot` -/

structure WSPost (w w' : World) : Prop where
  acc : w'.t.acceptsAll
  inv : Inv w'
  maxOut : w'.c.codec.maxOut = w.c.codec.maxOut
  role : w'.c.role = w.c.role
  state : w'.c.state = w.c.state
  slot : w'.c.additional = none ∨
    ∃ f f', w.c.additional = some f ∧ w'.c.additional = some f' ∧ f'.payload = f.payload ∧
      f'.len + w.c.codec.outBuf.length > w.c.codec.maxOut

theorem writeSlot_post (w : World) (hI : Inv w) (ha : w.t.acceptsAll) :
    ∃ w' b, w.writeSlot = (w', .ok b) ∧ WSPost w w' := by
  obtain ⟨hacc, b, hb⟩ := writeSlot_acc w ha
  have hInv := writeSlot_inv hI
  have F := writeSlot_FSC w
  refine ⟨w.writeSlot.1, b, pair_eq_of_snd _ _ hb, hacc, hInv, ?_, F.role, ?_, ?_⟩
  · cases hadd : w.c.additional with
    | none => rw [Local.writeSlot_none w hadd]
    | some f =>
      obtain ⟨_, _, _, hm, _⟩ := Local.writeSlot_some w f hadd
      exact hm
  · have F' := F.toFS
    rw [hb] at F'
    exact F'.state_of_ok
  · cases hadd : w.c.additional with
    | none =>
      left
      rw [Local.writeSlot_none w hadd]
      exact hadd
    | some f =>
      obtain ⟨f', hp, _, _, _, hcases⟩ := Local.writeSlot_some w f hadd
      rcases hcases with ⟨hfull, _, hadd', _, _⟩ | ⟨_, hok⟩
      · exact Or.inr ⟨f, f', rfl, hadd', hp, hfull⟩
      · exact Or.inl (hok b hb).1

/-! ### `slotTail` (= `_write(None)`) -/

structure STPost (w w' : World) (r : Res Bool) : Prop where
  acc : w'.t.acceptsAll
  inv : Inv w'
  maxOut : w'.c.codec.maxOut = w.c.codec.maxOut
  role : w'.c.role = w.c.role
  cases :
    (r = .err .connectionClosed ∧ w'.c.state = .terminated ∧ w'.c.codec.outBuf = [] ∧
      w'.c.additional = none ∧ T w) ∨
    (∃ b, r = .ok b ∧ w'.c.additional = none ∧ w'.c.state = w.c.state ∧ ¬ T w) ∨
    (∃ b f f', r = .ok b ∧ w.c.additional = some f ∧ w'.c.additional = some f' ∧
      f'.payload = f.payload ∧ w'.c.state = w.c.state ∧
      f'.len + w.c.codec.outBuf.length > w.c.codec.maxOut)

theorem slotTail_post (w : World) (hI : Inv w) (ha : w.t.acceptsAll) :
    STPost w (slotTail w).1 (slotTail w).2 := by
  obtain ⟨w1, b, e1, P1⟩ := writeSlot_post w hI ha
  unfold slotTail
  rw [e1, andThen_ok_eq]
  unfold World.writeTail
  by_cases hc : w1.c.role = .server ∧ (!w1.c.state.canRead) = true ∧ w1.c.additional.isNone = true
  · rw [if_pos hc]
    obtain ⟨hrole, hcr, hnone⟩ := hc
    obtain ⟨w2, e2, S2, a2⟩ := writeOutBuffer_acc w1 P1.acc
    rw [e2, andThen_ok_eq]
    have hI2 := writeOutBuffer_inv P1.inv
    rw [e2] at hI2
    refine ⟨a2, Inv_setTerminated hI2.1, ?_, ?_, Or.inl ⟨rfl, rfl, hI2.2 rfl, ?_, ?_, ?_⟩⟩
    · show w2.c.codec.maxOut = w.c.codec.maxOut
      rw [S2.codec.maxOut, P1.maxOut]
    · show w2.c.role = w.c.role
      rw [S2.role, P1.role]
    · show w2.c.additional = none
      rw [S2.additional]
      exact Option.isNone_iff_eq_none.mp hnone
    · rw [← P1.role]; exact hrole
    · rw [← P1.state]; simpa using hcr
  · rw [if_neg hc]
    refine ⟨P1.acc, P1.inv, P1.maxOut, P1.role, Or.inr ?_⟩
    rcases P1.slot with hnone | ⟨f, f', h1, h2, h3, h4⟩
    · refine Or.inl ⟨b, rfl, hnone, P1.state, ?_⟩
      intro hT
      apply hc
      refine ⟨by rw [P1.role]; exact hT.1, by rw [P1.state, hT.2]; rfl, by rw [hnone]; rfl⟩
    · exact Or.inr ⟨b, f, f', rfl, h1, h2, h3, P1.state, h4⟩

/-! ### `flush` -/

/-- `flush` after its `_write(None)?` -/
def flushRest (w : World) : World × Res Unit :=
  andThen w.writeOutBuffer fun w _ =>
  andThen w.flushRetry fun w _ =>
  andThen w.streamFlush fun w _ =>
  (w.setUnflushed false, .ok ())

theorem flush_eq (w : World) (hnt : w.c.state ≠ .terminated) :
    w.flush = andThen (slotTail w) fun w _ => flushRest w := by
  unfold World.flush
  have hnt' : ¬ (!w.c.state.notTerminated) = true := by
    simp [notTerminated_iff.mpr hnt]
  rw [if_neg hnt', writeInternal_none_eq]
  rfl

/-- what `flush` establishes over an accepting transport -/
structure FlPost (w w' : World) (r : Res Unit) : Prop where
  acc : w'.t.acceptsAll
  inv : Inv w'
  additional : w'.c.additional = none
  outBuf : w'.c.codec.outBuf = []
  closed : T w → r = .err .connectionClosed ∧ w'.c.state = .terminated
  opened : ¬ T w → r = .ok () ∧ w'.c.state = w.c.state ∧ w'.c.unflushed = false

/-- the tail of `flush` once the buffer has been drained and the slot is empty -/
theorem tail_empty (w : World) (hI : Inv w) (ha : w.t.acceptsAll) (hn : w.c.additional = none)
    (he : w.c.codec.outBuf = []) :
    ∃ w', (andThen w.flushRetry fun w _ =>
        andThen w.streamFlush fun w _ => (w.setUnflushed false, (.ok () : Res Unit))) = (w', .ok ()) ∧
      w'.t.acceptsAll ∧ Inv w' ∧ w'.c.additional = none ∧ w'.c.codec.outBuf = [] ∧
      w'.c.state = w.c.state ∧ w'.c.unflushed = false := by
  have hfr : w.flushRetry = (w, .ok ()) := by
    unfold World.flushRetry
    rw [hn]
    rfl
  rw [hfr, andThen_ok_eq]
  obtain ⟨w3, e3, S3, a3⟩ := streamFlush_acc w ha
  rw [e3, andThen_ok_eq]
  have hI3 := streamFlush_inv hI
  rw [e3] at hI3
  have he3 : w3.c.codec.outBuf = [] := by rw [S3.c]; exact he
  refine ⟨_, rfl, a3, Inv_setUnflushed_false hI3 he3, ?_, he3, ?_, rfl⟩
  · show w3.c.additional = none
    rw [S3.c]; exact hn
  · show w3.c.state = w.c.state
    rw [S3.c]

theorem flush_post (w : World) (hI : Inv w) (ha : w.t.acceptsAll) (hnt : w.c.state ≠ .terminated)
    (hfit : Fits w) : FlPost w w.flush.1 w.flush.2 := by
  rw [flush_eq w hnt]
  apply andThen_spec (Q1 := STPost w) (Q2 := FlPost w)
  · exact slotTail_post w hI ha
  · -- `_write(None)` returned `Ok`
    intro w1 b P1
    rcases P1.cases with ⟨h, _⟩ | ⟨_, _, hn1, hs1, hT⟩ | ⟨_, f, f', _, hf, hf', hp, hs1, hover⟩
    · cases h
    · -- slot empty
      unfold flushRest
      obtain ⟨w2, e2, S2, a2⟩ := writeOutBuffer_acc w1 P1.acc
      rw [e2, andThen_ok_eq]
      have hI2 := writeOutBuffer_inv P1.inv
      rw [e2] at hI2
      obtain ⟨w', e', a', I', n', o', s', u'⟩ := tail_empty w2 hI2.1 a2
        (by rw [S2.additional]; exact hn1) (hI2.2 rfl)
      rw [e']
      refine ⟨a', I', n', o', fun h => absurd h hT, fun _ => ⟨rfl, ?_, u'⟩⟩
      rw [s', S2.state, hs1]
    · -- the frame was put back: drain, retry
      unfold flushRest
      obtain ⟨w2, e2, S2, a2⟩ := writeOutBuffer_acc w1 P1.acc
      rw [e2, andThen_ok_eq]
      have hI2 := writeOutBuffer_inv P1.inv
      rw [e2] at hI2
      have he2 : w2.c.codec.outBuf = [] := hI2.2 rfl
      have hadd2 : w2.c.additional = some f' := by rw [S2.additional]; exact hf'
      have hmax2 : w2.c.codec.maxOut = w.c.codec.maxOut := by rw [S2.codec.maxOut, P1.maxOut]
      have hT2 : T w2 ↔ T w := by
        unfold T
        rw [S2.role, P1.role, S2.state, hs1]
      have hfr : w2.flushRetry = andThen (slotTail w2) fun w _ => w.writeOutBuffer := by
        unfold World.flushRetry
        rw [hadd2, writeInternal_none_eq]
        rfl
      rw [hfr]
      have P3 := slotTail_post w2 hI2.1 a2
      generalize slotTail w2 = x at P3
      obtain ⟨w3, r3⟩ := x
      dsimp only at P3
      rcases P3.cases with ⟨h, hst, ho, hn, hT3⟩ | ⟨b3, h, hn3, hs3, hT3⟩ |
        ⟨_, g, g', _, hg, _, hgp, _, hover3⟩
      · subst h
        rw [andThen_err_eq, andThen_err_eq]
        exact ⟨P3.acc, P3.inv, hn, ho, fun _ => ⟨rfl, hst⟩, fun h => absurd (hT2.mp hT3) h⟩
      · subst h
        rw [andThen_ok_eq]
        obtain ⟨w4, e4, S4, a4⟩ := writeOutBuffer_acc w3 P3.acc
        rw [e4, andThen_ok_eq]
        have hI4 := writeOutBuffer_inv P3.inv
        rw [e4] at hI4
        obtain ⟨w5, e5, S5, a5⟩ := streamFlush_acc w4 a4
        rw [e5, andThen_ok_eq]
        have hI5 := streamFlush_inv hI4.1
        rw [e5] at hI5
        have he5 : w5.c.codec.outBuf = [] := by rw [S5.c]; exact hI4.2 rfl
        have hT' : ¬ T w := fun h => hT3 (hT2.mpr h)
        refine ⟨a5, Inv_setUnflushed_false hI5 he5, ?_, he5, fun h => absurd h hT',
          fun _ => ⟨rfl, ?_, rfl⟩⟩
        · show w5.c.additional = none
          rw [S5.c, S4.additional]; exact hn3
        · show w5.c.state = w.c.state
          rw [S5.c, S4.state, hs3, S2.state, hs1]
      · -- cannot overflow an empty buffer
        exfalso
        rw [hadd2] at hg
        cases hg
        have := hfit f hf g' (hgp.trans hp)
        rw [he2, hmax2] at hover3
        simp only [List.length_nil] at hover3
        omega
  · intro w1 e P1
    rcases P1.cases with ⟨h, hst, ho, hn, hT⟩ | ⟨_, h, _⟩ | ⟨_, _, _, h, _⟩
    · cases h
      exact ⟨P1.acc, P1.inv, hn, ho, fun _ => ⟨rfl, hst⟩, fun h => absurd hT h⟩
    · cases h
    · cases h
  · intro w1 s P1
    rcases P1.cases with ⟨h, _⟩ | ⟨_, h, _⟩ | ⟨_, _, _, h, _⟩ <;> cases h

/-! ### consequences -/

theorem closeReceived_cases {s : WsState} (h : s.closeReceived = true) :
    s.canRead = false ∧ s ≠ .terminated ∧ s.closing3 = true := by
  cases s with
  | closedByPeer => exact ⟨rfl, by simp, rfl⟩
  | closeAcknowledged => exact ⟨rfl, by simp, rfl⟩
  | active => cases h
  | closedByUs => cases h
  | terminated => cases h

/-- after the flush everything queued is on the wire -/
theorem FlPost.wire {w w' : World} {r : Res Unit} (h : FlPost w w' r) :
    w'.t.accepted = encodeAll w'.queued := by
  have := h.inv.fifo
  rw [h.outBuf, List.append_nil] at this
  exact this

/-- the frame that was pending has been queued, masked for the role -/
theorem flush_queues (w : World) (f : Frame) (hs : w.c.additional = some f)
    (hn : w.flush.1.c.additional = none) :
    ∃ f', Masked w.c.role f f' ∧ w.flush.1.queued = w.queued ++ [f'] := by
  rcases (flush_ws w).toSD.full f hs with ⟨f', _, s, _⟩ | ⟨f', m, _, q⟩
  · rw [hn] at s; cases s
  · exact ⟨f', m, q⟩

theorem andThen_err_snd {α β : Type} (x : World × Res α) (k : World → α → World × Res β) (e : Err)
    (h : x.2 = .err e) : (andThen x k).2 = .err e := by
  obtain ⟨w, r⟩ := x
  dsimp only at h
  subst h
  rfl

theorem andThen_err_fst {α β : Type} (x : World × Res α) (k : World → α → World × Res β) (e : Err)
    (h : x.2 = .err e) : (andThen x k).1 = x.1 := by
  obtain ⟨w, r⟩ := x
  dsimp only at h
  subst h
  rfl

/-- an error at the top of the `read` loop is the result of `read` -/
theorem read_of_readPre_err (w : World) (hnt : w.c.state ≠ .terminated) (e : Err)
    (h : w.readPre.2 = .err e) : w.read.2 = .err e ∧ w.read.1 = w.readPre.1 := by
  unfold World.read
  have hnt' : ¬ (!w.c.state.notTerminated) = true := by
    simp [notTerminated_iff.mpr hnt]
  rw [if_neg hnt']
  have hfuel : w.readFuel = (w.c.codec.inBuf.length + rdBytes w.t.rd + 1) + 1 := rfl
  rw [hfuel]
  unfold World.readLoop
  exact ⟨andThen_err_snd _ _ _ h, andThen_err_fst _ _ _ h⟩

/-- a server that can no longer read is told `ConnectionClosed` by `read` as soon as its `flush`
would be -/
theorem read_closed (w : World) (hnt : w.c.state ≠ .terminated) (hT : T w)
    (hfl : w.flush.2 = .err .connectionClosed) : w.read.2 = .err .connectionClosed := by
  refine (read_of_readPre_err w hnt _ ?_).1
  unfold World.readPre
  by_cases h1 : w.c.additional.isSome = true ∨ w.c.unflushed = true
  · rw [if_pos h1]
    generalize w.flush = x at hfl
    obtain ⟨w1, r⟩ := x
    dsimp only at hfl
    subst hfl
    rfl
  · rw [if_neg h1]
    have h2 : w.c.role = .server ∧ (!w.c.state.canRead) = true := ⟨hT.1, by rw [hT.2]; rfl⟩
    rw [if_pos h2]

end WsProofs.Progress
