import WsProofs.Lemmas.EndpointStep

/-! How the pending slot (`additional_send`) and the ghost queue evolve: the write side only ever
*drains* the slot (`SD`: the frame stays in the slot — possibly re-masked after a put-back — or
moves to `queued`), and nothing on the write side touches what the read side works on (`RSide`).
Used by C09, C13 and C07. -/
namespace WsProofs
open WsModel WsModel.Gen

/-! ### masking relations -/

/-- `f'` is `f` with the mask key set to `m` -/
def withMask (f : Frame) (m : Mask) : Frame := { f with header := { f.header with mask := some m } }

/-- the frame as `buffer_frame` hands it to the codec -/
def Masked (role : Role) (f f' : Frame) : Prop :=
  (role = .server ∧ f' = f) ∨ (role = .client ∧ ∃ m, f' = withMask f m)

/-- `f'` is `f`, or (client only) `f` with another mask key -/
def Remask (role : Role) (f f' : Frame) : Prop :=
  f' = f ∨ (role = .client ∧ ∃ m, f' = withMask f m)

theorem withMask_withMask (f : Frame) (m m' : Mask) : withMask (withMask f m) m' = withMask f m' := rfl

theorem Remask.refl (role : Role) (f : Frame) : Remask role f f := Or.inl rfl

theorem Remask.trans {role : Role} {a b c : Frame} (h1 : Remask role a b) (h2 : Remask role b c) :
    Remask role a c := by
  rcases h1 with rfl | ⟨hc, m, rfl⟩
  · exact h2
  · rcases h2 with rfl | ⟨_, m', rfl⟩
    · exact Or.inr ⟨hc, m, rfl⟩
    · exact Or.inr ⟨hc, m', rfl⟩

theorem Masked.remask {role : Role} {f f' : Frame} (h : Masked role f f') : Remask role f f' := by
  rcases h with ⟨_, rfl⟩ | ⟨hc, m, rfl⟩
  · exact Or.inl rfl
  · exact Or.inr ⟨hc, m, rfl⟩

theorem Remask.masked {role : Role} {a b c : Frame} (h1 : Remask role a b) (h2 : Masked role b c) :
    Masked role a c := by
  rcases h1 with rfl | ⟨hc, m, rfl⟩
  · exact h2
  · rcases h2 with ⟨hs, _⟩ | ⟨_, m', rfl⟩
    · rw [hc] at hs; cases hs
    · exact Or.inr ⟨hc, m', rfl⟩

theorem Remask.sameKind {role : Role} {f f' : Frame} (h : Remask role f f') : SameKind f f' := by
  rcases h with rfl | ⟨_, m, rfl⟩
  · exact ⟨rfl, rfl, rfl⟩
  · exact ⟨rfl, rfl, rfl⟩

theorem Remask.payload {role : Role} {f f' : Frame} (h : Remask role f f') : f'.payload = f.payload :=
  h.sameKind.1

theorem Remask.opcode {role : Role} {f f' : Frame} (h : Remask role f f') :
    f'.header.opcode = f.header.opcode := h.sameKind.2.1

theorem Remask.isClose {role : Role} {f f' : Frame} (h : Remask role f f') : f'.isClose = f.isClose :=
  h.sameKind.isClose

theorem Remask.isPong {role : Role} {f f' : Frame} (h : Remask role f f') : f'.isPong = f.isPong :=
  h.sameKind.isPong

theorem Remask.server {f f' : Frame} (h : Remask .server f f') : f' = f := by
  rcases h with rfl | ⟨hc, _⟩
  · rfl
  · cases hc

theorem maskStep_masked (w : World) (f : Frame) : Masked w.c.role f (maskStep w f).2 := by
  unfold maskStep
  cases hr : w.c.role with
  | server => exact Or.inl ⟨rfl, rfl⟩
  | client => exact Or.inr ⟨rfl, _, rfl⟩

/-! ### what the write side leaves alone -/

/-- the parts of the transport no write or flush touches -/
structure TSame (t t' : Transport) : Prop where
  rd : t'.rd = t.rd
  rdDef : t'.rdDef = t.rdDef
  wrDef : t'.wrDef = t.wrDef
  flDef : t'.flDef = t.flDef

theorem TSame.refl (t : Transport) : TSame t t := ⟨rfl, rfl, rfl, rfl⟩

theorem TSame.trans {a b c : Transport} (h1 : TSame a b) (h2 : TSame b c) : TSame a c :=
  ⟨h2.rd.trans h1.rd, h2.rdDef.trans h1.rdDef, h2.wrDef.trans h1.wrDef, h2.flDef.trans h1.flDef⟩

theorem Transport.writeEv_tsame (t : Transport) (buf : Bytes) (e : WrEv) :
    TSame t (t.writeEv buf e).1 := by
  cases e <;> exact ⟨rfl, rfl, rfl, rfl⟩

theorem Transport.write_tsame (t : Transport) (buf : Bytes) : TSame t (t.write buf).1 := by
  obtain ⟨rd, wr, fl, rdDef, wrDef, flDef, accepted, flushedUpTo, log, exhausted⟩ := t
  cases wr with
  | nil =>
    have h := Transport.writeEv_tsame
      { rd := rd, wr := [], fl := fl, rdDef := rdDef, wrDef := wrDef, flDef := flDef,
        accepted := accepted, flushedUpTo := flushedUpTo, log := log, exhausted := true } buf wrDef
    exact ⟨h.rd, h.rdDef, h.wrDef, h.flDef⟩
  | cons e rest =>
    have h := Transport.writeEv_tsame
      { rd := rd, wr := rest, fl := fl, rdDef := rdDef, wrDef := wrDef, flDef := flDef,
        accepted := accepted, flushedUpTo := flushedUpTo, log := log, exhausted := exhausted } buf e
    exact ⟨h.rd, h.rdDef, h.wrDef, h.flDef⟩

theorem Transport.flush_tsame (t : Transport) : TSame t (t.flush).1 := by
  obtain ⟨rd, wr, fl, rdDef, wrDef, flDef, accepted, flushedUpTo, log, exhausted⟩ := t
  cases fl with
  | nil => cases flDef <;> exact ⟨rfl, rfl, rfl, rfl⟩
  | cons e rest => cases e <;> exact ⟨rfl, rfl, rfl, rfl⟩

theorem Codec.writeLoop_tsame (fuel : Nat) (c : Codec) (t : Transport) :
    TSame t (Codec.writeLoop fuel c t).2.1 := by
  induction fuel generalizing c t with
  | zero =>
    simp only [Codec.writeLoop]
    by_cases hE : c.outBuf.isEmpty = true
    · rw [if_pos hE]; exact TSame.refl _
    · rw [if_neg hE]; exact TSame.refl _
  | succ fuel ih =>
    simp only [Codec.writeLoop]
    by_cases hE : c.outBuf.isEmpty = true
    · rw [if_pos hE]; exact TSame.refl _
    · rw [if_neg hE]
      have hw := Transport.write_tsame t c.outBuf
      generalize t.write c.outBuf = x at *
      obtain ⟨t1, r⟩ := x
      cases r with
      | err k => exact hw
      | ok n =>
        simp only []
        by_cases hn : n = 0
        · rw [if_pos hn]; exact hw
        · rw [if_neg hn]; exact TSame.trans hw (ih _ t1)

theorem Codec.bufferFrame_tsame (c : Codec) (t : Transport) (f : Frame) :
    TSame t (c.bufferFrame t f).2.1 := by
  unfold Codec.bufferFrame
  by_cases hfull : f.len + c.outBuf.length > c.maxOut
  · rw [if_pos hfull]; exact TSame.refl _
  · rw [if_neg hfull]
    simp only []
    by_cases hw : (f.formatIntoBuf c.outBuf).length > c.writeLen
    · rw [if_pos hw]; exact Codec.writeLoop_tsame _ _ _
    · rw [if_neg hw]; exact TSame.refl _

/-- what the read side works on, untouched by every write-side function -/
structure RSide (w w' : World) : Prop where
  cfg : w'.c.cfg = w.c.cfg
  incomplete : w'.c.incomplete = w.c.incomplete
  inBuf : w'.c.codec.inBuf = w.c.codec.inBuf
  header : w'.c.codec.header = w.c.codec.header
  t : TSame w.t w'.t

theorem RSide.refl (w : World) : RSide w w := ⟨rfl, rfl, rfl, rfl, TSame.refl _⟩

theorem RSide.trans {a b c : World} (h1 : RSide a b) (h2 : RSide b c) : RSide a c :=
  ⟨h2.cfg.trans h1.cfg, h2.incomplete.trans h1.incomplete, h2.inBuf.trans h1.inBuf,
    h2.header.trans h1.header, TSame.trans h1.t h2.t⟩

/-! ### slot draining -/

/-- the slot is only drained: its frame stays (possibly re-masked after a put-back) or moves to
the queue, masked for the role; nothing else is queued and an empty slot stays empty -/
structure SD (w w' : World) : Prop where
  role : w'.c.role = w.c.role
  empty : w.c.additional = none → w'.c.additional = none ∧ w'.queued = w.queued
  full : ∀ f, w.c.additional = some f →
    (∃ f', Remask w.c.role f f' ∧ w'.c.additional = some f' ∧ w'.queued = w.queued) ∨
    (∃ f', Masked w.c.role f f' ∧ w'.c.additional = none ∧ w'.queued = w.queued ++ [f'])

theorem SD.of_same {w w' : World} (hr : w'.c.role = w.c.role)
    (ha : w'.c.additional = w.c.additional) (hq : w'.queued = w.queued) : SD w w' :=
  ⟨hr, fun h => ⟨ha.trans h, hq⟩, fun f h => Or.inl ⟨f, Remask.refl _ _, ha.trans h, hq⟩⟩

theorem SD.refl (w : World) : SD w w := SD.of_same rfl rfl rfl

theorem SD.trans {a b c : World} (h1 : SD a b) (h2 : SD b c) : SD a c := by
  refine ⟨h2.role.trans h1.role, ?_, ?_⟩
  · intro h
    obtain ⟨n1, q1⟩ := h1.empty h
    obtain ⟨n2, q2⟩ := h2.empty n1
    exact ⟨n2, q2.trans q1⟩
  · intro f hf
    rcases h1.full f hf with ⟨f1, r1, s1, q1⟩ | ⟨f1, m1, s1, q1⟩
    · rcases h2.full f1 s1 with ⟨f2, r2, s2, q2⟩ | ⟨f2, m2, s2, q2⟩
      · rw [h1.role] at r2
        exact Or.inl ⟨f2, r1.trans r2, s2, q2.trans q1⟩
      · rw [h1.role] at m2
        exact Or.inr ⟨f2, r1.masked m2, s2, by rw [q2, q1]⟩
    · obtain ⟨n2, q2⟩ := h2.empty s1
      exact Or.inr ⟨f1, m1, n2, q2.trans q1⟩

/-- the queue only grows under slot draining -/
theorem SD.grow {w w' : World} (h : SD w w') : ∃ l, w'.queued = w.queued ++ l := by
  cases ha : w.c.additional with
  | none => exact ⟨[], by rw [(h.empty ha).2]; simp⟩
  | some f =>
    rcases h.full f ha with ⟨_, _, _, q⟩ | ⟨f', _, _, q⟩
    · exact ⟨[], by rw [q]; simp⟩
    · exact ⟨[f'], q⟩

/-- write-side specification: slot draining, read side untouched -/
structure WS (w w' : World) : Prop extends SD w w' where
  rside : RSide w w'

theorem WS.refl (w : World) : WS w w := ⟨SD.refl w, RSide.refl w⟩

theorem WS.trans {a b c : World} (h1 : WS a b) (h2 : WS b c) : WS a c :=
  ⟨SD.trans h1.toSD h2.toSD, RSide.trans h1.rside h2.rside⟩

theorem WS.of_same {w w' : World} (hr : w'.c.role = w.c.role)
    (ha : w'.c.additional = w.c.additional) (hq : w'.queued = w.queued) (hs : RSide w w') : WS w w' :=
  ⟨SD.of_same hr ha hq, hs⟩

theorem andThen_WS {α β : Type} {w0 : World} (x : World × Res α) (k : World → α → World × Res β)
    (hx : WS w0 x.1) (hk : ∀ w a, x = (w, .ok a) → WS w (k w a).1) : WS w0 (andThen x k).1 := by
  rcases x with ⟨w, a | e | s⟩
  · exact WS.trans hx (hk w a rfl)
  · exact hx
  · exact hx

/-! ### `bufferFrame`, precisely -/

/-- `World.bufferFrame`: the frame is masked for the role and either handed back or queued -/
structure BQ (w : World) (f : Frame) (w' : World) (r : Res Unit) : Prop where
  role : w'.c.role = w.c.role
  additional : w'.c.additional = w.c.additional
  rside : RSide w w'
  queue : ∃ f', Masked w.c.role f f' ∧
    ((r = .err (.writeBufferFull f') ∧ w'.queued = w.queued) ∨
     ((∀ g, r ≠ .err (.writeBufferFull g)) ∧ w'.queued = w.queued ++ [f']))

theorem World.bufferFrame_bq (w : World) (f : Frame) :
    BQ w f (w.bufferFrame f).1 (w.bufferFrame f).2 := by
  rw [bufferFrame_eq]
  obtain ⟨hpc, hpt, hpq, _⟩ := maskStep_spec w f
  have hm := maskStep_masked w f
  generalize maskStep w f = p at *
  obtain ⟨w0, f'⟩ := p
  simp only [] at hpc hpt hpq hm ⊢
  have hcb := Codec.bufferFrame_spec w0.c.codec w0.t f'
  have hts := Codec.bufferFrame_tsame w0.c.codec w0.t f'
  generalize w0.c.codec.bufferFrame w0.t f' = q at *
  obtain ⟨c1, t1, r⟩ := q
  simp only [] at hcb hts ⊢
  rw [hpc] at hcb
  rw [hpt] at hts
  have hrs : ∀ (w2 : World), w2.c.cfg = w0.c.cfg → w2.c.incomplete = w0.c.incomplete →
      w2.c.codec = c1 → w2.t = t1 → RSide w w2 := by
    intro w2 h1 h2 h3 h4
    refine ⟨by rw [h1, hpc], by rw [h2, hpc], by rw [h3]; exact hcb.inBuf,
      by rw [h3]; exact hcb.header, by rw [h4]; exact hts⟩
  rcases hcb.cases with ⟨hr, _, _⟩ | ⟨hk, _, _⟩
  · subst hr
    simp only [Res.isWriteBufferFull, if_true]
    rcases checkConnectionReset_cases (w0.setCodec c1 t1) (.err (.writeBufferFull f') : Res Unit)
        (by intro h; cases h)
      with ⟨he, _⟩ | ⟨_, h, _⟩
    · rw [he]
      exact ⟨by simp only [World.setCodec, hpc], by simp only [World.setCodec, hpc],
        hrs _ rfl rfl rfl rfl, f', hm, Or.inl ⟨rfl, hpq⟩⟩
    · cases h
  · have hnw : r.isWriteBufferFull = false := by
      rcases hk with rfl | ⟨k, rfl⟩ <;> rfl
    have hnw' : ∀ g, r ≠ .err (.writeBufferFull g) := by
      intro g hg; rw [hg] at hnw; cases hnw
    simp only [hnw, Bool.false_eq_true, if_false]
    rcases checkConnectionReset_cases
        ({ w0.setCodec c1 t1 with queued := w0.queued ++ [f'] } : World) r
        (by rcases hk with rfl | ⟨k, rfl⟩ <;> (intro h; cases h))
      with ⟨he, _⟩ | ⟨he, hr, _⟩
    · rw [he]
      exact ⟨by simp only [World.setCodec, hpc], by simp only [World.setCodec, hpc],
        hrs _ rfl rfl rfl rfl, f', hm, Or.inr ⟨hnw', by simp only [hpq]⟩⟩
    · rw [he]
      exact ⟨by simp only [World.setCodec, World.setState, hpc],
        by simp only [World.setCodec, World.setState, hpc],
        hrs _ rfl rfl rfl rfl, f', hm,
        Or.inr ⟨by simp, by simp only [World.setCodec, World.setState, hpq]⟩⟩

/-! ### the write side drains the slot -/

theorem RSide.of_fields {w w1 w2 : World} (h : RSide w w1) (h1 : w2.c.cfg = w1.c.cfg)
    (h2 : w2.c.incomplete = w1.c.incomplete) (h3 : w2.c.codec = w1.c.codec) (h4 : w2.t = w1.t) :
    RSide w w2 :=
  ⟨h1.trans h.cfg, h2.trans h.incomplete, by rw [h3]; exact h.inBuf, by rw [h3]; exact h.header,
    by rw [h4]; exact h.t⟩

theorem World.writeOutBuffer_ws (w : World) : WS w w.writeOutBuffer.1 := by
  have S := World.writeOutBuffer_spec w
  have ht : TSame w.t w.writeOutBuffer.1.t := by
    unfold World.writeOutBuffer Codec.writeOutBuffer
    have h := Codec.writeLoop_tsame w.c.codec.outBuf.length w.c.codec w.t
    generalize Codec.writeLoop w.c.codec.outBuf.length w.c.codec w.t = q at *
    obtain ⟨c1, t1, r⟩ := q
    exact h
  exact WS.of_same S.role S.additional S.queued
    ⟨S.cfg, S.incomplete, S.codec.inBuf, S.codec.header, ht⟩

theorem World.streamFlush_ws (w : World) : WS w w.streamFlush.1 := by
  have S := World.streamFlush_spec w
  have ht : TSame w.t w.streamFlush.1.t := by
    unfold World.streamFlush
    have h := Transport.flush_tsame w.t
    generalize w.t.flush = q at *
    obtain ⟨t1, e⟩ := q
    cases e <;> exact h
  exact WS.of_same (by rw [S.c]) (by rw [S.c]) S.queued
    ⟨by rw [S.c], by rw [S.c], by rw [S.c], by rw [S.c], ht⟩

theorem writeSlot_ws (w : World) : WS w w.writeSlot.1 := by
  unfold World.writeSlot
  cases ha : w.c.additional with
  | none => exact WS.refl w
  | some msg =>
    simp only []
    have S := World.bufferFrame_bq (w.setAdditionalRaw none) msg
    generalize (w.setAdditionalRaw none).bufferFrame msg = x at *
    obtain ⟨w1, r⟩ := x
    simp only [] at S
    obtain ⟨f', hm, hcase⟩ := S.queue
    have hm' : Masked w.c.role msg f' := hm
    have hadd : w1.c.additional = none := S.additional
    have hrole : w1.c.role = w.c.role := S.role
    have hrs : RSide w w1 :=
      ⟨S.rside.cfg, S.rside.incomplete, S.rside.inBuf, S.rside.header, S.rside.t⟩
    rcases hcase with ⟨hr, hqq⟩ | ⟨hnw, hqq⟩
    · subst hr
      simp only []
      have he : w1.setAdditional f' = w1.setAdditionalRaw (some f') := by
        unfold World.setAdditional; rw [hadd]
      rw [he]
      refine ⟨⟨hrole, ?_, ?_⟩, RSide.of_fields hrs rfl rfl rfl rfl⟩
      · intro hn; rw [ha] at hn; cases hn
      · intro f hf
        rw [ha] at hf
        cases hf
        exact Or.inl ⟨f', hm'.remask, rfl, hqq⟩
    · have key : ∀ w2 : World, w2.c.role = w1.c.role → w2.c.additional = w1.c.additional →
          w2.queued = w1.queued → w2.c.cfg = w1.c.cfg → w2.c.incomplete = w1.c.incomplete →
          w2.c.codec = w1.c.codec → w2.t = w1.t → WS w w2 := by
        intro w2 h1 h2 h3 h4 h5 h6 h7
        refine ⟨⟨h1.trans hrole, ?_, ?_⟩, RSide.of_fields hrs h4 h5 h6 h7⟩
        · intro hn; rw [ha] at hn; cases hn
        · intro f hf
          rw [ha] at hf
          cases hf
          exact Or.inr ⟨f', hm', h2.trans hadd, h3.trans hqq⟩
      cases r with
      | ok u => cases u; exact key _ rfl rfl rfl rfl rfl rfl rfl
      | panic s => exact key _ rfl rfl rfl rfl rfl rfl rfl
      | err e =>
        cases e with
        | writeBufferFull g => exact absurd rfl (hnw g)
        | connectionClosed => exact key _ rfl rfl rfl rfl rfl rfl rfl
        | alreadyClosed => exact key _ rfl rfl rfl rfl rfl rfl rfl
        | io k => exact key _ rfl rfl rfl rfl rfl rfl rfl
        | capacity a b => exact key _ rfl rfl rfl rfl rfl rfl rfl
        | protocol q => exact key _ rfl rfl rfl rfl rfl rfl rfl
        | utf8 => exact key _ rfl rfl rfl rfl rfl rfl rfl

theorem WS.setter {w w' : World} (hr : w'.c.role = w.c.role)
    (ha : w'.c.additional = w.c.additional) (hq : w'.queued = w.queued)
    (h1 : w'.c.cfg = w.c.cfg) (h2 : w'.c.incomplete = w.c.incomplete)
    (h3 : w'.c.codec = w.c.codec) (h4 : w'.t = w.t) : WS w w' :=
  WS.of_same hr ha hq (RSide.of_fields (RSide.refl w) h1 h2 h3 h4)

theorem writeTail_ws (w : World) (sf : Bool) : WS w (w.writeTail sf).1 := by
  unfold World.writeTail
  by_cases hc : w.c.role = .server ∧ (!w.c.state.canRead) = true ∧ w.c.additional.isNone = true
  · rw [if_pos hc]
    apply andThen_WS
    · exact World.writeOutBuffer_ws w
    · intro w1 _ _
      exact WS.setter rfl rfl rfl rfl rfl rfl rfl
  · rw [if_neg hc]
    exact WS.refl w

theorem slotTail_ws (w : World) : WS w (slotTail w).1 := by
  unfold slotTail
  apply andThen_WS
  · exact writeSlot_ws w
  · intro w1 sf _
    exact writeTail_ws w1 sf

theorem flushRetry_ws (w : World) : WS w w.flushRetry.1 := by
  unfold World.flushRetry
  by_cases hc : w.c.additional.isSome = true
  · rw [if_pos hc, writeInternal_none_eq]
    apply andThen_WS
    · exact slotTail_ws w
    · intro w1 _ _
      exact World.writeOutBuffer_ws w1
  · rw [if_neg hc]
    exact WS.refl w

theorem flush_ws (w : World) : WS w w.flush.1 := by
  unfold World.flush
  by_cases hc : (!w.c.state.notTerminated) = true
  · rw [if_pos hc]; exact WS.refl w
  · rw [if_neg hc, writeInternal_none_eq]
    apply andThen_WS
    · exact slotTail_ws w
    · intro w1 _ _
      apply andThen_WS
      · exact World.writeOutBuffer_ws w1
      · intro w2 _ _
        apply andThen_WS
        · exact flushRetry_ws w2
        · intro w3 _ _
          apply andThen_WS
          · exact World.streamFlush_ws w3
          · intro w4 _ _
            exact WS.setter rfl rfl rfl rfl rfl rfl rfl

theorem readPre_ws (w : World) : WS w w.readPre.1 := by
  unfold World.readPre
  by_cases h1 : w.c.additional.isSome = true ∨ w.c.unflushed = true
  · rw [if_pos h1]
    have hf := flush_ws w
    generalize w.flush = x at *
    obtain ⟨w1, r⟩ := x
    have hu : WS w (w1.setUnflushed true) :=
      WS.trans hf (WS.setter rfl rfl rfl rfl rfl rfl rfl)
    cases r with
    | ok u => cases u; exact hf
    | panic s => exact hf
    | err e =>
      cases e with
      | io k => cases k <;> first | exact hu | exact hf
      | connectionClosed => exact hf
      | alreadyClosed => exact hf
      | capacity a b => exact hf
      | protocol p => exact hf
      | writeBufferFull f => exact hf
      | utf8 => exact hf
  · rw [if_neg h1]
    by_cases h2 : w.c.role = .server ∧ (!w.c.state.canRead) = true
    · rw [if_pos h2]; exact WS.setter rfl rfl rfl rfl rfl rfl rfl
    · rw [if_neg h2]; exact WS.refl w

/-! ### `close`, `writeData`, `write` -/

theorem close_ws_active (w : World) (c : Option CloseFrame) (hs : w.c.state = .active) :
    WS ((w.setState .closedByUs).setAdditionalRaw (some (Frame.close c))) (w.close c).1 := by
  unfold World.close
  rw [if_pos hs]
  exact flush_ws _

theorem close_ws_other (w : World) (c : Option CloseFrame) (hs : w.c.state ≠ .active) :
    WS w (w.close c).1 := by
  unfold World.close
  rw [if_neg hs]
  exact flush_ws _

theorem writeData_ws (w : World) (f : Frame) : WS (w.bufferFrame f).1 (w.writeData f).1 := by
  unfold World.writeData
  rw [writeInternal_some_eq]
  generalize w.bufferFrame f = x
  obtain ⟨w1, r1⟩ := x
  cases r1 with
  | err e => exact WS.refl w1
  | panic s => exact WS.refl w1
  | ok u =>
    show WS w1 (andThen (slotTail w1) fun w shouldFlush =>
        if shouldFlush = true then w.flush else (w, Res.ok ())).1
    apply andThen_WS
    · exact slotTail_ws w1
    · intro w2 sf _
      cases sf with
      | true => exact flush_ws w2
      | false => exact WS.refl w2

end WsProofs
