import WsProofs.Lemmas.PairLive4

/-! Two-party liveness, layer 5: the turns of the fair driver on a `Pair`. -/
namespace WsProofs.Pair
open WsModel WsModel.Gen WsModel.Spec WsProofs WsProofs.Read WsProofs.Pipe WsProofs.Progress

theorem HP.run_aD : ∀ (as : List Action) (h : HP), h.aD = true → (h.run as).1.aD = true := by
  intro as
  induction as with
  | nil => intro h hd; exact hd
  | cons a as ih =>
    intro h hd
    apply ih
    show (h.aD || _) = true
    rw [hd]; rfl

theorem HP.run_tr : ∀ (as : List Action) (h : HP),
    Tr h.A.c.state (h.run as).1.A.c.state = true := by
  intro as
  induction as with
  | nil => intro h; exact Tr.refl _
  | cons a as ih =>
    intro h
    have h1 : Tr h.A.c.state (h.step a).1.A.c.state = true :=
      step_tr (actIn h.A h.pin h.oD a) a.op
    exact Tr.trans h1 (ih (h.step a).1)

/-- frames still to be read plus control frames waiting in the two slots -/
def psi (h : HP) (nIn nOut : Nat) : Nat :=
  (h.O.queued.length - nIn) + (h.A.queued.length - nOut) + slotN h.A + slotN h.O

theorem psi_swap (h : HP) (nIn nOut : Nat) : psi h.swap nOut nIn = psi h nIn nOut := by
  unfold psi HP.swap
  dsimp only
  omega

theorem Multi.psi_le {rA rO : Role} {h h' : HP} {nIn nOut nIn' : Nat} {outs : List Out}
    (j : JH rA rO h nIn nOut) (M : Multi rA rO h nIn nOut h' nIn' outs) :
    psi h' nIn' nOut ≤ psi h nIn nOut := by
  unfold psi
  rw [M.O_eq]
  have h1 := M.cnt
  have h2 := M.mono
  have h3 := M.j.lin
  rw [M.O_eq] at h3
  have h4 := j.lout
  have h5 := M.j.lout
  omega

/-- one side's turn: nothing if it has dropped its transport -/
def hturn (h : HP) (who : Side) (reads : Nat) : HP × List Out :=
  if h.aD then (h, []) else h.run (turn who reads)

theorem hp_turn {rA rO : Role} {h : HP} {nIn nOut : Nat} (j : JH rA rO h nIn nOut)
    (hcl : h.aD = false → True) (who : Side) (reads : Nat)
    (hr : (h.O.queued.length - nIn) + 2 ≤ reads) :
    ∃ nIn', Multi rA rO h nIn nOut (hturn h who reads).1 nIn' (hturn h who reads).2 ∧
      (h.aD = false → Fin (hturn h who reads).1) ∧
      (h.aD = true → (hturn h who reads).1.aD = true) := by
  have _ := hcl
  by_cases hd : h.aD = true
  · have e : hturn h who reads = (h, []) := by unfold hturn; rw [if_pos hd]
    rw [e]
    refine ⟨nIn, ?_, (fun hx => by rw [hd] at hx; cases hx), fun _ => hd⟩
    exact ⟨j, rfl, rfl, Nat.le_refl _, Nat.le_refl _, (fun hx => by rw [hd] at hx; cases hx),
      (fun o ho => by cases ho), fun hx => Or.inl hx⟩
  · have hd' : h.aD = false := by simpa using hd
    have e : hturn h who reads = h.run (turn who reads) := by unfold hturn; rw [if_neg hd]
    rw [e]
    obtain ⟨n', M, hF⟩ := drive_turn j hd' who reads hr
    exact ⟨n', M, fun _ => hF, fun hx => absurd hx hd⟩

/-! ### on a pair -/

theorem run_viewC : ∀ (as : List Action) (p : Pair), (∀ a ∈ as, a.who = .c) →
    p.run as = (ofC ((viewC p).run as).1, ((viewC p).run as).2.map (Prod.mk Side.c)) := by
  intro as
  induction as with
  | nil => intro p _; rfl
  | cons a as ih =>
    intro p hall
    have hw := hall a (List.mem_cons_self ..)
    have hrun : p.run (a :: as) =
        (((p.step a).1.run as).1, (a.who, (p.step a).2) :: ((p.step a).1.run as).2) := rfl
    rw [hrun, step_viewC p a hw, hw]
    dsimp only
    rw [ih _ (fun b hb => hall b (List.mem_cons_of_mem _ hb))]
    rfl

theorem run_viewS : ∀ (as : List Action) (p : Pair), (∀ a ∈ as, a.who = .s) →
    p.run as = (ofS ((viewS p).run as).1, ((viewS p).run as).2.map (Prod.mk Side.s)) := by
  intro as
  induction as with
  | nil => intro p _; rfl
  | cons a as ih =>
    intro p hall
    have hw := hall a (List.mem_cons_self ..)
    have hrun : p.run (a :: as) =
        (((p.step a).1.run as).1, (a.who, (p.step a).2) :: ((p.step a).1.run as).2) := rfl
    rw [hrun, step_viewS p a hw, hw]
    dsimp only
    rw [ih _ (fun b hb => hall b (List.mem_cons_of_mem _ hb))]
    rfl

theorem turn_who (who : Side) (reads : Nat) : ∀ a ∈ turn who reads, a.who = who := by
  intro a ha
  rcases List.mem_cons.mp ha with rfl | ha
  · rfl
  · rw [List.eq_of_mem_replicate ha]; rfl

theorem driveSide_c (p : Pair) (reads : Nat) :
    p.driveSide .c reads =
      (ofC (hturn (viewC p) .c reads).1, (hturn (viewC p) .c reads).2.map (Prod.mk Side.c)) := by
  unfold Pair.driveSide hturn
  show (if p.cDropped = true then (p, []) else p.run (turn .c reads)) = _
  cases hd : p.cDropped with
  | true =>
    have : (viewC p).aD = true := hd
    rw [this]
    rfl
  | false =>
    have : (viewC p).aD = false := hd
    rw [this]
    simp only [Bool.false_eq_true, if_false]
    exact run_viewC _ p (turn_who .c reads)

theorem driveSide_s (p : Pair) (reads : Nat) :
    p.driveSide .s reads =
      (ofS (hturn (viewS p) .s reads).1, (hturn (viewS p) .s reads).2.map (Prod.mk Side.s)) := by
  unfold Pair.driveSide hturn
  show (if p.sDropped = true then (p, []) else p.run (turn .s reads)) = _
  cases hd : p.sDropped with
  | true =>
    have : (viewS p).aD = true := hd
    rw [this]
    rfl
  | false =>
    have : (viewS p).aD = false := hd
    rw [this]
    simp only [Bool.false_eq_true, if_false]
    exact run_viewS _ p (turn_who .s reads)

/-- the potential of a pair -/
def Psi (p : Pair) (nc ns : Nat) : Nat := psi (viewC p) nc ns

theorem Psi_s (p : Pair) (nc ns : Nat) : psi (viewS p) ns nc = Psi p nc ns := psi_swap (viewC p) nc ns

end WsProofs.Pair
