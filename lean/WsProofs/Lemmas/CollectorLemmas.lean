import WsModel.Collect
import WsProofs.Lemmas.Utf8Lemmas

/-! `StringCollector`: the invariant carried across fragments and what `extend` does to it. -/
namespace WsProofs.Collector
open WsModel WsModel.Spec WsProofs.Utf8

theorem step_ne_nil {bs : Bytes} (h : utf8Step bs = .incomplete) : bs ≠ [] := by
  intro h0; subst h0; simp [utf8Step] at h

/-- a prefix that the loop already accepted a sequence from cannot be `incomplete` -/
theorem wf_prefix_not_incomplete {p x : Bytes} (hp : WellFormed p) (hne : p ≠ []) :
    utf8Step (p ++ x) ≠ .incomplete := by
  obtain ⟨n, hn⟩ := wf_step hp
  obtain ⟨_, hseq⟩ := step_ok_seq hne hn
  have := seq_step hseq (p.drop n ++ x)
  rw [← List.append_assoc, List.take_append_drop] at this
  rw [this]; intro h; cases h

theorem tryComplete_spec {buf : Bytes} (hb : utf8Step buf = .incomplete) (tail : Bytes) :
    (utf8TryComplete buf tail = .still (buf ++ tail) ∧ utf8Step (buf ++ tail) = .incomplete) ∨
    (∃ bytes consumed, utf8TryComplete buf tail = .done true bytes consumed ∧
        WellFormed bytes ∧ bytes ++ tail.drop consumed = buf ++ tail) ∨
    (∃ bytes consumed, utf8TryComplete buf tail = .done false bytes consumed ∧
        ∀ more, ¬ WellFormed (buf ++ tail ++ more)) := by
  obtain ⟨hb1, hb3, _⟩ := step_incomplete hb
  generalize hc : min (4 - buf.length) tail.length = c
  generalize hunf : utf8TryComplete buf tail = res
  simp only [utf8TryComplete, hc] at hunf
  have hsplit : buf ++ tail = (buf ++ tail.take c) ++ tail.drop c := by
    rw [List.append_assoc, List.take_append_drop]
  have hslen : (buf ++ tail.take c).length = buf.length + c := by
    rw [List.length_append, List.length_take]; omega
  cases hv : utf8Validate (buf ++ tail.take c) with
  | ok =>
    right; left
    simp only [hv] at hunf
    exact ⟨_, c, hunf.symm, (validate_ok_iff _).mp hv, hsplit.symm⟩
  | err v el =>
    simp only [hv] at hunf
    obtain ⟨hvle, hwf, hstep⟩ := validate_err_spec hv
    rw [hslen] at hvle
    by_cases hv0 : v > 0
    · have hvb : ¬ v < buf.length := by
        intro hlt
        have hle : v ≤ buf.length := by omega
        rw [List.take_append_of_le_length hle] at hwf
        have hne : buf.take v ≠ [] := by
          intro h0
          have := congrArg List.length h0
          rw [List.length_take, List.length_nil] at this; omega
        have := wf_prefix_not_incomplete (x := buf.drop v) hwf hne
        rw [List.take_append_drop] at this
        exact this hb
      right; left
      simp only [hv0, hvb, if_true, if_false] at hunf
      refine ⟨_, _, hunf.symm, hwf, ?_⟩
      rw [List.take_append, List.take_of_length_le (by omega), List.take_take,
        Nat.min_eq_left (by omega), List.append_assoc, List.take_append_drop]
    · have hv0' : v = 0 := by omega
      subst hv0'
      simp only [Nat.lt_irrefl, gt_iff_lt, if_false] at hunf
      rw [List.drop_zero] at hstep
      cases el with
      | none =>
        left
        simp only [stepOfEl] at hstep
        have hl := (step_incomplete hstep).2.1
        rw [hslen] at hl
        have hct : tail.take c = tail := List.take_of_length_le (by omega)
        rw [hct] at hunf hstep
        exact ⟨hunf.symm, hstep⟩
      | some k =>
        right; right
        simp only [stepOfEl] at hstep
        have hkb : ¬ k < buf.length := by
          intro hlt
          have := (step_invalid_local hstep).2.2.2 (buf.drop (k + 1))
          have hle : k + 1 ≤ buf.length := by omega
          rw [List.take_append_of_le_length hle, List.take_append_drop, hb] at this
          cases this
        simp only [hkb, if_false] at hunf
        refine ⟨_, _, hunf.symm, ?_⟩
        intro more
        rw [hsplit, List.append_assoc]
        exact not_wf_of_step_invalid hstep _


/-- what the collector holds after consuming the bytes `seen` without error -/
def Inv (s : Collector) (seen : Bytes) : Prop :=
  WellFormed s.data ∧
  match s.incomplete with
  | none => s.data = seen
  | some buf => s.data ++ buf = seen ∧ utf8Step buf = .incomplete

theorem inv_init : Inv {} [] := ⟨.nil, rfl⟩

/-- outcome of one collector operation that has consumed `seen'` in total -/
def Outcome (r : Collector × Res Unit) (seen' : Bytes) : Prop :=
  (r.2 = .ok () ∧ Inv r.1 seen') ∨ (r.2 = .err .utf8 ∧ ∀ more, ¬ WellFormed (seen' ++ more))

theorem decodeRest_spec {s : Collector} (hd : WellFormed s.data) (hi : s.incomplete = none)
    (x : Bytes) : Outcome (s.decodeRest x) (s.data ++ x) := by
  unfold Collector.decodeRest
  by_cases hx : x.isEmpty = true
  · have : x = [] := List.isEmpty_iff.mp hx
    subst this
    simp only [List.isEmpty_nil, if_true]
    left
    refine ⟨rfl, ?_⟩
    simp only [Inv, hi, List.append_nil]
    exact ⟨hd, trivial⟩
  · simp only [hx, Bool.false_eq_true, if_false, utf8Decode]
    cases hv : utf8Validate x with
    | ok =>
      left
      refine ⟨rfl, ?_⟩
      simp only [Inv, hi]
      exact ⟨wf_append hd ((validate_ok_iff x).mp hv), trivial⟩
    | err v el =>
      obtain ⟨hvle, hwf, hstep⟩ := validate_err_spec hv
      cases el with
      | none =>
        left
        refine ⟨rfl, ?_⟩
        simp only [Inv]
        refine ⟨wf_append hd hwf, ?_, hstep⟩
        rw [List.append_assoc, List.take_append_drop]
      | some k =>
        right
        refine ⟨rfl, ?_⟩
        intro more hw
        have hx2 : x = x.take v ++ x.drop v := (List.take_append_drop v x).symm
        rw [hx2, List.append_assoc, List.append_assoc] at hw
        have := wf_cancel hwf (wf_cancel hd hw)
        exact not_wf_of_step_invalid hstep more this

theorem extend_spec {s : Collector} {seen : Bytes} (h : Inv s seen) (f : Bytes) :
    Outcome (s.extend f) (seen ++ f) := by
  obtain ⟨hd, hi⟩ := h
  unfold Collector.extend
  cases hinc : s.incomplete with
  | none =>
    simp only [hinc] at hi ⊢
    rw [← hi]
    exact decodeRest_spec hd hinc f
  | some buf =>
    simp only [hinc] at hi ⊢
    obtain ⟨hseen, hbuf⟩ := hi
    subst hseen
    rcases tryComplete_spec hbuf f with ⟨h1, h2⟩ | ⟨bytes, consumed, h1, h2, h3⟩ |
      ⟨bytes, consumed, h1, h2⟩
    · simp only [h1]
      left
      refine ⟨rfl, ?_⟩
      simp only [Inv]
      exact ⟨hd, by rw [List.append_assoc], h2⟩
    · simp only [h1]
      have := decodeRest_spec (s := { s with data := s.data ++ bytes, incomplete := none })
        (wf_append hd h2) rfl (f.drop consumed)
      simp only [List.append_assoc, h3] at this
      rw [List.append_assoc]
      exact this
    · simp only [h1]
      right
      refine ⟨rfl, ?_⟩
      intro more hw
      rw [List.append_assoc, List.append_assoc, ← List.append_assoc buf] at hw
      exact h2 more (wf_cancel hd hw)

/-- feed the fragments of one message (same recursion as `C08.extendAll`) -/
def feedAll (s : Collector) : List Bytes → Collector × Res Unit
  | [] => (s, .ok ())
  | f :: fs =>
    match s.extend f with
    | (s', .ok ()) => feedAll s' fs
    | (s', r) => (s', r)

theorem feedAll_spec {s : Collector} {seen : Bytes} (h : Inv s seen) (frags : List Bytes) :
    ((feedAll s frags).2 = .ok () ∧ Inv (feedAll s frags).1 (seen ++ frags.flatten)) ∨
    ((feedAll s frags).2 = .err .utf8 ∧ ¬ WellFormed (seen ++ frags.flatten)) := by
  induction frags generalizing s seen with
  | nil => left; simpa [feedAll] using h
  | cons f fs ih =>
    rcases extend_spec h f with ⟨h1, h2⟩ | ⟨h1, h2⟩
    · cases hr : s.extend f with
      | mk s' r =>
        rw [hr] at h1 h2
        simp only at h1 h2
        subst h1
        simp only [feedAll, hr, List.flatten_cons, ← List.append_assoc]
        exact ih h2
    · cases hr : s.extend f with
      | mk s' r =>
        rw [hr] at h1
        simp only at h1
        subst h1
        right
        simp only [feedAll, hr, List.flatten_cons, ← List.append_assoc]
        exact ⟨trivial, h2 _⟩

/-- what `read` delivers (same as `C08.collectText`) -/
def feedText (frags : List Bytes) : Res Bytes :=
  match feedAll {} frags with
  | (s, .ok ()) => s.intoString
  | (_, .err e) => .err e
  | (_, .panic p) => .panic p

theorem feedText_spec (frags : List Bytes) :
    (feedText frags = .ok frags.flatten ∧ WellFormed frags.flatten) ∨
    (feedText frags = .err .utf8 ∧ ¬ WellFormed frags.flatten) := by
  have := feedAll_spec inv_init frags
  rw [List.nil_append] at this
  unfold feedText
  cases hr : feedAll {} frags with
  | mk s r =>
    rw [hr] at this
    simp only at this
    rcases this with ⟨h1, hd, hi⟩ | ⟨h1, h2⟩
    · subst h1
      simp only [Collector.intoString]
      cases hinc : s.incomplete with
      | none =>
        rw [hinc] at hi
        simp only at hi
        left
        exact ⟨by rw [hi], hi ▸ hd⟩
      | some buf =>
        rw [hinc] at hi
        simp only at hi
        right
        refine ⟨rfl, ?_⟩
        rw [← hi.1]
        intro hw
        exact not_wf_of_step_incomplete hi.2 (wf_cancel hd hw)
    · subst h1
      right
      exact ⟨rfl, h2⟩

end WsProofs.Collector
