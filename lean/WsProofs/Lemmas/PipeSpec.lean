import WsProofs.Props.C05
import WsProofs.Props.C08
import WsProofs.Props.C19

/-! The one-shot RFC decoder applied to the wire image of frames a correct endpoint may queue:
one frame at a time (`shot_format`, `afterFrame_legit`), every prefix of the image (`dec_legit`). -/
namespace WsProofs.Pipe
open WsModel WsModel.Gen WsModel.Spec WsProofs.Read WsProofs.C18

/-- the role at the other end of the connection -/
def peerOf : Role → Role
  | .server => .client
  | .client => .server

/-- the payload as it appears on the wire -/
def wirePayload (f : Frame) : Bytes :=
  match f.header.mask with
  | some m => applyMask m f.payload
  | none => f.payload

theorem format_eq (f : Frame) :
    f.format = f.header.format f.payload.length ++ wirePayload f := rfl

theorem wirePayload_length (f : Frame) : (wirePayload f).length = f.payload.length := by
  unfold wirePayload
  cases f.header.mask with
  | none => rfl
  | some m => exact C18.applyMask_length m f.payload

theorem format_length (f : Frame) :
    f.format.length = f.header.len f.payload.length + f.payload.length := by
  rw [format_eq, List.length_append, C18_format_length, wirePayload_length]

theorem format_length_ge (f : Frame) : 2 ≤ f.format.length := by
  rw [format_length]
  unfold Header.len headerLen
  omega

/-- the one-shot view of a stream that starts with the encoding of `f` is `f` -/
theorem shot_format (maxSize : Nat) (f : Frame) (rest : Bytes)
    (hv : isReservedOpcode f.header.opcode = false) (hl : f.payload.length < 2 ^ 64)
    (hm : f.payload.length ≤ maxSize) :
    shot maxSize (f.format ++ rest) = .frame f.header (wirePayload f) rest := by
  unfold shot
  rw [format_eq, List.append_assoc, C18_parse_format _ _ _ hv hl]
  dsimp only
  rw [if_neg (by omega)]
  have hd : (f.header.format f.payload.length ++ (wirePayload f ++ rest)).drop
      (f.header.len f.payload.length) = wirePayload f ++ rest :=
    List.drop_left' (C18_format_length _ _)
  rw [hd, if_pos (by rw [List.length_append, wirePayload_length]; omega)]
  rw [List.take_left' (wirePayload_length f), List.drop_left' (wirePayload_length f)]

/-- a cut inside the encoding of a frame is an incomplete frame -/
theorem shot_proper_prefix (maxSize : Nat) (f : Frame)
    (hv : isReservedOpcode f.header.opcode = false) (hl : f.payload.length < 2 ^ 64)
    (hm : f.payload.length ≤ maxSize) (n : Nat) (hn : n < f.format.length) :
    shot maxSize (f.format.take n) = .needMore := by
  by_cases h : shot maxSize (f.format.take n) = .needMore
  · exact h
  · have h1 := shot_stable maxSize (f.format.take n) (f.format.drop n) h
    rw [List.take_append_drop] at h1
    have h2 := shot_format maxSize f [] hv hl hm
    rw [List.append_nil] at h2
    rw [h2] at h1
    cases hs : shot maxSize (f.format.take n) with
    | needMore => exact absurd hs h
    | fail e => rw [hs] at h1; cases h1
    | frame h' p r =>
      rw [hs] at h1
      simp only [Shot.extend, Shot.frame.injEq] at h1
      have h3 := congrArg List.length h1.2.2
      rw [List.length_append, List.length_drop, List.length_nil] at h3
      omega

/-! ## frames a correct endpoint may queue -/

/-- frames a correct endpoint of role `r` may queue: FIN set, RSV clear, masked iff client, one of
the five opcodes, control payloads ≤ 125, text payloads valid UTF-8, close payloads well-formed -/
def Legit (r : Role) (f : Frame) : Prop :=
  f.header.fin = true ∧ f.header.rsv1 = false ∧ f.header.rsv2 = false ∧ f.header.rsv3 = false ∧
  (r = .client ↔ f.header.mask.isSome = true) ∧ f.payload.length < 2 ^ 63 ∧
  ((f.header.opcode = .data .text ∧ Spec.WellFormed f.payload) ∨ f.header.opcode = .data .binary ∨
   (f.header.opcode = .control .ping ∧ f.payload.length ≤ 125) ∨
   (f.header.opcode = .control .pong ∧ f.payload.length ≤ 125) ∨
   (f.header.opcode = .control .close ∧ f.payload.length ≤ 125 ∧
      (f.payload = [] ∨ ∃ a b reason, f.payload = a :: b :: reason ∧ Spec.WellFormed reason)))

/-- the Close message the reader delivers for a close payload -/
def closeMsgOf (p : Bytes) : Message :=
  match p with
  | a :: b :: reason =>
    if wireCloseCode (be16 a b) then .close (some ⟨closeCodeOfU16 (be16 a b), reason⟩)
    else .close (some ⟨.protocol, protocolViolationReason⟩)
  | _ => .close none

/-- the message the reader delivers for a legitimate frame -/
def msgOf (f : Frame) : Message :=
  match f.header.opcode with
  | .data .text => .text f.payload
  | .data .binary => .binary f.payload
  | .control .ping => .ping f.payload
  | .control .pong => .pong f.payload
  | _ => closeMsgOf f.payload

theorem Legit.opcode_ok {r : Role} {f : Frame} (h : Legit r f) :
    isReservedOpcode f.header.opcode = false := by
  obtain ⟨_, _, _, _, _, _, h | h | h | h | h⟩ := h
  · rw [h.1]; rfl
  · rw [h]; rfl
  · rw [h.1]; rfl
  · rw [h.1]; rfl
  · rw [h.1]; rfl

theorem Legit.len_lt {r : Role} {f : Frame} (h : Legit r f) : f.payload.length < 2 ^ 63 :=
  h.2.2.2.2.2.1

/-- the payload the reader of the peer role sees after (un)masking -/
theorem reader_payload {sender : Role} {f : Frame} (h : Legit sender f) :
    (if peerOf sender = .server then unmaskPayload f.header.mask (wirePayload f)
     else wirePayload f) = f.payload := by
  have hm := h.2.2.2.2.1
  unfold wirePayload
  cases sender with
  | server =>
    have : f.header.mask = none := by
      cases hk : f.header.mask with
      | none => rfl
      | some k => rw [hk] at hm; exact absurd (hm.mpr rfl) (by intro h; cases h)
    rw [this]
    rfl
  | client =>
    have hs := hm.mp rfl
    cases hk : f.header.mask with
    | none => rw [hk] at hs; cases hs
    | some k =>
      show unmaskPayload (some k) (applyMask k f.payload) = f.payload
      rw [unmask_some, C19.C19_involution]

theorem closeMessage_legit (p : Bytes)
    (h : p = [] ∨ ∃ a b reason, p = a :: b :: reason ∧ Spec.WellFormed reason) :
    closeMessage p = .close (closeMsgOf p) := by
  rcases h with rfl | ⟨a, b, reason, rfl, hw⟩
  · rfl
  · have hb : wellFormedB reason = true := (C08.C08_wellFormedB_iff reason).mpr hw
    unfold closeMessage closeMsgOf
    simp only [hb, Bool.not_true, Bool.false_eq_true, if_false]
    by_cases hc : wireCloseCode (be16 a b) = true
    · simp only [hc, if_true]
    · simp only [hc, Bool.false_eq_true, if_false]

/-- what the specification makes of one legitimate frame followed by `rest` -/
theorem afterFrame_legit (sender : Role) (au : Bool) (lim : Limits) (hlim : lim.maxMsg = none)
    (f : Frame) (rest : Bytes) (h : Legit sender f) :
    afterFrame (peerOf sender) au lim none f.header (wirePayload f) rest =
      if f.isClose = true then ([msgOf f], .closed)
      else consMsg (msgOf f) (dec (peerOf sender) au lim none rest) := by
  have hp := reader_payload h
  obtain ⟨hfin, h1, h2, h3, hm, _, hop⟩ := h
  unfold afterFrame
  rw [hp]
  have c1 : ¬ (peerOf sender = .server ∧ f.header.mask.isNone ∧ (!au) = true) := by
    intro ⟨ha, hb, _⟩
    cases sender with
    | server => cases ha
    | client =>
      have := hm.mp rfl
      cases hk : f.header.mask with
      | none => rw [hk] at this; cases this
      | some k => rw [hk] at hb; cases hb
  have c3 : ¬ (peerOf sender = .client ∧ f.header.mask.isSome) := by
    intro ⟨ha, hb⟩
    cases sender with
    | server => have := hm.mpr hb; cases this
    | client => cases ha
  rw [if_neg c1, h1, h2, h3, if_neg (by decide), if_neg c3, hfin]
  unfold Frame.isClose msgOf
  rcases hop with ⟨ho, hw⟩ | ho | ⟨ho, hl⟩ | ⟨ho, hl⟩ | ⟨ho, hl, hc⟩
  · have hb : wellFormedB f.payload = true := (C08.C08_wellFormedB_iff _).mpr hw
    rw [ho]
    simp only [opCodeToU8, frameMeaning, hlim, overLimit, hb]
    rfl
  · rw [ho]
    simp only [opCodeToU8, frameMeaning, hlim, overLimit]
    rfl
  · rw [ho]
    have : ¬ f.payload.length > 125 := by omega
    simp only [opCodeToU8, frameMeaning, this]
    rfl
  · rw [ho]
    have : ¬ f.payload.length > 125 := by omega
    simp only [opCodeToU8, frameMeaning, this]
    rfl
  · rw [ho]
    have : ¬ f.payload.length > 125 := by omega
    simp only [opCodeToU8, frameMeaning, this, closeMessage_legit _ hc]
    rfl

/-- the message-level verdict on a legitimate frame -/
theorem frameMeaning_legit (lim : Limits) (hlim : lim.maxMsg = none) {sender : Role} {f : Frame}
    (h : Legit sender f) :
    frameMeaning lim none f.header.fin (opCodeToU8 f.header.opcode) f.payload =
      if f.isClose = true then .close (msgOf f) else .deliver (msgOf f) none := by
  obtain ⟨hfin, _, _, _, _, _, hop⟩ := h
  rw [hfin]
  unfold Frame.isClose msgOf
  rcases hop with ⟨ho, hw⟩ | ho | ⟨ho, hl⟩ | ⟨ho, hl⟩ | ⟨ho, hl, hc⟩
  · have hb : wellFormedB f.payload = true := (C08.C08_wellFormedB_iff _).mpr hw
    rw [ho]
    simp only [opCodeToU8, frameMeaning, hlim, overLimit, hb]
    rfl
  · rw [ho]
    simp only [opCodeToU8, frameMeaning, hlim, overLimit]
    rfl
  · rw [ho]
    have : ¬ f.payload.length > 125 := by omega
    simp only [opCodeToU8, frameMeaning, this]
    rfl
  · rw [ho]
    have : ¬ f.payload.length > 125 := by omega
    simp only [opCodeToU8, frameMeaning, this]
    rfl
  · rw [ho]
    have : ¬ f.payload.length > 125 := by omega
    simp only [opCodeToU8, frameMeaning, this, closeMessage_legit _ hc]
    rfl

/-- the next frame of a prefix of a legitimate wire image -/
theorem shot_legit (sender : Role) (f : Frame) (fs : List Frame) (n : Nat) (hf : Legit sender f) :
    (n < f.format.length ∧ shot usizeMax ((encodeAll (f :: fs)).take n) = .needMore) ∨
    (f.format.length ≤ n ∧ shot usizeMax ((encodeAll (f :: fs)).take n) =
      .frame f.header (wirePayload f) ((encodeAll fs).take (n - f.format.length))) := by
  have hv := hf.opcode_ok
  have hlen := hf.len_lt
  have hle : f.payload.length ≤ usizeMax := by unfold usizeMax; omega
  show (_ ∧ shot usizeMax ((f.format ++ encodeAll fs).take n) = _) ∨
    (_ ∧ shot usizeMax ((f.format ++ encodeAll fs).take n) = _)
  by_cases hn : n < f.format.length
  · left
    rw [List.take_append_of_le_length (Nat.le_of_lt hn)]
    exact ⟨hn, shot_proper_prefix usizeMax f hv (by omega) hle n hn⟩
  · right
    have ht : (f.format ++ encodeAll fs).take n =
        f.format ++ (encodeAll fs).take (n - f.format.length) := by
      rw [List.take_append, List.take_of_length_le (by omega)]
    rw [ht]
    exact ⟨by omega, shot_format usizeMax f _ hv (by omega) hle⟩

/-! ## every prefix of the wire image -/

/-- what the reader makes of the first `n` bytes of the wire image of `frames` -/
def expect : List Frame → Nat → List Message × End
  | [], _ => ([], .needMore)
  | f :: fs, n =>
    if n < f.format.length then ([], .needMore)
    else if f.isClose = true then ([msgOf f], .closed)
    else consMsg (msgOf f) (expect fs (n - f.format.length))

theorem dec_legit (sender : Role) (au : Bool) (lim : Limits)
    (hlim : lim.maxFrame = none ∧ lim.maxMsg = none) :
    ∀ (frames : List Frame) (n : Nat), (∀ f ∈ frames, Legit sender f) →
      dec (peerOf sender) au lim none ((encodeAll frames).take n) = expect frames n := by
  intro frames
  induction frames with
  | nil =>
    intro n _
    show dec _ _ _ _ (List.take n []) = _
    rw [List.take_nil, dec_nil]
    rfl
  | cons f fs ih =>
    intro n hl
    have hf : Legit sender f := hl f (List.mem_cons_self ..)
    have hv := hf.opcode_ok
    have hlen := hf.len_lt
    have hmax : lim.maxFrame.getD usizeMax = usizeMax := by rw [hlim.1]; rfl
    have hle : f.payload.length ≤ usizeMax := by unfold usizeMax; omega
    show dec _ _ _ _ ((f.format ++ encodeAll fs).take n) = _
    unfold expect
    by_cases hn : n < f.format.length
    · rw [if_pos hn, List.take_append_of_le_length (Nat.le_of_lt hn)]
      apply dec_needMore
      rw [hmax]
      exact shot_proper_prefix usizeMax f hv (by omega) hle n hn
    · rw [if_neg hn]
      have ht : (f.format ++ encodeAll fs).take n =
          f.format ++ (encodeAll fs).take (n - f.format.length) := by
        rw [List.take_append, List.take_of_length_le (by omega)]
      rw [ht]
      have hs := shot_format usizeMax f ((encodeAll fs).take (n - f.format.length)) hv
        (by omega) hle
      rw [← hmax] at hs
      rw [(dec_frame (role := peerOf sender) (au := au) (frag := none) hs).1,
        afterFrame_legit sender au lim hlim.2 f _ hf]
      by_cases hc : f.isClose = true
      · rw [if_pos hc, if_pos hc]
      · rw [if_neg hc, if_neg hc, ih _ (fun g hg => hl g (List.mem_cons_of_mem _ hg))]

theorem expect_no_error : ∀ (frames : List Frame) (n : Nat) (c : ErrClass),
    (expect frames n).2 ≠ .error c := by
  intro frames
  induction frames with
  | nil => intro n c h; cases h
  | cons f fs ih =>
    intro n c
    unfold expect
    by_cases hn : n < f.format.length
    · rw [if_pos hn]; intro h; cases h
    · rw [if_neg hn]
      by_cases hc : f.isClose = true
      · rw [if_pos hc]; intro h; cases h
      · rw [if_neg hc]; exact ih _ c

/-- on the whole image: one message per frame, up to and including the first Close -/
def expectAll : List Frame → List Message × End
  | [] => ([], .needMore)
  | f :: fs => if f.isClose = true then ([msgOf f], .closed) else consMsg (msgOf f) (expectAll fs)

theorem expect_full : ∀ (frames : List Frame),
    expect frames (encodeAll frames).length = expectAll frames := by
  intro frames
  induction frames with
  | nil => rfl
  | cons f fs ih =>
    show expect (f :: fs) (f.format ++ encodeAll fs).length = _
    unfold expect expectAll
    rw [List.length_append, if_neg (by omega), Nat.add_sub_cancel_left, ih]

theorem dec_legit_full (sender : Role) (au : Bool) (lim : Limits)
    (hlim : lim.maxFrame = none ∧ lim.maxMsg = none) (frames : List Frame)
    (hl : ∀ f ∈ frames, Legit sender f) :
    dec (peerOf sender) au lim none (encodeAll frames) = expectAll frames := by
  have := dec_legit sender au lim hlim frames (encodeAll frames).length hl
  rw [List.take_length, expect_full] at this
  exact this

/-- no Close among the frames: every message is delivered and the reader waits for more -/
theorem expectAll_no_close : ∀ (frames : List Frame), (∀ f ∈ frames, f.isClose = false) →
    expectAll frames = (frames.map msgOf, .needMore) := by
  intro frames
  induction frames with
  | nil => intro _; rfl
  | cons f fs ih =>
    intro h
    unfold expectAll
    rw [if_neg (by rw [h f (List.mem_cons_self ..)]; decide),
      ih (fun g hg => h g (List.mem_cons_of_mem _ hg))]
    rfl

/-- with `CloseLast`: one message per frame, and `closed` iff there is a Close -/
theorem expectAll_closeLast : ∀ (frames : List Frame), CloseLast frames →
    (expectAll frames).1.length = frames.length ∧
    ((expectAll frames).2 = .closed ↔ ∃ f ∈ frames, f.isClose = true) := by
  intro frames
  induction frames with
  | nil =>
    intro _
    refine ⟨rfl, ⟨fun h => (by cases h), fun ⟨f, hf, _⟩ => (by cases hf)⟩⟩
  | cons f fs ih =>
    intro hc
    unfold expectAll
    by_cases hcl : f.isClose = true
    · rw [if_pos hcl]
      have : fs = [] := hc [] f fs rfl hcl
      subst this
      exact ⟨rfl, ⟨fun _ => ⟨f, List.mem_cons_self .., hcl⟩, fun _ => rfl⟩⟩
    · rw [if_neg hcl]
      have hc' : CloseLast fs := by
        intro pre g post he hg
        exact hc (f :: pre) g post (by rw [he]; rfl) hg
      obtain ⟨h1, h2⟩ := ih hc'
      refine ⟨by show (_ :: _).length = _; rw [List.length_cons, h1, List.length_cons], ?_⟩
      show (expectAll fs).2 = .closed ↔ _
      rw [h2]
      constructor
      · intro ⟨g, hg, hgc⟩; exact ⟨g, List.mem_cons_of_mem _ hg, hgc⟩
      · intro ⟨g, hg, hgc⟩
        rcases List.mem_cons.mp hg with rfl | hg
        · exact absurd hgc hcl
        · exact ⟨g, hg, hgc⟩

/-- with `CloseLast`: the messages are the frames' messages, in order -/
theorem expectAll_map : ∀ (frames : List Frame), CloseLast frames →
    (expectAll frames).1 = frames.map msgOf := by
  intro frames
  induction frames with
  | nil => intro _; rfl
  | cons f fs ih =>
    intro hc
    unfold expectAll
    by_cases hcl : f.isClose = true
    · rw [if_pos hcl]
      have : fs = [] := hc [] f fs rfl hcl
      subst this
      rfl
    · rw [if_neg hcl]
      have hc' : CloseLast fs := by
        intro pre g post he hg
        exact hc (f :: pre) g post (by rw [he]; rfl) hg
      show msgOf f :: (expectAll fs).1 = _
      rw [ih hc']
      rfl

end WsProofs.Pipe
