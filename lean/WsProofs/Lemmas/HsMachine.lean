import WsModel.Handshake.Run
/-! Equation lemmas for one round of the handshake machine (`singleRound`) and what the scripted
transport calls leave untouched. -/
namespace WsProofs.HsL
open WsModel WsModel.Hs WsModel.Gen

/-- the parse step of a reading round once the chunk passed the guard -/
def parseStep (parse : Bytes → HeadParse) (buf : Bytes) (a : AttackCheck) (t : Transport) : Transport × Round :=
  match parse buf with
  | .incomplete => (t, .incomplete (.reading buf a))
  | .complete size h => (t, .doneReading size h (buf.drop size))
  | .tooManyHeaders => (t, .err .tooManyHeaders)
  | .error => (t, .err .httparse)

theorem singleRound_read_wb {parse buf a} {t t1 : Transport} (h : t.read = (t1, .err .wouldBlock)) :
    singleRound parse (.reading buf a) t = (t1, .wouldBlock (.reading buf a)) := by
  simp only [singleRound, h]

theorem singleRound_read_err {parse buf a} {t t1 : Transport} {k : IoKind} (h : t.read = (t1, .err k))
    (hk : k ≠ .wouldBlock) :
    singleRound parse (.reading buf a) t = (t1, .err (.io k)) := by
  cases k <;> first | exact absurd rfl hk | simp only [singleRound, h]

theorem singleRound_read_eof {parse buf a} {t t1 : Transport} (h : t.read = (t1, .eof)) :
    singleRound parse (.reading buf a) t = (t1, .err .handshakeIncomplete) := by
  simp only [singleRound, h]

theorem singleRound_read_data {parse buf a} {t t1 : Transport} {bs : Bytes} (h : t.read = (t1, .data bs)) :
    singleRound parse (.reading buf a) t =
      if bs.isEmpty then (t1, .err .handshakeIncomplete)
      else if !(a.check bs.length).2 then (t1, .err .attackAttempt)
      else parseStep parse (buf ++ bs) (a.check bs.length).1 t1 := by
  simp only [singleRound, h, parseStep]
  rfl

theorem singleRound_write_wb {parse rem} {t t1 : Transport} (hne : rem ≠ []) (h : t.write rem = (t1, .err .wouldBlock)) :
    singleRound parse (.writing rem) t = (t1, .wouldBlock (.writing rem)) := by
  have : rem.isEmpty = false := by cases rem <;> simp_all
  simp only [singleRound, h, this]; rfl

theorem singleRound_write_err {parse rem} {t t1 : Transport} {k} (hne : rem ≠ []) (h : t.write rem = (t1, .err k))
    (hk : k ≠ .wouldBlock) :
    singleRound parse (.writing rem) t = (t1, .err (.io k)) := by
  have : rem.isEmpty = false := by cases rem <;> simp_all
  cases k <;> first | exact absurd rfl hk | (simp only [singleRound, h, this]; rfl)

theorem singleRound_write_ok {parse rem} {t t1 : Transport} {n} (hne : rem ≠ []) (h : t.write rem = (t1, .ok n)) :
    singleRound parse (.writing rem) t =
      if n = 0 then (t1, .err (.io .reset))
      else if (rem.drop n).isEmpty then (t1, .incomplete .flushing)
      else (t1, .incomplete (.writing (rem.drop n))) := by
  have : rem.isEmpty = false := by cases rem <;> simp_all
  simp only [singleRound, h, this]; rfl

theorem singleRound_flush_ok {parse} {t t1 : Transport} (h : t.flush = (t1, .ok)) :
    singleRound parse .flushing t = (t1, .doneWriting) := by
  simp only [singleRound, h]

theorem singleRound_flush_wb {parse} {t t1 : Transport} (h : t.flush = (t1, .err .wouldBlock)) :
    singleRound parse .flushing t = (t1, .wouldBlock .flushing) := by
  simp only [singleRound, h]

theorem singleRound_flush_err {parse} {t t1 : Transport} {k} (h : t.flush = (t1, .err k)) (hk : k ≠ .wouldBlock) :
    singleRound parse .flushing t = (t1, .err (.io k)) := by
  cases k <;> first | exact absurd rfl hk | simp only [singleRound, h]


/-! ### what the transport calls leave untouched -/

theorem read_accepted (t : Transport) : t.read.1.accepted = t.accepted := by
  unfold Transport.read; cases t.rd <;> rfl

theorem flush_accepted (t : Transport) : t.flush.1.accepted = t.accepted := by
  unfold Transport.flush Transport.flushEv
  cases t.fl with
  | nil => cases t.flDef <;> rfl
  | cons e _ => cases e <;> rfl

theorem write_accepted_err {t t1 : Transport} {rem : Bytes} {k} (h : t.write rem = (t1, .err k)) :
    t1.accepted = t.accepted := by
  unfold Transport.write at h
  cases hw : t.wr with
  | nil =>
    rw [hw] at h
    cases hd : t.wrDef with
    | accept n => rw [hd] at h; simp [Transport.writeEv] at h
    | err k' => rw [hd] at h; simp only [Transport.writeEv, Prod.mk.injEq] at h; rw [← h.1]
  | cons e rest =>
    rw [hw] at h
    cases e with
    | accept n => simp [Transport.writeEv] at h
    | err k' => simp only [Transport.writeEv, Prod.mk.injEq] at h; rw [← h.1]

theorem round_wouldBlock {parse : Bytes → HeadParse} {s : HState} {t t' : Transport} {s' : HState}
    (h : singleRound parse s t = (t', .wouldBlock s')) : s' = s ∧ t'.accepted = t.accepted := by
  cases s with
  | reading buf a =>
    cases hr : t.read with
    | mk t1 ev =>
      have hacc : t1.accepted = t.accepted := by have := read_accepted t; rw [hr] at this; exact this
      cases ev with
      | eof => rw [singleRound_read_eof hr] at h; simp at h
      | err k =>
        by_cases hk : k = .wouldBlock
        · subst hk; rw [singleRound_read_wb hr] at h
          simp only [Prod.mk.injEq, Round.wouldBlock.injEq] at h
          exact ⟨h.2.symm, by rw [← h.1]; exact hacc⟩
        · rw [singleRound_read_err hr hk] at h; simp at h
      | data bs =>
        rw [singleRound_read_data hr] at h
        by_cases h1 : bs.isEmpty = true
        · simp only [h1, if_true] at h; simp at h
        · by_cases h2 : (!(a.check bs.length).2) = true
          · simp only [h1, h2, if_true] at h; simp at h
          · simp only [h1, h2, parseStep] at h
            cases hp : parse (buf ++ bs) <;> rw [hp] at h <;> simp at h
  | writing rem =>
    by_cases hne : rem = []
    · subst hne; simp [singleRound] at h
    · cases hw : t.write rem with
      | mk t1 res =>
        cases res with
        | ok n =>
          rw [singleRound_write_ok hne hw] at h
          by_cases h1 : n = 0
          · simp only [h1, if_true] at h; simp at h
          · by_cases h2 : (rem.drop n).isEmpty = true
            · simp only [h1, h2, if_true, if_false] at h; simp at h
            · simp only [h1, h2, if_false] at h; simp at h
        | err k =>
          by_cases hk : k = .wouldBlock
          · subst hk; rw [singleRound_write_wb hne hw] at h
            simp only [Prod.mk.injEq, Round.wouldBlock.injEq] at h
            exact ⟨h.2.symm, by rw [← h.1]; exact write_accepted_err hw⟩
          · rw [singleRound_write_err hne hw hk] at h; simp at h
  | flushing =>
    cases hf : t.flush with
    | mk t1 ev =>
      have hacc : t1.accepted = t.accepted := by have := flush_accepted t; rw [hf] at this; exact this
      cases ev with
      | ok => rw [singleRound_flush_ok hf] at h; simp at h
      | err k =>
        by_cases hk : k = .wouldBlock
        · subst hk; rw [singleRound_flush_wb hf] at h
          simp only [Prod.mk.injEq, Round.wouldBlock.injEq] at h
          exact ⟨h.2.symm, by rw [← h.1]; exact hacc⟩
        · rw [singleRound_flush_err hf hk] at h; simp at h
end WsProofs.HsL
