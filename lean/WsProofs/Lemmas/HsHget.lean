import WsModel.Handshake.Run
/-! `hget` (the model of `HeaderMap::get` on a parsed head) is insensitive to name case, to
additional headers and — for names that occur once — to header order. -/
namespace WsProofs.HsL
open WsModel WsModel.Hs WsModel.Gen

theorem eqIgnoreCase_congr_left {a b : Bytes} (h : lowerAll a = lowerAll b) (name : Bytes) :
    eqIgnoreCase a name = eqIgnoreCase b name := by
  unfold eqIgnoreCase; rw [h]

theorem hget_map_name (f : Bytes → Bytes) (hf : ∀ n, lowerAll (f n) = lowerAll n) (name : Bytes) :
    ∀ hs : List (Bytes × Bytes), hget (hs.map fun (n, v) => (f n, v)) name = hget hs name
  | [] => rfl
  | (n, v) :: rest => by
    simp only [List.map_cons, hget, eqIgnoreCase_congr_left (hf n) name, hget_map_name f hf name rest]

theorem hget_insert (name n v : Bytes) (hn : eqIgnoreCase n name = false) :
    ∀ (hs : List (Bytes × Bytes)) (i : Nat), hget (hs.take i ++ (n, v) :: hs.drop i) name = hget hs name
  | hs, 0 => by simp [hget, hn]
  | [], i + 1 => by simp [hget, hn]
  | (n', v') :: rest, i + 1 => by
    simp only [List.take_succ_cons, List.drop_succ_cons, List.cons_append, hget, hget_insert name n v hn rest i]

theorem hget_perm (name : Bytes) {hs₁ hs₂ : List (Bytes × Bytes)} (hp : hs₁.Perm hs₂) :
    (hs₁.filter fun (n, _) => eqIgnoreCase n name).length ≤ 1 → hget hs₁ name = hget hs₂ name := by
  induction hp with
  | nil => intro _; rfl
  | cons x _ ih =>
    intro hl
    obtain ⟨n, v⟩ := x
    simp only [hget]
    by_cases hc : eqIgnoreCase n name = true
    · simp only [hc, if_true]
    · simp only [hc]
      apply ih
      simp only [List.filter_cons, hc] at hl
      exact hl
  | swap x y l =>
    intro hl
    obtain ⟨n, v⟩ := x
    obtain ⟨n', v'⟩ := y
    simp only [hget]
    by_cases hc : eqIgnoreCase n name = true <;> by_cases hc' : eqIgnoreCase n' name = true
    · simp only [List.filter_cons, hc, hc', if_true, List.length_cons] at hl; omega
    · simp only [hc, hc', if_true]; simp
    · simp only [hc, hc', if_true]; simp
    · simp only [hc, hc', Bool.false_eq_true, if_false]
  | trans p1 _ ih1 ih2 =>
    intro hl
    rw [ih1 hl]
    apply ih2
    rw [← (p1.filter _).length_eq]; exact hl
end WsProofs.HsL
