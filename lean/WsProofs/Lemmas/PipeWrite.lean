import WsProofs.Lemmas.EndpointStep

/-! The write side of an endpoint that only writes user messages: the exact frame (with the exact
mask key) every `write` queues, the mask oracle it leaves, and that nothing else changes. -/
namespace WsProofs.Pipe
open WsModel WsModel.Gen WsProofs

/-- the frame as `buffer_frame` queues it: a client sets the next mask key -/
def sent (role : Role) (f : Frame) (ks : List Mask) : Frame :=
  match role with
  | .server => f
  | .client => { f with header := { f.header with mask := some (ks.headD ⟨0, 0, 0, 0⟩) } }

/-- the mask oracle after one frame -/
def restKeys (role : Role) (ks : List Mask) : List Mask :=
  match role with
  | .server => ks
  | .client => ks.tail

/-- the fields a writing-only endpoint keeps fixed, its queue and its mask oracle -/
structure WF (role : Role) (w : World) (Q : List Frame) (ks : List Mask) : Prop where
  role : w.c.role = role
  state : w.c.state = .active
  slot : w.c.additional = none
  maxOut : w.c.codec.maxOut = usizeMax
  queued : w.queued = Q
  mu : w.mu = ks

/-- … together with the global invariant (for the byte accounting) -/
structure WSt (role : Role) (w : World) (Q : List Frame) (ks : List Mask) : Prop where
  inv : Inv w
  wf : WF role w Q ks

/-! ## primitives -/

theorem checkReset_active {α : Type} (w : World) (r : Res α) (h : w.c.state = .active)
    (hne : r ≠ .err .connectionClosed) :
    w.checkConnectionReset r = (w, r) := by
  rcases checkConnectionReset_cases w r hne with ⟨h1, _⟩ | ⟨_, _, h3⟩
  · exact h1
  · rw [h] at h3; cases h3

theorem maskStep_exact (role : Role) (w : World) (f : Frame) (ks : List Mask)
    (hrole : w.c.role = role) (hmu : w.mu = ks) :
    (maskStep w f).2 = sent role f ks ∧ (maskStep w f).1.mu = restKeys role ks := by
  unfold maskStep sent restKeys
  rw [hrole]
  cases role with
  | server => exact ⟨rfl, hmu⟩
  | client =>
    dsimp only
    unfold World.nextMask
    rw [hmu]
    cases ks with
    | nil => exact ⟨rfl, rfl⟩
    | cons k rest => exact ⟨rfl, rfl⟩

theorem codec_bufferFrame_fit (c : Codec) (t : Transport) (f : Frame)
    (hfit : f.len + c.outBuf.length ≤ c.maxOut) :
    (c.bufferFrame t f).2.2 = .ok () ∨ ∃ k, (c.bufferFrame t f).2.2 = .err (.io k) := by
  unfold Codec.bufferFrame
  rw [if_neg (by omega)]
  dsimp only
  by_cases hw : (f.formatIntoBuf c.outBuf).length > c.writeLen
  · rw [if_pos hw]
    exact (Codec.writeOutBuffer_spec _ t).kind
  · rw [if_neg hw]
    exact Or.inl rfl

/-- `World.bufferFrame` when the frame fits: exactly `sent role f ks` is queued -/
theorem bufferFrame_exact (role : Role) (w : World) (f : Frame) (ks : List Mask)
    (hrole : w.c.role = role) (hmu : w.mu = ks) (hst : w.c.state = .active)
    (hfit : (sent role f ks).len + w.c.codec.outBuf.length ≤ w.c.codec.maxOut) :
    (w.bufferFrame f).1.c.role = role ∧ (w.bufferFrame f).1.c.state = .active ∧
    (w.bufferFrame f).1.c.additional = w.c.additional ∧
    (w.bufferFrame f).1.c.codec.maxOut = w.c.codec.maxOut ∧
    (w.bufferFrame f).1.queued = w.queued ++ [sent role f ks] ∧
    (w.bufferFrame f).1.mu = restKeys role ks ∧
    ((w.bufferFrame f).2 = .ok () ∨ ∃ k, (w.bufferFrame f).2 = .err (.io k)) := by
  have hms := maskStep_exact role w f ks hrole hmu
  obtain ⟨hpc, hpt, hpq, _⟩ := maskStep_spec w f
  rw [bufferFrame_eq]
  generalize maskStep w f = p at *
  obtain ⟨w0, f'⟩ := p
  simp only [] at hpc hpt hpq hms ⊢
  obtain ⟨hf', hmu0⟩ := hms
  subst hf'
  have hfit' : (sent role f ks).len + w0.c.codec.outBuf.length ≤ w0.c.codec.maxOut := by
    rw [hpc]; exact hfit
  have hk := codec_bufferFrame_fit w0.c.codec w0.t (sent role f ks) hfit'
  have hcb := (Codec.bufferFrame_spec w0.c.codec w0.t (sent role f ks)).maxOut
  generalize w0.c.codec.bufferFrame w0.t (sent role f ks) = q at *
  obtain ⟨c1, t1, r⟩ := q
  simp only [] at hk hcb ⊢
  have hnw : r.isWriteBufferFull = false := by
    rcases hk with h | ⟨k, h⟩ <;> rw [h] <;> rfl
  simp only [hnw, Bool.false_eq_true, if_false]
  rw [checkReset_active _ _ (by show w0.c.state = .active; rw [hpc]; exact hst)
    (by rcases hk with h | ⟨k, h⟩ <;> rw [h] <;> (intro h'; cases h'))]
  refine ⟨?_, ?_, ?_, ?_, ?_, ?_, hk⟩
  · show w0.c.role = role; rw [hpc]; exact hrole
  · show w0.c.state = .active; rw [hpc]; exact hst
  · show w0.c.additional = _; rw [hpc]
  · show c1.maxOut = _; rw [hcb, hpc]
  · show w0.queued ++ _ = _; rw [hpq]
  · exact hmu0

theorem slotTail_none (w : World) (ha : w.c.additional = none) (hs : w.c.state = .active) :
    slotTail w = (w, .ok w.c.unflushed) := by
  unfold slotTail World.writeSlot
  rw [ha]
  dsimp only [andThen]
  unfold World.writeTail
  rw [if_neg]
  intro ⟨_, h, _⟩
  rw [hs] at h
  cases h

theorem writeOutBuffer_WF {role : Role} {w : World} {Q : List Frame} {ks : List Mask}
    (h : WF role w Q ks) : WF role w.writeOutBuffer.1 Q ks := by
  have S := World.writeOutBuffer_spec w
  have hmu : w.writeOutBuffer.1.mu = w.mu := by
    unfold World.writeOutBuffer
    generalize w.c.codec.writeOutBuffer w.t = q
    obtain ⟨c1, t1, r⟩ := q
    rfl
  exact ⟨S.role.trans h.role, S.state.trans h.state, S.additional.trans h.slot,
    S.codec.maxOut.trans h.maxOut, S.queued.trans h.queued, hmu.trans h.mu⟩

theorem streamFlush_WF {role : Role} {w : World} {Q : List Frame} {ks : List Mask}
    (h : WF role w Q ks) : WF role w.streamFlush.1 Q ks := by
  have S := World.streamFlush_spec w
  have hmu : w.streamFlush.1.mu = w.mu := by
    unfold World.streamFlush
    generalize w.t.flush = q
    obtain ⟨t1, e⟩ := q
    cases e <;> rfl
  exact ⟨by rw [S.c]; exact h.role, by rw [S.c]; exact h.state, by rw [S.c]; exact h.slot,
    by rw [S.c]; exact h.maxOut, S.queued.trans h.queued, hmu.trans h.mu⟩

theorem flush_eq_none (w : World) (hs : w.c.state = .active) (ha : w.c.additional = none) :
    w.flush = andThen w.writeOutBuffer fun w _ => andThen w.flushRetry fun w _ =>
      andThen w.streamFlush fun w _ => (w.setUnflushed false, .ok ()) := by
  unfold World.flush
  rw [if_neg (by rw [hs]; decide), writeInternal_none_eq, slotTail_none w ha hs]
  rfl

theorem flush_WF {role : Role} {w : World} {Q : List Frame} {ks : List Mask}
    (h : WF role w Q ks) : WF role w.flush.1 Q ks := by
  rw [flush_eq_none w h.state h.slot]
  apply andThen_pres (P := fun w => WF role w Q ks)
  · exact writeOutBuffer_WF h
  · intro w1 _ h1
    apply andThen_pres (P := fun w => WF role w Q ks)
    · unfold World.flushRetry
      rw [h1.slot]
      exact h1
    · intro w2 _ h2
      apply andThen_pres (P := fun w => WF role w Q ks)
      · exact streamFlush_WF h2
      · intro w3 _ h3
        exact ⟨h3.role, h3.state, h3.slot, h3.maxOut, h3.queued, h3.mu⟩

/-! ## one `write` -/

/-- the frame fits into the write buffer when the whole image stays below 2^64 bytes -/
theorem fits {role : Role} {w : World} {Q : List Frame} {ks : List Mask} (h : WSt role w Q ks)
    (g : Frame) (hfit : (encodeAll (Q ++ [g])).length ≤ usizeMax) :
    g.len + w.c.codec.outBuf.length ≤ w.c.codec.maxOut := by
  have hf := congrArg List.length h.inv.fifo
  rw [h.wf.queued, List.length_append] at hf
  rw [encodeAll_append, encodeAll_singleton, List.length_append, Frame.format_length] at hfit
  rw [h.wf.maxOut]
  omega

theorem writeData_WF {role : Role} {w : World} {Q : List Frame} {ks : List Mask}
    (h : WSt role w Q ks) (f : Frame)
    (hfit : (encodeAll (Q ++ [sent role f ks])).length ≤ usizeMax) :
    WF role (w.writeData f).1 (Q ++ [sent role f ks]) (restKeys role ks) := by
  obtain ⟨b1, b2, b3, b4, b5, b6, b7⟩ := bufferFrame_exact role w f ks h.wf.role h.wf.mu
    h.wf.state (fits h _ hfit)
  unfold World.writeData
  rw [writeInternal_some_eq]
  generalize w.bufferFrame f = x at *
  obtain ⟨w1, r1⟩ := x
  simp only [] at b1 b2 b3 b4 b5 b6 b7
  have hw1 : WF role w1 (Q ++ [sent role f ks]) (restKeys role ks) :=
    ⟨b1, b2, b3.trans h.wf.slot, b4.trans h.wf.maxOut, by rw [b5, h.wf.queued], b6⟩
  rcases b7 with rfl | ⟨k, rfl⟩
  · dsimp only [andThen]
    rw [slotTail_none w1 hw1.slot hw1.state]
    dsimp only
    by_cases hu : w1.c.unflushed = true
    · rw [if_pos hu]; exact flush_WF hw1
    · rw [if_neg hu]; exact hw1
  · exact hw1

theorem write_pong_WF {role : Role} {w : World} {Q : List Frame} {ks : List Mask}
    (h : WSt role w Q ks) (d : Bytes)
    (hfit : (encodeAll (Q ++ [sent role (Frame.pong d) ks])).length ≤ usizeMax) :
    WF role (w.write (.pong d)).1 (Q ++ [sent role (Frame.pong d) ks]) (restKeys role ks) := by
  rw [write_pong_eq w d h.wf.state]
  have hsa : w.setAdditional (Frame.pong d) = w.setAdditionalRaw (some (Frame.pong d)) := by
    unfold World.setAdditional
    rw [h.wf.slot]
  rw [hsa]
  unfold slotTail World.writeSlot
  show WF role (andThen (andThen
    (match ((w.setAdditionalRaw (some (Frame.pong d))).setAdditionalRaw none).bufferFrame
        (Frame.pong d) with
      | (w, .err (.writeBufferFull f)) => (w.setAdditional f, .ok false)
      | (w, .err e) => (w.setUnflushed true, .err e)
      | (w, .panic s) => (w, .panic s)
      | (w, .ok ()) => (w.setUnflushed true, .ok true))
    fun w sf => w.writeTail sf) fun w _ => (w, .ok ())).1 _ _
  obtain ⟨b1, b2, b3, b4, b5, b6, b7⟩ := bufferFrame_exact role
    ((w.setAdditionalRaw (some (Frame.pong d))).setAdditionalRaw none) (Frame.pong d) ks
    h.wf.role h.wf.mu h.wf.state (fits h _ hfit)
  generalize ((w.setAdditionalRaw (some (Frame.pong d))).setAdditionalRaw none).bufferFrame
    (Frame.pong d) = x at *
  obtain ⟨w1, r1⟩ := x
  simp only [] at b1 b2 b3 b4 b5 b6 b7
  have hw1 : WF role w1 (Q ++ [sent role (Frame.pong d) ks]) (restKeys role ks) :=
    ⟨b1, b2, b3, b4.trans h.wf.maxOut, by rw [b5]; show w.queued ++ _ = _; rw [h.wf.queued], b6⟩
  have hw1' : WF role (w1.setUnflushed true) (Q ++ [sent role (Frame.pong d) ks])
      (restKeys role ks) :=
    ⟨hw1.role, hw1.state, hw1.slot, hw1.maxOut, hw1.queued, hw1.mu⟩
  rcases b7 with rfl | ⟨k, rfl⟩
  · dsimp only [andThen]
    unfold World.writeTail
    rw [if_neg]
    · exact hw1'
    · intro ⟨_, hcr, _⟩
      have : (w1.setUnflushed true).c.state = .active := hw1.state
      rw [this] at hcr
      cases hcr
  · exact hw1'

/-! ## histories -/

theorem run_append (w : World) (a b : List Op) :
    (w.run (a ++ b)).1 = ((w.run a).1.run b).1 ∧
    (w.run (a ++ b)).2 = (w.run a).2 ++ ((w.run a).1.run b).2 := by
  induction a generalizing w with
  | nil => exact ⟨rfl, rfl⟩
  | cons op ops ih =>
    obtain ⟨h1, h2⟩ := ih (w.step op).1
    simp only [List.cons_append, World.run]
    exact ⟨h1, by rw [h2]⟩

theorem run_flush (w : World) :
    (w.run [.flush]).1 = w.flush.1 ∧ (w.run [.flush]).2 = [.unit w.flush.2] := ⟨rfl, rfl⟩

/-- a successful flush of a writing-only endpoint: the transport has accepted the whole queue -/
theorem flush_ok_accepted {role : Role} {w : World} {Q : List Frame} {ks : List Mask}
    (h : WSt role w Q ks) (hok : w.flush.2 = .ok ()) : w.flush.1.t.accepted = encodeAll Q := by
  obtain ⟨h1, _, _⟩ := flush_ok_spec h.inv hok
  have hf := (flush_inv h.inv).fifo
  rw [h1, List.append_nil, (flush_WF h.wf).queued] at hf
  exact hf

theorem init_WSt (role : Role) (cfg : Config) (c : Ctx) (hc : Ctx.new role cfg [] = some c)
    (hmaxw : cfg.maxw = usizeMax) (t : Transport)
    (ht : t.accepted = [] ∧ t.log = [] ∧ t.flushedUpTo = 0 ∧ t.rd = []) (ks : List Mask) :
    WSt role { c := c, t := t, mu := ks } [] ks := by
  refine ⟨init_inv _ ⟨role, cfg, [], c, hc, rfl, rfl, ht.1, ht.2.1, ht.2.2.1⟩, ?_⟩
  unfold Ctx.new at hc
  by_cases hv : configValid cfg.maxw cfg.wbuf = true
  · rw [if_pos hv] at hc
    cases hc
    exact ⟨rfl, rfl, rfl, hmaxw, rfl, rfl⟩
  · rw [if_neg hv] at hc; cases hc

end WsProofs.Pipe
