import WsModel.Endpoint
import WsProofs.Props.C18
import WsProofs.Props.C19

/-! Local facts about the write side of `Codec`: `writeLoop`, `writeOutBuffer`, `bufferFrame`. -/
namespace WsProofs.Local
open WsModel WsModel.Gen

/-- the result is not a `WriteBufferFull` error -/
def NoFull {α : Type} (r : Res α) : Prop := ∀ g, r ≠ .err (.writeBufferFull g)

theorem noFull_ok {α : Type} (a : α) : NoFull (Res.ok a) := by intro g h; cases h
theorem noFull_panic {α : Type} (s : PanicSite) : NoFull (Res.panic s : Res α) := by intro g h; cases h
theorem noFull_io {α : Type} (k : IoKind) : NoFull (Res.err (.io k) : Res α) := by intro g h; cases h

theorem writeEv_log (t : Transport) (buf : Bytes) (e : WrEv) :
    (t.writeEv buf e).1.log.length = t.log.length + 1 := by
  unfold Transport.writeEv
  cases e <;> simp

theorem write_log (t : Transport) (buf : Bytes) :
    (t.write buf).1.log.length = t.log.length + 1 := by
  unfold Transport.write
  cases t.wr with
  | nil => dsimp only; rw [writeEv_log]
  | cons e rest => dsimp only; rw [writeEv_log]

theorem writeLoop_spec : ∀ (fuel : Nat) (c : Codec) (t : Transport),
    (∃ k, (Codec.writeLoop fuel c t).1 = { c with outBuf := c.outBuf.drop k }) ∧
    ((Codec.writeLoop fuel c t).2.2 = .ok () → (Codec.writeLoop fuel c t).1.outBuf = []) ∧
    NoFull (Codec.writeLoop fuel c t).2.2 ∧
    t.log.length ≤ (Codec.writeLoop fuel c t).2.1.log.length := by
  intro fuel
  induction fuel with
  | zero =>
    intro c t
    unfold Codec.writeLoop
    by_cases he : c.outBuf.isEmpty = true
    · simp only [he, if_true]
      exact ⟨⟨0, by simp⟩, fun _ => List.isEmpty_iff.mp he, noFull_ok _, Nat.le_refl _⟩
    · simp only [he, Bool.false_eq_true, if_false]
      exact ⟨⟨0, by simp⟩, nofun, noFull_panic _, Nat.le_refl _⟩
  | succ fuel ih =>
    intro c t
    unfold Codec.writeLoop
    by_cases he : c.outBuf.isEmpty = true
    · simp only [he, if_true]
      exact ⟨⟨0, by simp⟩, fun _ => List.isEmpty_iff.mp he, noFull_ok _, Nat.le_refl _⟩
    · simp only [he, Bool.false_eq_true, if_false]
      have hlog := write_log t c.outBuf
      cases hw : t.write c.outBuf with
      | mk t' wr =>
        rw [hw] at hlog
        cases wr with
        | err k =>
          dsimp only
          exact ⟨⟨0, by simp⟩, nofun, noFull_io _, by dsimp only at hlog; omega⟩
        | ok n =>
          dsimp only
          by_cases hn : n = 0
          · simp only [hn, if_true]
            exact ⟨⟨0, by simp⟩, nofun, noFull_io _, by dsimp only at hlog; omega⟩
          · simp only [hn, if_false]
            obtain ⟨⟨k, hk⟩, h2, h3, h4⟩ := ih { c with outBuf := c.outBuf.drop n } t'
            refine ⟨⟨n + k, ?_⟩, h2, h3, ?_⟩
            · rw [hk]; simp only [List.drop_drop]
            · dsimp only at hlog; omega

/-- a non-empty buffer and positive fuel: at least one transport call is made -/
theorem writeLoop_log_strict (fuel : Nat) (c : Codec) (t : Transport) (hne : c.outBuf ≠ []) :
    t.log.length < (Codec.writeLoop (fuel + 1) c t).2.1.log.length := by
  unfold Codec.writeLoop
  have he : ¬ c.outBuf.isEmpty = true := fun h => hne (List.isEmpty_iff.mp h)
  simp only [he, Bool.false_eq_true, if_false]
  have hlog := write_log t c.outBuf
  cases hw : t.write c.outBuf with
  | mk t' wr =>
    rw [hw] at hlog
    dsimp only at hlog
    cases wr with
    | err k => dsimp only; omega
    | ok n =>
      dsimp only
      by_cases hn : n = 0
      · simp only [hn, if_true]; omega
      · simp only [hn, if_false]
        have := (writeLoop_spec fuel { c with outBuf := c.outBuf.drop n } t').2.2.2
        omega

theorem writeOutBuffer_spec (c : Codec) (t : Transport) :
    (∃ k, (c.writeOutBuffer t).1 = { c with outBuf := c.outBuf.drop k }) ∧
    ((c.writeOutBuffer t).2.2 = .ok () → (c.writeOutBuffer t).1.outBuf = []) ∧
    NoFull (c.writeOutBuffer t).2.2 ∧
    t.log.length ≤ (c.writeOutBuffer t).2.1.log.length :=
  writeLoop_spec _ c t

theorem format_length (f : Frame) : f.format.length = f.len := (C18.C18_encoders_agree f []).2

/-- the two outcomes of `Codec.bufferFrame` -/
theorem bufferFrame_full (c : Codec) (t : Transport) (f : Frame)
    (h : f.len + c.outBuf.length > c.maxOut) :
    c.bufferFrame t f = (c, t, .err (.writeBufferFull f)) := by
  unfold Codec.bufferFrame
  rw [if_pos h]

theorem bufferFrame_room (c : Codec) (t : Transport) (f : Frame)
    (h : f.len + c.outBuf.length ≤ c.maxOut) :
    (∃ k, (c.bufferFrame t f).1 = { c with outBuf := (c.outBuf ++ f.format).drop k }) ∧
    NoFull (c.bufferFrame t f).2.2 ∧
    t.log.length ≤ (c.bufferFrame t f).2.1.log.length := by
  unfold Codec.bufferFrame
  rw [if_neg (by omega)]
  dsimp only
  rw [C19.C19_format_into_buf]
  by_cases hw : (c.outBuf ++ f.format).length > c.writeLen
  · rw [if_pos hw]
    obtain ⟨h1, _, h3, h4⟩ := writeOutBuffer_spec { c with outBuf := c.outBuf ++ f.format } t
    exact ⟨h1, h3, h4⟩
  · rw [if_neg hw]
    exact ⟨⟨0, by simp⟩, noFull_ok _, Nat.le_refl _⟩

end WsProofs.Local
