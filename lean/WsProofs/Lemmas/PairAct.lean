import WsProofs.Lemmas.PairInv

/-! Two-party proofs, layer 5: one scheduled action, seen from the acting endpoint `A` (its peer
`O` does not move): what the call may return, what happens to `A`'s invariant, to the direction
`O → A` (`A` as reader) and to the direction `A → O` (`A` as writer). -/
namespace WsProofs.Pair
open WsModel WsModel.Gen WsModel.Spec WsProofs WsProofs.Read WsProofs.Pipe

/-! ### results -/

def Allowed (e : Err) : Prop :=
  e = .connectionClosed ∨ e = .alreadyClosed ∨ (∃ k, e = .io k) ∨
    e = .protocol .sendAfterClosing ∨ (∃ f, e = .writeBufferFull f)

/-- the call did not panic and reported no error of the peer's making -/
def OutOk (o : Out) : Prop := o.isPanic = false ∧ ∀ e, o.err? = some e → Allowed e

theorem outOk_unit_ok (a : Unit) : OutOk (.unit (.ok a)) := ⟨rfl, fun e h => by cases h⟩
theorem outOk_msg_ok (m : Message) : OutOk (.msg (.ok m)) := ⟨rfl, fun e h => by cases h⟩
theorem outOk_unit_err {e : Err} (h : Allowed e) : OutOk (.unit (.err e)) :=
  ⟨rfl, fun e' h' => by cases h'; exact h⟩
theorem outOk_msg_err {e : Err} (h : Allowed e) : OutOk (.msg (.err e)) :=
  ⟨rfl, fun e' h' => by cases h'; exact h⟩

theorem allowed_of_wkind {α : Type} {e : Err} (h : WKind (.err e : Res α)) : Allowed e := by
  rcases h with ⟨a, h⟩ | ⟨k, h⟩ | h
  · cases h
  · injection h with h; exact Or.inr (Or.inr (Or.inl ⟨k, h⟩))
  · injection h with h; exact Or.inl h

/-- every call other than `read` -/
theorem nonread_out (w : World) (op : Op) (hop : Op.noRaw op) (hnr : op ≠ .read) :
    OutOk (w.step op).2 := by
  have hk : ∀ r : Res Unit, WKind r → OutOk (.unit r) := by
    intro r hr
    cases r with
    | ok a => exact outOk_unit_ok a
    | err e => exact outOk_unit_err (allowed_of_wkind hr)
    | panic s => rcases hr with ⟨a, h⟩ | ⟨k, h⟩ | h <;> cases h
  cases op with
  | read => exact absurd rfl hnr
  | flush =>
    show OutOk (.unit w.flush.2)
    by_cases hnt : w.c.state = .terminated
    · rw [terminated_flush w hnt]; exact outOk_unit_err (Or.inr (Or.inl rfl))
    · exact hk _ (flush_FSC hnt).kind
  | close c =>
    show OutOk (.unit (w.close c).2)
    by_cases hnt : w.c.state = .terminated
    · rw [terminated_close w c hnt]; exact outOk_unit_err (Or.inr (Or.inl rfl))
    · obtain ⟨w0, _, _, _, _, _, _, _, F⟩ := close_FSC (w := w) c hnt
      exact hk _ F.kind
  | write m =>
    show OutOk (.unit (w.write m).2)
    by_cases hs : w.c.state = .active
    · cases m with
      | frame f => exact absurd hop (by simp [Op.noRaw])
      | _ =>
        rcases write_active_kind w _ hs with h | ⟨k, h⟩ | ⟨g, h⟩ | h <;> rw [h]
        · exact outOk_unit_ok _
        · exact outOk_unit_err (Or.inr (Or.inr (Or.inl ⟨k, rfl⟩)))
        · exact outOk_unit_err (Or.inr (Or.inr (Or.inr (Or.inr ⟨g, rfl⟩))))
        · exact outOk_unit_err (Or.inl rfl)
    · rcases (write_refused w m hs).2 with h | h <;> rw [h]
      · exact outOk_unit_err (Or.inr (Or.inl rfl))
      · exact outOk_unit_err (Or.inr (Or.inr (Or.inr (Or.inl rfl))))

/-! ### what a call appends to the queue -/

theorem step_queued_ext (w : World) (op : Op) (hI : Inv w) (hop : Op.noRaw op) :
    ∃ l, (w.step op).1.queued = w.queued ++ l := by
  obtain ⟨w0, w1, _, hp, hd, ho⟩ := step_decomp w op hI hop
  obtain ⟨l1, h1⟩ := hd.grow
  have h0 : ∃ l0, w0.queued = w.queued ++ l0 := by
    cases hp with
    | same _ hq => exact ⟨[], by rw [hq]; simp⟩
    | close c _ _ _ hq => exact ⟨[], by rw [hq]; simp⟩
    | pong d _ _ _ _ hq => exact ⟨[], by rw [hq]; simp⟩
    | data f f' _ _ _ hq => exact ⟨[f'], hq⟩
  obtain ⟨l0, h0⟩ := h0
  exact ⟨l0 ++ l1, by rw [ho.queued, h1, h0, List.append_assoc]⟩

/-- was the message taken (queued), as far as the caller can tell -/
def taken (o : Out) : Bool :=
  match o with
  | .unit (.ok _) => true
  | .unit (.err (.io _)) => true
  | _ => false

/-- the data message a call queued -/
def dataWrittenOf (op : Op) (o : Out) : List Message :=
  match op with
  | .write (.text d) => if taken o then [.text d] else []
  | .write (.binary d) => if taken o then [.binary d] else []
  | _ => []

theorem dataOfFrames_slot {l : List Frame} (h : ∀ g ∈ l, (g.isPong = true ∨ g.isClose = true)) :
    dataOfFrames l = [] := by
  unfold dataOfFrames
  rw [List.filterMap_eq_nil_iff]
  intro g hg
  unfold dataMsg
  rcases h g hg with h | h
  · have : g.header.opcode = .control .pong := by
      unfold Frame.isPong at h; simpa using h
    rw [this]
  · have : g.header.opcode = .control .close := by
      unfold Frame.isClose at h; simpa using h
    rw [this]

theorem dataOfFrames_qext {q q' : List Frame} (h : QExt q q') :
    dataOfFrames q' = dataOfFrames q := by
  obtain ⟨l, rfl, hl⟩ := h
  rw [dataOfFrames_append, dataOfFrames_slot hl, List.append_nil]

theorem taken_iff (r : Res Unit) :
    taken (.unit r) = true ↔ (r = .ok () ∨ ∃ k, r = .err (.io k)) := by
  constructor
  · intro h
    cases r with
    | ok a => cases a; exact Or.inl rfl
    | panic s => cases h
    | err e => cases e <;> first | exact Or.inr ⟨_, rfl⟩ | cases h
  · intro h
    rcases h with h | ⟨k, h⟩ <;> rw [h] <;> rfl

/-- the user data a `write` of a data frame queues: the frame iff the call reported Ok or a
transport error -/
theorem writeData_written (w : World) (f : Frame) (hI : Inv w) (hs : w.c.state = .active) :
    dataOfFrames (w.writeData f).1.queued =
      dataOfFrames w.queued ++
        (if taken (.unit (w.writeData f).2) then (dataMsg f).toList else []) := by
  have D := writeData_spec w f hs
  obtain ⟨f', hsk, hcase⟩ := D.queue hI.slotOk
  have hdm : dataMsg f' = dataMsg f := by
    unfold dataMsg
    rw [hsk.1, hsk.2.1]
  rcases hcase with ⟨hr, hq⟩ | ⟨hr, l, hq, hl⟩
  · have : taken (.unit (w.writeData f).2) = false := by rw [hr]; rfl
    rw [this, hq]
    simp
  · have : taken (.unit (w.writeData f).2) = true := (taken_iff _).mpr hr
    rw [this, hq, dataOfFrames_append, dataOfFrames_append, dataOfFrames_slot hl, List.append_nil]
    simp only [if_true]
    congr 1
    unfold dataOfFrames
    rw [List.filterMap_cons, hdm]
    cases dataMsg f <;> rfl

theorem step_written (w : World) (op : Op) (hI : Inv w) (hop : Op.noRaw op) :
    dataOfFrames (w.step op).1.queued =
      dataOfFrames w.queued ++ dataWrittenOf op (w.step op).2 := by
  have other : (∀ d, op ≠ .write (.text d) ∧ op ≠ .write (.binary d) ∧ op ≠ .write (.ping d)) →
      dataWrittenOf op (w.step op).2 = [] →
      dataOfFrames (w.step op).1.queued = dataOfFrames w.queued ++ dataWrittenOf op (w.step op).2 := by
    intro hnd he
    rw [he, List.append_nil]
    exact dataOfFrames_qext (step_qext w op hI hop hnd)
  cases op with
  | read => exact other (fun d => ⟨by simp, by simp, by simp⟩) rfl
  | flush => exact other (fun d => ⟨by simp, by simp, by simp⟩) rfl
  | close c => exact other (fun d => ⟨by simp, by simp, by simp⟩) rfl
  | write m =>
    by_cases hs : w.c.state = .active
    · obtain ⟨e1, e2, e3⟩ := write_data_eq w hs
      cases m with
      | text d =>
        show dataOfFrames (w.write (.text d)).1.queued =
          dataOfFrames w.queued ++ (if taken (.unit (w.write (.text d)).2) then [.text d] else [])
        rw [e1 d]
        exact writeData_written w _ hI hs
      | binary d =>
        show dataOfFrames (w.write (.binary d)).1.queued =
          dataOfFrames w.queued ++ (if taken (.unit (w.write (.binary d)).2) then [.binary d] else [])
        rw [e2 d]
        exact writeData_written w _ hI hs
      | ping d =>
        show dataOfFrames (w.write (.ping d)).1.queued = dataOfFrames w.queued ++ []
        rw [e3 d, writeData_written w _ hI hs]
        congr 1
        by_cases ht : taken (.unit (w.writeData (Frame.ping d)).2) = true
        · rw [if_pos ht]; rfl
        · rw [if_neg ht]
      | pong d => exact other (fun d' => ⟨by simp, by simp, by simp⟩) rfl
      | close c => exact other (fun d' => ⟨by simp, by simp, by simp⟩) rfl
      | frame f => exact absurd hop (by simp [Op.noRaw])
    · have hw := write_refused w m hs
      have hq : (w.step (.write m)).1.queued = w.queued := by
        show (w.write m).1.queued = _
        rw [hw.1]
      have ht : taken (w.step (.write m)).2 = false := by
        show taken (.unit (w.write m).2) = false
        rcases hw.2 with h | h <;> rw [h] <;> rfl
      rw [hq]
      cases m with
      | text d =>
        show _ = _ ++ (if taken (w.step (.write (.text d))).2 then [Message.text d] else [])
        rw [ht]; simp
      | binary d =>
        show _ = _ ++ (if taken (w.step (.write (.binary d))).2 then [Message.binary d] else [])
        rw [ht]; simp
      | ping d => exact (List.append_nil _).symm
      | pong d => exact (List.append_nil _).symm
      | close c => exact (List.append_nil _).symm
      | frame f => exact (List.append_nil _).symm

end WsProofs.Pair
