import WsModel.ReadAll
import WsProofs.Lemmas.GlobalSlot
import WsProofs.Lemmas.LocalWorld

/-! Progress of the write side over a transport whose outbound half accepts everything
(`Transport.acceptsAll`): every transport write takes the whole buffer, every transport flush
succeeds, hence `writeOutBuffer` drains the buffer, the pending slot is emptied by one `flush`
(at the latest by its retry), and a server that may no longer read terminates inside that flush.
Used by the liveness half of C04 (`Props/C04Progress.lean`). -/
namespace WsProofs.Progress
open WsModel WsModel.Gen WsProofs

/-! ### `andThen` on explicit results -/

theorem andThen_ok_eq {α β : Type} (w : World) (a : α) (k : World → α → World × Res β) :
    andThen (w, .ok a) k = k w a := rfl

theorem andThen_err_eq {α β : Type} (w : World) (e : Err) (k : World → α → World × Res β) :
    andThen ((w, .err e) : World × Res α) k = (w, .err e) := rfl

theorem pair_eq_of_snd {α β : Type} (x : α × β) (b : β) (h : x.2 = b) : x = (x.1, b) := by
  rw [← h]

/-! ### the transport -/

theorem Transport.write_acc (t : Transport) (buf : Bytes) (ha : t.acceptsAll) :
    (t.write buf).2 = .ok (min (2 ^ 64) buf.length) ∧ (t.write buf).1.acceptsAll := by
  obtain ⟨rd, wr, fl, rdDef, wrDef, flDef, accepted, flushedUpTo, log, exhausted⟩ := t
  obtain ⟨h1, h2, h3, h4⟩ := ha
  dsimp only at h1 h2 h3 h4
  subst h1 h2 h3 h4
  exact ⟨rfl, rfl, rfl, rfl, rfl⟩

theorem Transport.flush_acc (t : Transport) (ha : t.acceptsAll) :
    (t.flush).2 = .ok ∧ (t.flush).1.acceptsAll := by
  obtain ⟨rd, wr, fl, rdDef, wrDef, flDef, accepted, flushedUpTo, log, exhausted⟩ := t
  obtain ⟨h1, h2, h3, h4⟩ := ha
  dsimp only at h1 h2 h3 h4
  subst h1 h2 h3 h4
  exact ⟨rfl, rfl, rfl, rfl, rfl⟩

/-! ### the codec -/

theorem Codec.writeLoop_acc (fuel : Nat) (c : Codec) (t : Transport) (hf : c.outBuf.length ≤ fuel)
    (ha : t.acceptsAll) :
    (Codec.writeLoop fuel c t).2.2 = .ok () ∧ (Codec.writeLoop fuel c t).2.1.acceptsAll := by
  induction fuel generalizing c t with
  | zero =>
    have he : c.outBuf = [] := List.eq_nil_of_length_eq_zero (Nat.le_zero.mp hf)
    have hE : c.outBuf.isEmpty = true := by rw [he]; rfl
    unfold Codec.writeLoop
    rw [if_pos hE]
    exact ⟨rfl, ha⟩
  | succ fuel ih =>
    by_cases hE : c.outBuf.isEmpty = true
    · unfold Codec.writeLoop
      rw [if_pos hE]
      exact ⟨rfl, ha⟩
    · have hne : c.outBuf ≠ [] := fun h => hE (by simp [h])
      have hpos : 0 < c.outBuf.length := List.length_pos_iff.mpr hne
      obtain ⟨hw, hacc⟩ := Transport.write_acc t c.outBuf ha
      simp only [Codec.writeLoop, hE]
      cases hx : t.write c.outBuf with
      | mk t1 r =>
        rw [hx] at hw hacc
        dsimp only at hw hacc
        subst hw
        have hn : min (2 ^ 64) c.outBuf.length ≠ 0 := by
          have : 0 < 2 ^ 64 := Nat.two_pow_pos 64
          omega
        simp only [hn, if_false, Bool.false_eq_true]
        exact ih { c with outBuf := c.outBuf.drop (min (2 ^ 64) c.outBuf.length) } t1
          (by simp only [List.length_drop]; omega) hacc

theorem Codec.writeOutBuffer_acc (c : Codec) (t : Transport) (ha : t.acceptsAll) :
    (c.writeOutBuffer t).2.2 = .ok () ∧ (c.writeOutBuffer t).2.1.acceptsAll :=
  Codec.writeLoop_acc _ c t (Nat.le_refl _) ha

theorem Codec.bufferFrame_acc (c : Codec) (t : Transport) (f : Frame) (ha : t.acceptsAll) :
    (c.bufferFrame t f).2.1.acceptsAll ∧
    ((c.bufferFrame t f).2.2 = .ok () ∨ (c.bufferFrame t f).2.2 = .err (.writeBufferFull f)) := by
  unfold Codec.bufferFrame
  by_cases hfull : f.len + c.outBuf.length > c.maxOut
  · rw [if_pos hfull]
    exact ⟨ha, Or.inr rfl⟩
  · rw [if_neg hfull]
    dsimp only
    by_cases hw : (f.formatIntoBuf c.outBuf).length > c.writeLen
    · rw [if_pos hw]
      obtain ⟨h1, h2⟩ := Codec.writeOutBuffer_acc { c with outBuf := f.formatIntoBuf c.outBuf } t ha
      exact ⟨h2, Or.inl h1⟩
    · rw [if_neg hw]
      exact ⟨ha, Or.inl rfl⟩

/-! ### the `World`-level primitives -/

theorem writeOutBuffer_acc (w : World) (ha : w.t.acceptsAll) :
    ∃ w', w.writeOutBuffer = (w', .ok ()) ∧ WOSpec w w' (.ok ()) ∧ w'.t.acceptsAll := by
  have S := World.writeOutBuffer_spec w
  have A : w.writeOutBuffer.2 = .ok () ∧ w.writeOutBuffer.1.t.acceptsAll := by
    unfold World.writeOutBuffer
    have h := Codec.writeOutBuffer_acc w.c.codec w.t ha
    generalize w.c.codec.writeOutBuffer w.t = q at *
    obtain ⟨c1, t1, r⟩ := q
    exact h
  rw [A.1] at S
  exact ⟨w.writeOutBuffer.1, pair_eq_of_snd _ _ A.1, S, A.2⟩

theorem streamFlush_acc (w : World) (ha : w.t.acceptsAll) :
    ∃ w', w.streamFlush = (w', .ok ()) ∧ SFSpec w w' (.ok ()) ∧ w'.t.acceptsAll := by
  have S := World.streamFlush_spec w
  have A : w.streamFlush.2 = .ok () ∧ w.streamFlush.1.t.acceptsAll := by
    unfold World.streamFlush
    have h := Transport.flush_acc w.t ha
    generalize w.t.flush = q at *
    obtain ⟨t1, e⟩ := q
    obtain ⟨h1, h2⟩ := h
    dsimp only at h1 h2
    subst h1
    exact ⟨rfl, h2⟩
  rw [A.1] at S
  exact ⟨w.streamFlush.1, pair_eq_of_snd _ _ A.1, S, A.2⟩

theorem bufferFrame_acc (w : World) (f : Frame) (ha : w.t.acceptsAll) :
    (w.bufferFrame f).1.t.acceptsAll ∧
    ((w.bufferFrame f).2 = .ok () ∨ ∃ g, (w.bufferFrame f).2 = .err (.writeBufferFull g)) := by
  rw [bufferFrame_eq]
  obtain ⟨_, hpt, _, _⟩ := maskStep_spec w f
  generalize maskStep w f = p at *
  obtain ⟨w0, f'⟩ := p
  dsimp only at hpt ⊢
  have hcb := Codec.bufferFrame_acc w0.c.codec w0.t f' (by rw [hpt]; exact ha)
  generalize w0.c.codec.bufferFrame w0.t f' = q at *
  obtain ⟨c1, t1, r⟩ := q
  dsimp only at hcb ⊢
  obtain ⟨h1, h2 | h2⟩ := hcb
  · subst h2
    exact ⟨h1, Or.inl rfl⟩
  · subst h2
    exact ⟨h1, Or.inr ⟨f', rfl⟩⟩

theorem writeSlot_acc (w : World) (ha : w.t.acceptsAll) :
    w.writeSlot.1.t.acceptsAll ∧ ∃ b, w.writeSlot.2 = .ok b := by
  unfold World.writeSlot
  cases hadd : w.c.additional with
  | none => exact ⟨ha, _, rfl⟩
  | some msg =>
    dsimp only
    have h := bufferFrame_acc (w.setAdditionalRaw none) msg ha
    generalize (w.setAdditionalRaw none).bufferFrame msg = x at *
    obtain ⟨w1, r⟩ := x
    dsimp only at h
    obtain ⟨h1, h2 | ⟨g, h2⟩⟩ := h
    · subst h2
      exact ⟨h1, _, rfl⟩
    · subst h2
      dsimp only
      refine ⟨?_, _, rfl⟩
      rw [(setAdditional_fields w1 g).2.2.1]
      exact h1

end WsProofs.Progress
