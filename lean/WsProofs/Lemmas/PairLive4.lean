import WsProofs.Lemmas.PairLive3

/-! Two-party liveness, layer 4: one side's turn of the fair driver — a `flush`, then enough
`read`s — ends in `Fin` (`drive_turn`). -/
namespace WsProofs.Pair
open WsModel WsModel.Gen WsModel.Spec WsProofs WsProofs.Read WsProofs.Pipe WsProofs.Progress

/-- several actions of the side `A` -/
def HP.run (h : HP) : List Action → HP × List Out
  | [] => (h, [])
  | a :: as => ((h.step a).1.run as |>.1, (h.step a).2 :: ((h.step a).1.run as).2)

/-- what a sequence of steps of the fair driver guarantees -/
structure Multi (rA rO : Role) (h : HP) (nIn nOut : Nat) (h' : HP) (nIn' : Nat) (outs : List Out) :
    Prop where
  j : JH rA rO h' nIn' nOut
  O_eq : h'.O = h.O
  oD_eq : h'.oD = h.oD
  mono : nIn ≤ nIn'
  cnt : h'.A.queued.length + slotN h'.A + nIn ≤ h.A.queued.length + slotN h.A + nIn'
  clean : h'.aD = false → Clean h'.A
  ccA : ∀ o ∈ outs, o.isConnectionClosed = true → rA = .client → h.oD = true
  dropped : h'.aD = true → h.aD = true ∨ ∃ o ∈ outs, o.isConnectionClosed = true

theorem Multi.refl {rA rO : Role} {h : HP} {nIn nOut : Nat} (j : JH rA rO h nIn nOut)
    (hcl : h.aD = false → Clean h.A) : Multi rA rO h nIn nOut h nIn [] :=
  ⟨j, rfl, rfl, Nat.le_refl _, Nat.le_refl _, hcl, (fun o ho => by cases ho), fun hd => Or.inl hd⟩

theorem Multi.cons {rA rO : Role} {h : HP} {nIn nOut : Nat} {a : Action} {n1 : Nat}
    (L : LiveRes rA rO h nIn nOut a n1) {h' : HP} {n2 : Nat} {outs : List Out}
    (M : Multi rA rO (h.step a).1 n1 nOut h' n2 outs) :
    Multi rA rO h nIn nOut h' n2 ((h.step a).2 :: outs) := by
  refine ⟨M.j, M.O_eq, M.oD_eq, Nat.le_trans L.mono M.mono, ?_, M.clean, ?_, ?_⟩
  · have h1 := L.cnt
    have h2 := M.cnt
    have h3 := L.mono
    have h4 := M.mono
    omega
  · intro o ho hc hr
    rcases List.mem_cons.mp ho with rfl | ho
    · exact L.ccA hc hr
    · exact M.ccA o ho hc hr
  · intro hd
    rcases M.dropped hd with h1 | ⟨o, ho, hc⟩
    · rcases L.dropped h1 with h2 | h2
      · exact Or.inl h2
      · exact Or.inr ⟨_, List.mem_cons_self .., h2⟩
    · exact Or.inr ⟨o, List.mem_cons_of_mem _ ho, hc⟩

/-- enough `read`s reach `Fin` -/
theorem reads_loop {rA rO : Role} {nOut : Nat} : ∀ (as : List Action) (h : HP) (nIn : Nat),
    JH rA rO h nIn nOut → (h.aD = false → Clean h.A) → (Fin h ∨ bound h nIn ≤ as.length) →
    (∀ a ∈ as, Full a ∧ a.op = .read) →
    ∃ nIn', Multi rA rO h nIn nOut (h.run as).1 nIn' (h.run as).2 ∧ Fin (h.run as).1 := by
  intro as
  induction as with
  | nil =>
    intro h nIn j hcl hb _
    refine ⟨nIn, Multi.refl j hcl, ?_⟩
    rcases hb with hF | hb
    · exact hF
    · exfalso
      unfold bound at hb
      have : 1 ≤ (if h.oD = true ∧ h.pin = [] then 1 else 2) := by split <;> omega
      simp only [List.length_nil] at hb
      omega
  | cons a as ih =>
    intro h nIn j hcl hb hall
    obtain ⟨hf, hop⟩ := hall a (List.mem_cons_self ..)
    obtain ⟨n1, L, hF1, hF2⟩ := live_read j hcl a hf hop
    have hb1 : Fin (h.step a).1 ∨ bound (h.step a).1 n1 ≤ as.length := by
      by_cases hF : Fin h
      · exact Or.inl (hF1 hF)
      · rcases hF2 hF with h1 | h1
        · exact Or.inl h1
        · rcases hb with hb | hb
          · exact absurd hb hF
          · right
            simp only [List.length_cons] at hb
            omega
    obtain ⟨n2, M, hFin⟩ := ih (h.step a).1 n1 L.j L.clean hb1
      (fun b hb' => hall b (List.mem_cons_of_mem _ hb'))
    exact ⟨n2, Multi.cons L M, hFin⟩

/-- one side's turn of the fair driver: a `flush`, then `reads` reads -/
def turn (who : Side) (reads : Nat) : List Action :=
  fullAction who .flush :: List.replicate reads (fullAction who .read)

theorem drive_turn {rA rO : Role} {h : HP} {nIn nOut : Nat} (j : JH rA rO h nIn nOut)
    (hd : h.aD = false) (who : Side) (reads : Nat)
    (hr : (h.O.queued.length - nIn) + 2 ≤ reads) :
    ∃ nIn', Multi rA rO h nIn nOut (h.run (turn who reads)).1 nIn' (h.run (turn who reads)).2 ∧
      Fin (h.run (turn who reads)).1 := by
  have L := live_flush j hd (fullAction who .flush) (full_fullAction _ _) rfl
  have hb : Fin (h.step (fullAction who .flush)).1 ∨
      bound (h.step (fullAction who .flush)).1 nIn ≤ (List.replicate reads (fullAction who .read)).length := by
    right
    rw [List.length_replicate]
    unfold bound
    rw [HP.step_O]
    have : (if (h.step (fullAction who .flush)).1.oD = true ∧
        (h.step (fullAction who .flush)).1.pin = [] then 1 else 2) ≤ 2 := by split <;> omega
    omega
  obtain ⟨n2, M, hFin⟩ := reads_loop (List.replicate reads (fullAction who .read))
    (h.step (fullAction who .flush)).1 nIn L.j L.clean hb
    (fun b hb' => by rw [List.eq_of_mem_replicate hb']; exact ⟨full_fullAction _ _, rfl⟩)
  exact ⟨n2, Multi.cons L M, hFin⟩

/-- in `Fin` with a peer that buffers nothing, every frame of the peer has been consumed -/
theorem fin_all_consumed {rA rO : Role} {h : HP} {nIn nOut : Nat} (j : JH rA rO h nIn nOut)
    (hF : Fin2 h) (hnt : h.A.c.state ≠ .terminated) (hO : h.O.c.codec.outBuf = []) :
    nIn = h.O.queued.length := by
  obtain ⟨_, hp, _, _, B0, hB0, hs0⟩ := hF
  obtain ⟨⟨B, hrep, hB⟩, _⟩ := j.din hnt
  have hsB : shot usizeMax B = .needMore := rep_needMore usizeMax hB0 hrep hs0
  rw [hp, hO, List.append_nil, List.append_nil] at hB
  have hl : ∀ f ∈ h.O.queued.drop nIn, Legit rO f :=
    fun f hf => j.wo.legit f (List.mem_of_mem_drop hf)
  rcases shot_stream _ hl B [] (by rw [List.append_nil]; exact hB) with ⟨_, h2⟩ | ⟨f, fs', rest, _, h1, _⟩
  · have := List.drop_eq_nil_iff.mp (h2 rfl)
    have := j.lin
    omega
  · rw [hsB] at h1; cases h1

end WsProofs.Pair
