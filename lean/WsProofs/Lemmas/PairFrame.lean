import WsProofs.Lemmas.PairBasic
import WsProofs.Lemmas.PipeSpec
import WsProofs.Props.C09
import WsProofs.Lemmas.GlobalPanic

/-! Two-party proofs, layer 1: frames. The payload conditions a correct endpoint's frames satisfy
(`PayOk`, independent of the mask), what the reader makes of the wire image of one legitimate frame
(`frameRes_legit`, `shot_legit'`) and what `onFrame` does with it (`onFrame_legit`). -/
namespace WsProofs.Pair
open WsModel WsModel.Gen WsModel.Spec WsProofs WsProofs.Read WsProofs.Pipe

/-! ### payload conditions -/

def ClosePayOk (p : Bytes) : Prop :=
  p = [] ∨ ∃ a b reason, p = a :: b :: reason ∧ Spec.WellFormed reason

/-- the payload conditions of `Pipe.Legit` (everything that does not depend on the mask) -/
def PayOk (f : Frame) : Prop :=
  f.payload.length < 2 ^ 63 ∧
  (f.header.opcode = .data .text → Spec.WellFormed f.payload) ∧
  (f.header.opcode = .control .ping → f.payload.length ≤ 125) ∧
  (f.header.opcode = .control .pong → f.payload.length ≤ 125) ∧
  (f.header.opcode = .control .close → f.payload.length ≤ 125 ∧ ClosePayOk f.payload)

theorem PayOk.of_sameKind {f f' : Frame} (hp : PayOk f) (h : SameKind f f') : PayOk f' := by
  obtain ⟨h1, h2, _⟩ := h
  unfold PayOk
  rw [h1, h2]
  exact hp

theorem legit_of {r : Role} {f : Frame} (hw : C09.WfFrame r f) (hp : PayOk f) : Legit r f := by
  obtain ⟨w1, w2, w3, w4, wo, wm⟩ := hw
  obtain ⟨p0, p1, p2, p3, p4⟩ := hp
  refine ⟨w1, w2, w3, w4, wm, p0, ?_⟩
  rcases wo with ho | ho | ho | ho | ho
  · exact Or.inl ⟨ho, p1 ho⟩
  · exact Or.inr (Or.inl ho)
  · exact Or.inr (Or.inr (Or.inl ⟨ho, p2 ho⟩))
  · exact Or.inr (Or.inr (Or.inr (Or.inl ⟨ho, p3 ho⟩)))
  · exact Or.inr (Or.inr (Or.inr (Or.inr ⟨ho, (p4 ho).1, (p4 ho).2⟩)))

theorem wf_pvr : Spec.WellFormed protocolViolationReason :=
  (C08.C08_wellFormedB_iff _).mp (by decide)

theorem beBytes2 (n : Nat) : ∃ a b, beBytes 2 n = [a, b] := ⟨_, _, rfl⟩

theorem payOk_close_none : PayOk (Frame.close none) :=
  ⟨by decide, (fun h => by cases h), (fun h => by cases h), (fun h => by cases h),
    fun _ => ⟨by decide, Or.inl rfl⟩⟩

theorem payOk_close_some (cf : CloseFrame) (hr : Spec.WellFormed cf.reason)
    (hl : cf.reason.length ≤ 123) : PayOk (Frame.close (some cf)) := by
  obtain ⟨a, b, hab⟩ := beBytes2 (closeCodeToU16 cf.code)
  have hp : (Frame.close (some cf)).payload = a :: b :: cf.reason := by
    show beBytes 2 (closeCodeToU16 cf.code) ++ cf.reason = _
    rw [hab]; rfl
  have hlen : (Frame.close (some cf)).payload.length ≤ 125 := by
    rw [hp]; simp only [List.length_cons]; omega
  refine ⟨by omega, (fun h => by cases h), (fun h => by cases h), (fun h => by cases h),
    fun _ => ⟨hlen, Or.inr ⟨a, b, cf.reason, hp, hr⟩⟩⟩

theorem payOk_pong (d : Bytes) (h : d.length ≤ 125) : PayOk (Frame.pong d) :=
  ⟨by show d.length < _; omega, (fun h => by cases h), (fun h => by cases h), fun _ => h,
    (fun h => by cases h)⟩

theorem payOk_ping (d : Bytes) (h : d.length ≤ 125) : PayOk (Frame.ping d) :=
  ⟨by show d.length < _; omega, (fun h => by cases h), fun _ => h, (fun h => by cases h),
    (fun h => by cases h)⟩

theorem payOk_text (d : Bytes) (h : Spec.WellFormed d) (hl : d.length < 2 ^ 62) :
    PayOk (Frame.message d (.data .text) true) :=
  ⟨by show d.length < _; omega, fun _ => h, (fun h => by cases h), (fun h => by cases h),
    (fun h => by cases h)⟩

theorem payOk_binary (d : Bytes) (hl : d.length < 2 ^ 62) :
    PayOk (Frame.message d (.data .binary) true) :=
  ⟨by show d.length < _; omega, (fun h => by cases h), (fun h => by cases h), (fun h => by cases h),
    (fun h => by cases h)⟩

/-! ### the reader's view of a legitimate frame -/

/-- the frame as `read_frame` hands it to `read_message_frame`: unmasked, mask key dropped -/
def viewOf (f : Frame) : Frame := { header := { f.header with mask := none }, payload := f.payload }

theorem frameRes_legit {sender : Role} {f : Frame} (hf : Legit sender f) (au : Bool) :
    frameRes f.header (wirePayload f) (peerOf sender == .server) au = .ok (some (viewOf f)) := by
  have hm := hf.2.2.2.2.1
  cases sender with
  | client =>
    have hs := hm.mp rfl
    cases hk : f.header.mask with
    | none => rw [hk] at hs; cases hs
    | some k =>
      have hb : (peerOf .client == Role.server) = true := rfl
      unfold frameRes wirePayload
      rw [hb, hk]
      simp only [if_true]
      rw [C19.C19_involution]
      rfl
  | server =>
    have hk : f.header.mask = none := by
      cases hk : f.header.mask with
      | none => rfl
      | some k => rw [hk] at hm; exact absurd (hm.mpr rfl) (by intro h; cases h)
    have hb : (peerOf .server == Role.server) = false := rfl
    unfold frameRes wirePayload viewOf
    rw [hb, hk]
    simp only [Bool.false_eq_true, if_false]
    obtain ⟨hd, pl⟩ := f
    obtain ⟨fin, r1, r2, r3, op, mk⟩ := hd
    dsimp only at hk
    subst hk
    rfl

/-- the next frame of a stream that is a prefix of the image of a legitimate frame followed by `E` -/
theorem shot_legit' {sender : Role} {f : Frame} (hf : Legit sender f) (S T E : Bytes)
    (h : S ++ T = f.format ++ E) :
    (S.length < f.format.length ∧ shot usizeMax S = .needMore) ∨
    (∃ rest, shot usizeMax S = .frame f.header (wirePayload f) rest ∧ rest ++ T = E) := by
  have hv := hf.opcode_ok
  have hlen := hf.len_lt
  have hle : f.payload.length ≤ usizeMax := by unfold usizeMax; omega
  have hS : S = (f.format ++ E).take S.length := by
    rw [← h, List.take_left']
    rfl
  by_cases hn : S.length < f.format.length
  · left
    refine ⟨hn, ?_⟩
    rw [hS, List.take_append_of_le_length (Nat.le_of_lt hn)]
    exact shot_proper_prefix usizeMax f hv (by omega) hle _ hn
  · right
    have ht : (f.format ++ E).take S.length = f.format ++ E.take (S.length - f.format.length) := by
      rw [List.take_append, List.take_of_length_le (by omega)]
    refine ⟨E.take (S.length - f.format.length), ?_, ?_⟩
    · exact (congrArg (shot usizeMax) (hS.trans ht)).trans
        (shot_format usizeMax f _ hv (by omega) hle)
    · have h2 : (f.format ++ E.take (S.length - f.format.length)) ++ T = f.format ++ E := by
        rw [← ht, ← hS]; exact h
      rw [List.append_assoc] at h2
      exact List.append_cancel_left h2

/-! ### `onFrame` on a legitimate frame -/

/-- what `read_message_frame` does with a legitimate frame while reading is still allowed -/
structure OnFrameOut (w : World) (g : Frame) (w' : World) (m : Message) : Prop where
  t : w'.t = w.t
  codec : w'.c.codec = w.c.codec
  role : w'.c.role = w.c.role
  cfg : w'.c.cfg = w.c.cfg
  queued : w'.queued = w.queued
  incomplete : w'.c.incomplete = none
  unflushed : w'.c.unflushed = w.c.unflushed
  text : g.header.opcode = .data .text → m = .text g.payload
  binary : g.header.opcode = .data .binary → m = .binary g.payload
  ctl : ∀ k, g.header.opcode = .control k → (∀ d, m ≠ .text d) ∧ (∀ d, m ≠ .binary d)
  closeMsg : g.isClose = true → ∃ c, m = .close c
  stateClose : g.isClose = true → w'.c.state.closeReceived = true
  stateOther : g.isClose = false → w'.c.state = w.c.state
  slotSame : w.c.state ≠ .active → w'.c.additional = w.c.additional
  slot : w'.c.additional = w.c.additional ∨ ∃ g', w'.c.additional = some g' ∧ PayOk g' ∧
    C09.WfSlot w.c.role g'
  closeSlot : g.isClose = true → w.c.state = .active → Pongy w →
    ∃ g', w'.c.additional = some g' ∧ g'.isClose = true

theorem canRead_cases {s : WsState} (h : s.canRead = true) : s = .active ∨ s = .closedByUs := by
  cases s <;> first | exact Or.inl rfl | exact Or.inr rfl | cases h

theorem payOk_closeReply (c : Option CloseFrame)
    (hc : ∀ cf, c = some cf → Spec.WellFormed cf.reason ∧ cf.reason.length ≤ 123) :
    PayOk (Frame.close (c.map fun cf =>
      if (!closeCodeIsAllowed cf.code) = true then
        { code := .protocol, reason := protocolViolationReason } else cf)) := by
  cases c with
  | none => exact payOk_close_none
  | some cf =>
    obtain ⟨h1, h2⟩ := hc cf rfl
    show PayOk (Frame.close (some (if (!closeCodeIsAllowed cf.code) = true then
        { code := .protocol, reason := protocolViolationReason } else cf)))
    by_cases ha : (!closeCodeIsAllowed cf.code) = true
    · rw [if_pos ha]
      exact payOk_close_some _ wf_pvr (by decide)
    · rw [if_neg ha]
      exact payOk_close_some _ h1 h2

theorem doClose_legit (w : World) (c : Option CloseFrame) (hcan : w.c.state.canRead = true)
    (hc : ∀ cf, c = some cf → Spec.WellFormed cf.reason ∧ cf.reason.length ≤ 123) :
    ∃ w' y, w.doClose c = (w', .ok (some y)) ∧ w'.t = w.t ∧ w'.c.codec = w.c.codec ∧
      w'.c.role = w.c.role ∧ w'.c.cfg = w.c.cfg ∧ w'.queued = w.queued ∧
      w'.c.incomplete = w.c.incomplete ∧ w'.c.unflushed = w.c.unflushed ∧
      w'.c.state.closeReceived = true ∧
      (w.c.state ≠ .active → w'.c.additional = w.c.additional) ∧
      (w'.c.additional = w.c.additional ∨ ∃ g', w'.c.additional = some g' ∧ PayOk g' ∧
        C09.WfSlot w.c.role g') ∧
      (w.c.state = .active → Pongy w → ∃ g', w'.c.additional = some g' ∧ g'.isClose = true) := by
  unfold World.doClose
  rcases canRead_cases hcan with hs | hs
  · rw [hs]
    dsimp only
    obtain ⟨f1, f2, f3, f4, f5, f6, f7⟩ := setAdditional_fields (w.setState .closedByPeer)
      (Frame.close (c.map fun cf =>
        if (!closeCodeIsAllowed cf.code) = true then
          { code := .protocol, reason := protocolViolationReason } else cf))
    have hinc : ((w.setState .closedByPeer).setAdditional (Frame.close (c.map fun cf =>
        if (!closeCodeIsAllowed cf.code) = true then
          { code := .protocol, reason := protocolViolationReason } else cf))).c.incomplete =
        w.c.incomplete := setAdditional_incomplete _ _
    refine ⟨_, _, rfl, f3, f5, f2, f6, f4, hinc, f7, by rw [f1]; rfl,
      fun h => absurd rfl h, ?_, ?_⟩
    · rcases setAdditional_slot (w.setState .closedByPeer) (Frame.close (c.map fun cf =>
        if (!closeCodeIsAllowed cf.code) = true then
          { code := .protocol, reason := protocolViolationReason } else cf)) with h | ⟨_, h⟩
      · exact Or.inl h
      · exact Or.inr ⟨_, h, payOk_closeReply c hc, C09.wfSlot_close _ _⟩
    · intro _ hp
      exact ⟨_, setAdditional_pongy (w := w.setState .closedByPeer) hp _, rfl⟩
  · rw [hs]
    dsimp only
    exact ⟨_, _, rfl, rfl, rfl, rfl, rfl, rfl, rfl, rfl, rfl, fun _ => rfl, Or.inl rfl,
      fun h => by cases h⟩

theorem onFrame_legit {sender : Role} {f : Frame} (hf : Legit sender f) (w : World)
    (hcan : w.c.state.canRead = true) (hinc : w.c.incomplete = none)
    (hmm : w.c.cfg.maxMsg = none) :
    ∃ w' m, w.onFrame (viewOf f) = (w', .ok (some m)) ∧ OnFrameOut w (viewOf f) w' m := by
  obtain ⟨hfin, h1, h2, h3, _, hlen, hop⟩ := hf
  unfold World.onFrame
  rw [if_neg (by rw [hcan]; decide)]
  have hr : ¬ ((viewOf f).header.rsv1 = true ∨ (viewOf f).header.rsv2 = true ∨
      (viewOf f).header.rsv3 = true) := by
    show ¬ (f.header.rsv1 = true ∨ f.header.rsv2 = true ∨ f.header.rsv3 = true)
    rw [h1, h2, h3]; simp
  rw [if_neg hr]
  have hmk : ¬ (w.c.role = .client ∧ (viewOf f).header.mask.isSome = true) := by
    intro ⟨_, h⟩; cases h
  rw [if_neg hmk]
  have hopv : (viewOf f).header.opcode = f.header.opcode := rfl
  have hfinv : (viewOf f).header.fin = true := hfin
  have hplv : (viewOf f).payload = f.payload := rfl
  rcases hop with ⟨ho, hwf⟩ | ho | ⟨ho, hl⟩ | ⟨ho, hl⟩ | ⟨ho, hl, hc⟩
  · -- text
    rw [hopv, ho]
    dsimp only
    unfold World.onData
    dsimp only
    rw [hinc]
    simp only [Option.isSome_none, Bool.false_eq_true, if_false, hfinv, if_true, hmm, checkMaxSize,
      Bool.not_true]
    have hu : isUtf8 (viewOf f).payload = true := (C08.C08_single_frame _).mpr hwf
    unfold Frame.intoText
    rw [if_pos hu]
    refine ⟨w, _, rfl, rfl, rfl, rfl, rfl, rfl, hinc, rfl, fun _ => rfl, ?_, ?_, ?_, ?_,
      fun _ => rfl, fun _ => rfl, Or.inl rfl, ?_⟩
    · intro h; rw [hopv, ho] at h; cases h
    · intro k h; rw [hopv, ho] at h; cases h
    · intro h; unfold Frame.isClose at h; rw [hopv, ho] at h; cases h
    · intro h; unfold Frame.isClose at h; rw [hopv, ho] at h; cases h
    · intro h; unfold Frame.isClose at h; rw [hopv, ho] at h; cases h
  · -- binary
    rw [hopv, ho]
    dsimp only
    unfold World.onData
    dsimp only
    rw [hinc]
    simp only [Option.isSome_none, Bool.false_eq_true, if_false, hfinv, if_true, hmm, checkMaxSize,
      Bool.not_true]
    refine ⟨w, _, rfl, rfl, rfl, rfl, rfl, rfl, hinc, rfl, ?_, fun _ => rfl, ?_, ?_, ?_,
      fun _ => rfl, fun _ => rfl, Or.inl rfl, ?_⟩
    · intro h; rw [hopv, ho] at h; cases h
    · intro k h; rw [hopv, ho] at h; cases h
    · intro h; unfold Frame.isClose at h; rw [hopv, ho] at h; cases h
    · intro h; unfold Frame.isClose at h; rw [hopv, ho] at h; cases h
    · intro h; unfold Frame.isClose at h; rw [hopv, ho] at h; cases h
  · -- ping
    rw [hopv, ho]
    dsimp only
    unfold World.onControl
    rw [if_neg (by rw [hfinv]; decide), if_neg (by rw [hplv]; omega)]
    dsimp only
    have hnc : (viewOf f).isClose = false := by unfold Frame.isClose; rw [hopv, ho]; rfl
    by_cases ha : w.c.state.isActive = true
    · rw [if_pos ha]
      obtain ⟨f1, f2, f3, f4, f5, f6, f7⟩ := setAdditional_fields w (Frame.pong (viewOf f).payload)
      refine ⟨_, _, rfl, f3, f5, f2, f6, f4, (setAdditional_incomplete _ _).trans hinc, f7,
        ?_, ?_, ?_, ?_, ?_, fun _ => f1, ?_, ?_, ?_⟩
      · intro h; rw [hopv, ho] at h; cases h
      · intro h; rw [hopv, ho] at h; cases h
      · intro k _; exact ⟨(fun d h => by cases h), (fun d h => by cases h)⟩
      · intro h; rw [hnc] at h; cases h
      · intro h; rw [hnc] at h; cases h
      · intro h; exact absurd (isActive_eq_true ha) h
      · rcases setAdditional_slot w (Frame.pong (viewOf f).payload) with h | ⟨_, h⟩
        · exact Or.inl h
        · exact Or.inr ⟨_, h, payOk_pong _ (by rw [hplv]; exact hl), C09.wfSlot_pong _ _⟩
      · intro h; rw [hnc] at h; cases h
    · rw [if_neg ha]
      refine ⟨w, _, rfl, rfl, rfl, rfl, rfl, rfl, hinc, rfl, ?_, ?_, ?_, ?_, ?_, fun _ => rfl,
        fun _ => rfl, Or.inl rfl, ?_⟩
      · intro h; rw [hopv, ho] at h; cases h
      · intro h; rw [hopv, ho] at h; cases h
      · intro k _; exact ⟨(fun d h => by cases h), (fun d h => by cases h)⟩
      · intro h; rw [hnc] at h; cases h
      · intro h; rw [hnc] at h; cases h
      · intro h; rw [hnc] at h; cases h
  · -- pong
    rw [hopv, ho]
    dsimp only
    unfold World.onControl
    rw [if_neg (by rw [hfinv]; decide), if_neg (by rw [hplv]; omega)]
    dsimp only
    have hnc : (viewOf f).isClose = false := by unfold Frame.isClose; rw [hopv, ho]; rfl
    refine ⟨w, _, rfl, rfl, rfl, rfl, rfl, rfl, hinc, rfl, ?_, ?_, ?_, ?_, ?_, fun _ => rfl,
      fun _ => rfl, Or.inl rfl, ?_⟩
    · intro h; rw [hopv, ho] at h; cases h
    · intro h; rw [hopv, ho] at h; cases h
    · intro k _; exact ⟨(fun d h => by cases h), (fun d h => by cases h)⟩
    · intro h; rw [hnc] at h; cases h
    · intro h; rw [hnc] at h; cases h
    · intro h; rw [hnc] at h; cases h
  · -- close
    rw [hopv, ho]
    dsimp only
    unfold World.onControl
    rw [if_neg (by rw [hfinv]; decide), if_neg (by rw [hplv]; omega)]
    dsimp only
    have hic : ∃ c, (viewOf f).intoClose = .ok c ∧
        ∀ cf, c = some cf → Spec.WellFormed cf.reason ∧ cf.reason.length ≤ 123 := by
      unfold Frame.intoClose
      rw [hplv]
      rcases hc with hp | ⟨a, b, reason, hp, hw⟩
      · rw [hp]
        exact ⟨none, rfl, fun cf h => by cases h⟩
      · rw [hp]
        dsimp only
        rw [if_pos ((C08.C08_single_frame _).mpr hw)]
        refine ⟨_, rfl, ?_⟩
        intro cf h
        cases h
        refine ⟨hw, ?_⟩
        rw [hp] at hl
        simp only [List.length_cons] at hl
        show reason.length ≤ 123
        omega
    obtain ⟨c, hic1, hic2⟩ := hic
    rw [hic1]
    dsimp only
    obtain ⟨w', y, hd, d1, d2, d3, d4, d5, d6, d7, d8, d9, d10, d11⟩ := doClose_legit w c hcan hic2
    rw [hd]
    refine ⟨w', _, rfl, d1, d2, d3, d4, d5, d6.trans hinc, d7, ?_, ?_, ?_, fun _ => ⟨_, rfl⟩,
      fun _ => d8, ?_, d9, d10, fun _ => d11⟩
    · intro h; rw [hopv, ho] at h; cases h
    · intro h; rw [hopv, ho] at h; cases h
    · intro k _; exact ⟨(fun d h => by cases h), (fun d h => by cases h)⟩
    · intro h
      have : (viewOf f).isClose = true := by unfold Frame.isClose; rw [hopv, ho]; rfl
      rw [this] at h; cases h

end WsProofs.Pair
