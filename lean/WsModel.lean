import WsModel.Context
