import WsModel.Context
import WsModel.Endpoint
import WsModel.Spec.Rfc6455
import WsModel.Monitor
import WsModel.Handshake.Model

/-! Line-protocol driver: replays harness transcripts through the model and prints the model's
observations in the same canonical form, so the two streams can be diffed. -/
open WsModel WsModel.Gen

namespace Drv

def hexDigit (n : Nat) : Char :=
  if n < 10 then Char.ofNat (48 + n) else Char.ofNat (87 + n)

def hex (bs : Bytes) : String :=
  if bs.isEmpty then "-"
  else String.ofList (bs.foldr (fun b acc => hexDigit (b.toNat / 16) :: hexDigit (b.toNat % 16) :: acc) [])

def hexVal (c : Char) : Nat :=
  let n := c.toNat
  if 48 ≤ n ∧ n ≤ 57 then n - 48
  else if 97 ≤ n ∧ n ≤ 102 then n - 87
  else if 65 ≤ n ∧ n ≤ 70 then n - 55
  else 0

def unhexList : List Char → Bytes
  | a :: b :: rest => UInt8.ofNat (hexVal a * 16 + hexVal b) :: unhexList rest
  | _ => []

def unhex (s : String) : Bytes :=
  if s == "-" then [] else unhexList s.toList

def words (s : String) : List String :=
  (s.splitOn " ").filter (fun t => t != "")

def kv (toks : List String) (key : String) : Option String :=
  toks.findSome? fun t =>
    if t.startsWith (key ++ "=") then some (t.drop (key.length + 1)).toString else none

def parseKind (s : String) : IoKind :=
  if s == "reset" then .reset else if s == "intr" then .intr
  else if s == "WouldBlock" then .wouldBlock else .other

def kindName : IoKind → String
  | .wouldBlock => "WouldBlock"
  | .reset => "reset"
  | .intr => "intr"
  | .other => "other"

def optNat (s : String) : Option Nat :=
  if s == "inf" || s == "none" then none else s.toNat?

/-- resolved io events of one op, split by call kind -/
structure Events where
  rd : List RdEv := []
  wr : List WrEv := []
  fl : List FlEv := []

def parseIo (toks : List String) : Events :=
  toks.foldl (fun (e : Events) tok =>
    if tok.startsWith "r:" then
      let v := (tok.drop 2).toString
      let ev : RdEv := if v == "b" then .err .wouldBlock else if v == "e" then .eof
        else if v.startsWith "x" then .err (parseKind (v.drop 1).toString) else .data (unhex v)
      { e with rd := e.rd ++ [ev] }
    else if tok.startsWith "w:" then
      let v := (tok.drop 2).toString
      let a := match v.splitOn "/" with | x :: _ => x | [] => ""
      let ev : WrEv := if a == "b" then .err .wouldBlock
        else if a.startsWith "x" then .err (parseKind (a.drop 1).toString)
        else .accept (a.toNat?.getD 0)
      { e with wr := e.wr ++ [ev] }
    else if tok.startsWith "f:" then
      let v := (tok.drop 2).toString
      let ev : FlEv := if v == "o" then .ok else if v == "b" then .err .wouldBlock
        else .err (parseKind (v.drop 1).toString)
      { e with fl := e.fl ++ [ev] }
    else e) {}

def showCall : Call → String
  | .read (.data bs) => "r:" ++ hex bs
  | .read .eof => "r:e"
  | .read (.err .wouldBlock) => "r:b"
  | .read (.err k) => "r:x" ++ kindName k
  | .write off (.accept k) => s!"w:{min k off}/{off}"
  | .write off (.err .wouldBlock) => s!"w:b/{off}"
  | .write off (.err k) => s!"w:x{kindName k}/{off}"
  | .flush .ok => "f:o"
  | .flush (.err .wouldBlock) => "f:b"
  | .flush (.err k) => "f:x" ++ kindName k

def showMaskOpt : Option Mask → String
  | some m => hex m.toBytes
  | none => "-"

def b01 (b : Bool) : String := if b then "1" else "0"

def showFrame (f : Frame) : String :=
  let h := f.header
  s!"{b01 h.fin}{b01 h.rsv1}{b01 h.rsv2}{b01 h.rsv3} {opCodeToU8 h.opcode} {showMaskOpt h.mask} {hex f.payload}"

def showMsg : Message → String
  | .text b => "text " ++ hex b
  | .binary b => "binary " ++ hex b
  | .ping b => "ping " ++ hex b
  | .pong b => "pong " ++ hex b
  | .close none => "close none"
  | .close (some cf) => s!"close {closeCodeToU16 cf.code} {hex cf.reason}"
  | .frame f => "frame " ++ showFrame f

def showOpData : OpData → String
  | .«continue» => "Continue"
  | .text => "Text"
  | .binary => "Binary"
  | .reserved i => s!"Reserved({i})"

def showProto : ProtoErr → String
  | .resetWithoutClosingHandshake => "ResetWithoutClosingHandshake"
  | .sendAfterClosing => "SendAfterClosing"
  | .receivedAfterClosing => "ReceivedAfterClosing"
  | .nonZeroReservedBits => "NonZeroReservedBits"
  | .unmaskedFrameFromClient => "UnmaskedFrameFromClient"
  | .maskedFrameFromServer => "MaskedFrameFromServer"
  | .fragmentedControlFrame => "FragmentedControlFrame"
  | .controlFrameTooBig => "ControlFrameTooBig"
  | .unknownControlFrameType n => s!"UnknownControlFrameType({n})"
  | .unknownDataFrameType n => s!"UnknownDataFrameType({n})"
  | .unexpectedContinueFrame => "UnexpectedContinueFrame"
  | .expectedFragment d => s!"ExpectedFragment({showOpData d})"
  | .invalidCloseSequence => "InvalidCloseSequence"
  | .invalidOpcode n => s!"InvalidOpcode({n})"

def showErr : Err → String
  | .connectionClosed => "ConnectionClosed"
  | .alreadyClosed => "AlreadyClosed"
  | .io k => "Io." ++ kindName k
  | .capacity s m => s!"Capacity.MessageTooLong({s},{m})"
  | .protocol p => "Protocol." ++ showProto p
  | .writeBufferFull f => s!"WriteBufferFull(frame {showFrame f})"
  | .utf8 => "Utf8"

def showPanic (s : PanicSite) : String := "panic " ++ toString (repr s)

def showResMsg : Res Message → String
  | .ok m => "ok " ++ showMsg m
  | .err e => "err " ++ showErr e
  | .panic s => showPanic s

def showResUnit : Res Unit → String
  | .ok _ => "ok unit"
  | .err e => "err " ++ showErr e
  | .panic s => showPanic s

def parseMask (s : String) : Mask :=
  match unhex s with
  | [a, b, c, d] => ⟨a, b, c, d⟩
  | _ => ⟨0, 0, 0, 0⟩

def parseMasks (toks : List String) : List Mask :=
  match kv toks "m" with
  | none => []
  | some v => if v == "-" then [] else ((v.splitOn ",").filter (· != "")).map parseMask

def parseClose (toks : List String) : Option CloseFrame :=
  match toks with
  | "none" :: _ => none
  | code :: reason :: _ => some { code := closeCodeOfU16 (code.toNat?.getD 0), reason := unhex reason }
  | _ => none

def parseMessage (toks : List String) : Option Message :=
  match toks with
  | "text" :: h :: _ => some (.text (unhex h))
  | "binary" :: h :: _ => some (.binary (unhex h))
  | "ping" :: h :: _ => some (.ping (unhex h))
  | "pong" :: h :: _ => some (.pong (unhex h))
  | "close" :: rest => some (.close (parseClose rest))
  | "frame" :: bits :: opc :: mask :: payload :: _ =>
    match bits.toList, opCodeOfU8 (opc.toNat?.getD 255) with
    | [f, r1, r2, r3], some op =>
      some (.frame { header := { fin := f == '1', rsv1 := r1 == '1', rsv2 := r2 == '1', rsv3 := r3 == '1',
                                  opcode := op, mask := if mask == "-" then none else some (parseMask mask) },
                     payload := unhex payload })
    | _, _ => none
  | _ => none

def parseCfg (toks : List String) : Role × Config × Option Bytes :=
  let role := if kv toks "role" == some "client" then Role.client else Role.server
  let cfg : Config :=
    { wbuf := ((kv toks "wbuf").bind String.toNat?).getD 0
      maxw := ((kv toks "maxw").bind optNat).getD usizeMax
      maxMsg := (kv toks "maxmsg").bind optNat
      maxFrame := (kv toks "maxframe").bind optNat
      acceptUnmasked := kv toks "unmasked" == some "1" }
  let pre := match kv toks "pre" with
    | none => none
    | some "none" => none
    | some h => some (unhex h)
  (role, cfg, pre)

/-- one op through the model; returns the new world and the output lines -/
def runOp (w : World) (body : List String) (masks : List Mask) (ev : Events) : World × List String :=
  let w0 : World := { w with
    mu := masks, muExhausted := false,
    t := { w.t with rd := ev.rd, wr := ev.wr, fl := ev.fl, log := [], exhausted := false,
                      accepted := [], flushedUpTo := 0 } }
  let before := 0
  let (w1, res) : World × String :=
    match body with
    | "read" :: _ => let (w, r) := w0.read; (w, showResMsg r)
    | "flush" :: _ => let (w, r) := w0.flush; (w, showResUnit r)
    | "close" :: rest => let (w, r) := w0.close (parseClose rest); (w, showResUnit r)
    | "write" :: rest =>
      match parseMessage rest with
      | some m => let (w, r) := w0.write m; (w, showResUnit r)
      | none => (w0, "bad-op")
    | "can" :: _ => (w0, "ok unit")
    | _ => (w0, "bad-op")
  let calls := w1.t.log.reverse.map showCall
  let io := if calls.isEmpty then "-" else " ".intercalate calls
  let io := if w1.t.exhausted then io ++ " !script-exhausted" else io
  let io := if !w1.t.rd.isEmpty || !w1.t.wr.isEmpty || !w1.t.fl.isEmpty then io ++ " !events-left" else io
  let wire := hex (w1.t.accepted.drop before)
  let used := masks.length - w1.mu.length
  let muNote := if w1.muExhausted then " !mask-exhausted" else ""
  -- keep the accepted history short: only its length matters between ops
  (w1, [s!"io {io}", s!"res {res}", s!"wire {wire}",
        s!"can r={b01 w1.canRead} w={b01 w1.canWrite} mu={used}{muNote}"])


/-! ### pure families -/

def showCloseCodeDebug : CloseCode → String
  | .normal => "Normal" | .away => "Away" | .protocol => "Protocol" | .unsupported => "Unsupported"
  | .status => "Status" | .abnormal => "Abnormal" | .invalid => "Invalid" | .policy => "Policy"
  | .size => "Size" | .extension => "Extension" | .error => "Error" | .restart => "Restart"
  | .again => "Again" | .tls => "Tls"
  | .reserved c => s!"Reserved({c})" | .iana c => s!"Iana({c})"
  | .library c => s!"Library({c})" | .bad c => s!"Bad({c})"

def showOpCodeDebug : OpCode → String
  | .data .«continue» => "Data(Continue)"
  | .data .text => "Data(Text)"
  | .data .binary => "Data(Binary)"
  | .data (.reserved i) => s!"Data(Reserved({i}))"
  | .control .close => "Control(Close)"
  | .control .ping => "Control(Ping)"
  | .control .pong => "Control(Pong)"
  | .control (.reserved i) => s!"Control(Reserved({i}))"

def parseHeaderToks (bits opc mask : String) : Option Header :=
  match bits.toList, opCodeOfU8 (opc.toNat?.getD 255) with
  | [f, r1, r2, r3], some op =>
    some { fin := f == '1', rsv1 := r1 == '1', rsv2 := r2 == '1', rsv3 := r3 == '1',
           opcode := op, mask := if mask == "-" then none else some (parseMask mask) }
  | _, _ => none

def showHeader (h : Header) : String :=
  s!"{b01 h.fin}{b01 h.rsv1}{b01 h.rsv2}{b01 h.rsv3} {opCodeToU8 h.opcode} {showMaskOpt h.mask}"

def showOptNat : Option Nat → String
  | some n => toString n
  | none => "none"

def pureEval (toks : List String) : Option String :=
  match toks with
  | ["closecode", n] =>
    let n := n.toNat?.getD 0
    let c := closeCodeOfU16 n
    let back := closeCodeToU16 c
    some s!"out {showCloseCodeDebug c} {back} {b01 (closeCodeIsAllowed c)} {b01 (closeCodeOfU16 back == c)}"
  | ["opcode", n] =>
    match opCodeOfU8 (n.toNat?.getD 0) with
    | some op => some s!"out {showOpCodeDebug op} {opCodeToU8 op}"
    | none => some "out panic"
  | ["hparse", h] =>
    match Header.parse (unhex h) with
    | .header hd len used => some s!"out hdr {showHeader hd} {len} {used}"
    | .incomplete => some "out incomplete 0"
    | .error e => some s!"out err {showErr e}"
    | .panic _ => some "out panic"
  | ["hformat", bits, opc, mask, len] =>
    match parseHeaderToks bits opc mask with
    | none => some "out badheader"
    | some hd =>
      let len := len.toNat?.getD 0
      some s!"out {hex (hd.format len)} {hd.len len}"
  | ["fformat", b1, o1, m1, p1, b2, o2, m2, p2] =>
    match parseHeaderToks b1 o1 m1, parseHeaderToks b2 o2 m2 with
    | some h1, some h2 =>
      let f1 : Frame := { header := h1, payload := unhex p1 }
      let f2 : Frame := { header := h2, payload := unhex p2 }
      let wire := f2.formatIntoBuf (f1.formatIntoBuf [])
      some s!"out {hex f1.format} {f1.len} {hex f2.format} {f2.len} {hex wire} 11"
    | _, _ => some "out badheader"
  | ["mask", key, _align, h] =>
    some s!"out {hex (applyMask (parseMask key) (unhex h))} canary=ok"
  | ["utf8", h] =>
    let b := unhex h
    let stdS := match utf8Validate b with
      | .ok => "ok"
      | .err v el => s!"err {v} {showOptNat el}"
    let dec := match utf8Decode b with
      | .ok => "ok"
      | .invalid v k => s!"invalid {v} {k}"
      | .incomplete v suf => s!"incomplete {v} {hex suf}"
    some s!"out std {stdS} dec {dec}"
  | ["utf8c", buf, inp] =>
    match utf8TryComplete (unhex buf) (unhex inp) with
    | .still b => some s!"out still {hex b}"
    | .done true bytes consumed => some s!"out done ok {hex bytes} {consumed}"
    | .done false bytes consumed => some s!"out done err {hex bytes} {consumed}"
    | .panic => some "out panic"
  | _ => none

def pureTags : List String :=
  ["closecode", "opcode", "hparse", "hformat", "fformat", "mask", "utf8", "utf8c"]


/-! ### monitors on the implementation's pure outputs -/

def allowedSpecB (c : Nat) : Bool :=
  (1000 ≤ c && c ≤ 1003) || (1007 ≤ c && c ≤ 1013) || (3000 ≤ c && c ≤ 4999)

/-- property predicates evaluated on what the real crate printed for a pure line -/
def monPure (inp : List String) (implOut : List String) : List String :=
  match inp, implOut with
  | ["closecode", n], ["out", _variant, back, allowed, again] =>
    let n := n.toNat?.getD 0
    let okBack := back.toNat? == some n
    let okAgain := again == "1"
    let okAllowed := (allowed == "1") == allowedSpecB n
    if okBack && okAgain && okAllowed then ["mon C20 ok"]
    else [s!"mon C20 FAIL closecode-{if !okBack then "u16-roundtrip" else if !okAgain then "value-roundtrip" else "allowed"} code={n}"]
  | ["hformat", bits, opc, mask, len], ["out", bytesHex, lenTok] =>
    -- C18: the bytes the real encoder wrote, decoded by the independent RFC header reader
    let bs := unhex bytesHex
    let len := len.toNat?.getD 0
    let opc := opc.toNat?.getD 255
    let minimal := 2 + (if len < 126 then 0 else if len < 65536 then 2 else 8) + (if mask == "-" then 0 else 4)
    match Spec.rawHeader bs with
    | none => ["mon C18 FAIL hformat-undecodable"]
    | some h =>
      let bitsOk := bits.toList == [if h.fin then '1' else '0', if h.rsv / 4 % 2 == 1 then '1' else '0',
                                   if h.rsv / 2 % 2 == 1 then '1' else '0', if h.rsv % 2 == 1 then '1' else '0']
      let maskOk := showMaskOpt h.mask == mask
      if !(bitsOk && h.opcode == opc && maskOk && h.len == len) then ["mon C18 FAIL hformat-roundtrip"]
      else if !(h.size == bs.length && lenTok.toNat? == some bs.length) then ["mon C18 FAIL hformat-size"]
      else if bs.length != minimal then ["mon C18 FAIL hformat-not-minimal"]
      else ["mon C18 ok"]
  | ["hparse", h], "out" :: rest =>
    let bs := unhex h
    match Spec.rawHeader bs, rest with
    | none, ["incomplete", "0"] => ["mon C18 ok"]
    | none, _ => ["mon C18 FAIL hparse-incomplete"]
    | some rh, ["hdr", bits, opc, mask, len, used] =>
      let bitsOk := bits.toList == [if rh.fin then '1' else '0', if rh.rsv / 4 % 2 == 1 then '1' else '0',
                                   if rh.rsv / 2 % 2 == 1 then '1' else '0', if rh.rsv % 2 == 1 then '1' else '0']
      if bitsOk && opc.toNat? == some rh.opcode && mask == showMaskOpt rh.mask && len.toNat? == some rh.len
          && used.toNat? == some rh.size && Spec.isDefinedOpcode rh.opcode then ["mon C18 ok"]
      else ["mon C18 FAIL hparse-header"]
    | some rh, "err" :: _ => if Spec.isDefinedOpcode rh.opcode then ["mon C18 FAIL hparse-spurious-error"] else ["mon C18 ok"]
    | some _, _ => ["mon C18 FAIL hparse-shape"]
  | "fformat" :: _, ["out", a, la, b, lb, wire, _flags] =>
    let (ba, bb) := (unhex a, unhex b)
    if la.toNat? != some ba.length || lb.toNat? != some bb.length then ["mon C18 FAIL frame-len"]
    else if unhex wire != ba ++ bb then ["mon C18 FAIL encoders-differ"]
    else ["mon C18 ok"]
  | ["utf8", h], "out" :: "std" :: verdict :: _ =>
    -- C08: the real from_utf8 against Table 3-7
    let wf := Spec.wellFormedB (unhex h)
    if (verdict == "ok") == wf then ["mon C08 ok"] else [s!"mon C08 FAIL from-utf8-disagrees-with-table bytes={h}"]
  | ["mask", key, _align, h], ["out", got, canary] =>
    let want := hex (applyMask (parseMask key) (unhex h))
    if got == want && canary == "canary=ok" then ["mon C19 ok"]
    else [s!"mon C19 FAIL mask-{if got != want then "xor" else "adjacent"} len={(unhex h).length}"]
  | _, _ => []

structure St where
  role : Role := .server
  cfg : Config := {}
  pre : Option Bytes := none
  world : Option World := none
  failedNew : Bool := false

/-- process the lines of one case (inputs and the implementation's outputs) -/
partial def runCase (lines : Array String) : Array String := Id.run do
  let mut out : Array String := #[]
  let mut st : St := {}
  let mut ic : Mon.ImplCase := {}
  let mut i := 0
  while i < lines.size do
    let line := lines[i]!
    let toks := words line
    match toks with
    | "cfg" :: _ =>
      out := out.push line
      let (role, cfg, pre) := parseCfg toks
      st := { st with role := role, cfg := cfg, pre := pre }
      ic := { ic with role := role, cfg := cfg, pre := pre }
      i := i + 1
    | "op" :: rest =>
      out := out.push line
      -- gather the implementation's output lines of this op
      let mut j := i + 1
      let mut ev : Events := {}
      let mut iop : Mon.ImplOp := { body := rest.filter (fun t => !t.startsWith "m=") }
      while j < lines.size do
        let t := words lines[j]!
        match t with
        | "io" :: evs => ev := parseIo evs; iop := { iop with io := evs.filter (· != "-") }; j := j + 1
        | "res" :: r => iop := { iop with res := r }; j := j + 1
        | "wire" :: w :: _ => iop := { iop with wire := unhex w }; j := j + 1
        | "can" :: cs => iop := { iop with canR := kv cs "r" == some "1", canW := kv cs "w" == some "1" }; j := j + 1
        | "new" :: r =>
          if r.head? != some "ok" then
            ic := { ic with newOk := false }
          j := j + 1
        | _ => break
      ic := { ic with ops := ic.ops.push iop }
      i := j
      -- create the socket at the first op
      if st.world.isNone && !st.failedNew then
        match Ctx.new st.role st.cfg (st.pre.getD []) with
        | some c =>
          out := out.push "new ok"
          st := { st with world := some { c := c, t := { rd := [], wr := [], fl := [] } } }
        | none =>
          out := out.push "new panic"
          st := { st with failedNew := true }
      match st.world with
      | none => out := out.push "res nosocket"
      | some w =>
        let body := rest.filter (fun t => !t.startsWith "m=")
        let (w', ls) := runOp w body (parseMasks toks) ev
        st := { st with world := some w' }
        for l in ls do out := out.push l
    | tag :: rest =>
      if tag == "io" || tag == "res" || tag == "wire" || tag == "can" || tag == "new" then
        i := i + 1   -- stray implementation line
      else if tag == "end" then
        for m in Mon.all ic do out := out.push m
        out := out.push line
        i := i + 1
      else
        if tag == "peer" then
          ic := { ic with peer := ic.peer ++ unhex (rest.headD "-") }
        if tag == "expect" then
          ic := { ic with expects := ic.expects ++ [" ".intercalate rest] }
        out := out.push line
        i := i + 1
    | [] => i := i + 1
  return out


/-! ### handshake cases -/
section Handshake
open WsModel.Hs

def parseKvList (s : String) : List (Bytes × Bytes) :=
  if s == "-" || s == "" then []
  else ((s.splitOn ",").filter (· != "")).filterMap fun p =>
    match p.splitOn "=" with
    | [n, v] => some (unhex n, unhex v)
    | _ => none

def showKvList (hs : List (Bytes × Bytes)) : String :=
  if hs.isEmpty then "-" else ",".intercalate (hs.map fun (n, v) => s!"{hex n}={hex v}")

def parseHeadParse (toks : List String) : HeadParse :=
  match toks with
  | "partial" :: _ => .incomplete
  | "toomany" :: _ => .tooManyHeaders
  | "err" :: _ => .error
  | "complete" :: rest =>
    .complete (((kv rest "size").bind String.toNat?).getD 0)
      { method := (match kv rest "method" with | some "-" => [] | some m => unhex m | none => [])
        version := ((kv rest "version").bind String.toNat?).getD 0
        code := ((kv rest "code").bind String.toNat?).getD 0
        uriOk := kv rest "uriok" == some "1"
        headers := parseKvList ((kv rest "headers").getD "-") }
  | _ => .error

def showHsErr : HsErr → String
  | .wrongHttpMethod => "Protocol.WrongHttpMethod"
  | .wrongHttpVersion => "Protocol.WrongHttpVersion"
  | .missingConnectionUpgradeHeader => "Protocol.MissingConnectionUpgradeHeader"
  | .missingUpgradeWebSocketHeader => "Protocol.MissingUpgradeWebSocketHeader"
  | .missingSecWebSocketVersionHeader => "Protocol.MissingSecWebSocketVersionHeader"
  | .missingSecWebSocketKey => "Protocol.MissingSecWebSocketKey"
  | .secWebSocketAcceptKeyMismatch => "Protocol.SecWebSocketAcceptKeyMismatch"
  | .subProtocol .serverSentSubProtocolNoneRequested => "Protocol.SecWebSocketSubProtocolError(ServerSentSubProtocolNoneRequested)"
  | .subProtocol .invalidSubProtocol => "Protocol.SecWebSocketSubProtocolError(InvalidSubProtocol)"
  | .subProtocol .noSubProtocol => "Protocol.SecWebSocketSubProtocolError(NoSubProtocol)"
  | .junkAfterRequest => "Protocol.JunkAfterRequest"
  | .customResponseSuccessful => "Protocol.CustomResponseSuccessful"
  | .handshakeIncomplete => "Protocol.HandshakeIncomplete"
  | .httparse => "Protocol.HttparseError"
  | .tooManyHeaders => "Capacity.TooManyHeaders"
  | .httpFormat => "HttpFormat"
  | .attackAttempt => "AttackAttempt"
  | .utf8 => "Utf8"
  | .invalidHeader n => s!"Protocol.InvalidHeader(\"{String.ofList (n.map fun b => Char.ofNat b.toNat)}\")"
  | .urlUnsupportedScheme => "Url.UnsupportedUrlScheme"
  | .urlNoHostName => "Url.NoHostName"
  | .urlEmptyHostName => "Url.EmptyHostName"
  | .urlNoPathOrQuery => "Url.NoPathOrQuery"
  | .io k => "Io." ++ kindName k
  | .http status body => s!"Http({status},{match body with | some b => hex b | none => "none"})"

inductive HsStage where
  | fresh
  | serverMid (m : ServerMid)
  | clientMid (m : ClientMid)
  | socket (w : World)
  | dead

def parseCallback (spec : String) (statusLine : Bytes) : Callback :=
  match spec.splitOn ":" with
  | ["none"] => .none_
  | "accept" :: hs :: _ => .accept (parseKvList hs)
  | ["accept"] => .accept []
  | "reject" :: status :: body :: rest =>
    .reject (status.toNat?.getD 0) statusLine (parseKvList (rest.headD "-"))
      (if body == "none" then none else some (unhex body))
  | _ => .none_

def optHex (s : Option String) : Option Bytes :=
  match s with
  | none => none
  | some "none" => none
  | some h => some (unhex h)

/-- process one handshake case -/
partial def runHsCase (lines : Array String) : Array String := Id.run do
  let mut out : Array String := #[]
  let isServer := (lines[0]?.getD "").splitOn " " |>.any (· == "hs-server")
  -- the parse oracle: result of httparse for each buffer length seen in this case
  let table : List (Nat × HeadParse) := lines.toList.filterMap fun l =>
    match words l with
    | "parsed" :: n :: rest => some (n.toNat?.getD 0, parseHeadParse rest)
    | _ => none
  let parse : Bytes → HeadParse := fun buf =>
    match table.find? (·.1 == buf.length) with
    | some (_, r) => r
    | none => .error
  let statusLine : Bytes := match lines.toList.findSome? fun l =>
      match words l with | ["statusline", h] => some (unhex h) | _ => none with
    | some b => b
    | none => []
  let mut hcfg : List String := []
  let mut cfgToks : Option (List String) := none
  let mut stage : HsStage := .fresh
  let mut trans : Transport := { rd := [], wr := [], fl := [] }
  let mut i := 0
  while i < lines.size do
    let line := lines[i]!
    let toks := words line
    match toks with
    | "hcfg" :: rest => hcfg := rest; out := out.push line; i := i + 1
    | "cfg" :: _ => cfgToks := some toks; out := out.push line; i := i + 1
    | "op" :: rest =>
      out := out.push line
      let mut j := i + 1
      let mut ev : Events := {}
      let mut uriview : Option (List String) := none
      let mut implReqHeaders : Option String := none
      let mut echo : Array String := #[]
      while j < lines.size do
        let t := words lines[j]!
        match t with
        | "io" :: evs => ev := parseIo evs; j := j + 1
        | "parsed" :: _ => echo := echo.push lines[j]!; j := j + 1
        | "uriview" :: r => uriview := some r; echo := echo.push lines[j]!; j := j + 1
        | "reqheaders" :: r => implReqHeaders := r.head?; j := j + 1
        | "res" :: _ => j := j + 1
        | "wire" :: _ => j := j + 1
        | "can" :: _ => j := j + 1
        | _ => break
      i := j
      let body := rest.filter (fun t => !t.startsWith "m=")
      let masks := parseMasks toks
      let t0 : Transport := { trans with rd := ev.rd, wr := ev.wr, fl := ev.fl, log := [], exhausted := false,
                                          accepted := [], flushedUpTo := 0 }
      let finish (t : Transport) (res : String) (extra : List String) : Array String :=
        let calls := t.log.reverse.map showCall
        let io := if calls.isEmpty then "-" else " ".intercalate calls
        let io := if t.exhausted then io ++ " !script-exhausted" else io
        let io := if !t.rd.isEmpty || !t.wr.isEmpty || !t.fl.isEmpty then io ++ " !events-left" else io
        #[s!"io {io}"] ++ echo ++ extra.toArray ++ #[s!"res {res}", s!"wire {hex t.accepted}"]
      let mkWorld (role : Role) (pre : Bytes) : Option World :=
        let cfg : Config := match cfgToks with
          | some ts => (parseCfg ts).2.1
          | none => {}
        (Ctx.new role cfg pre).map fun c => { c := c, t := { rd := [], wr := [], fl := [] } }
      match body, stage with
      | "accept" :: _, .fresh =>
        let cb := parseCallback ((kv hcfg "callback").getD "none") statusLine
        let m := serverStart cb
        let (t, m', o) := serverLoop parse (hsFuel m.state t0) m t0
        trans := t
        match o with
        | .done () =>
          stage := match mkWorld .server [] with | some w => .socket w | none => .dead
          for l in finish t "hs ok" [] do out := out.push l
        | .interrupted => stage := .serverMid m'; for l in finish t "hs interrupted" [] do out := out.push l
        | .failed e => stage := .dead; for l in finish t s!"hs err {showHsErr e}" [] do out := out.push l
        | .panic => stage := .dead; for l in finish t "panic" [] do out := out.push l
      | "resume" :: _, .serverMid m =>
        let (t, m', o) := serverLoop parse (hsFuel m.state t0) m t0
        trans := t
        match o with
        | .done () =>
          stage := match mkWorld .server [] with | some w => .socket w | none => .dead
          for l in finish t "hs ok" [] do out := out.push l
        | .interrupted => stage := .serverMid m'; for l in finish t "hs interrupted" [] do out := out.push l
        | .failed e => stage := .dead; for l in finish t s!"hs err {showHsErr e}" [] do out := out.push l
        | .panic => stage := .dead; for l in finish t "panic" [] do out := out.push l
      | "client" :: _, .fresh =>
        -- the URI as http::Uri sees it (oracle) and the key the implementation generated (oracle)
        match uriview with
        | none | some ["invalid"] =>
          stage := .dead
          for l in finish t0 "hs err HttpFormat" [] do out := out.push l
        | some uv =>
          let u : UriView := { scheme := optHex (kv uv "scheme"), authority := optHex (kv uv "authority"),
                               pathAndQuery := optHex (kv uv "path") }
          let implHs := parseKvList (implReqHeaders.getD "-")
          let key := (hget implHs reqKeyName).getD []
          let built : Except HsErr HMap :=
            match kv hcfg "custom" with
            | some c => .ok (HMap.ofList (parseKvList c))
            | none =>
              let protos := match kv hcfg "protos" with
                | some "-" => []
                | some p => ((p.splitOn ",").filter (· != "")).map unhex
                | none => []
              requestFromUri u key (parseKvList ((kv hcfg "extra").getD "-")) protos
          match built with
          | .error e => stage := .dead; for l in finish t0 s!"hs err {showHsErr e}" [] do out := out.push l
          | .ok hm =>
            let rh := s!"reqheaders {showKvList hm.iter}"
            match clientStart u hm with
            | .error e => stage := .dead; for l in finish t0 s!"hs err {showHsErr e}" [rh] do out := out.push l
            | .ok (vd, req) =>
              let m : ClientMid := { verify := vd, state := .writing req }
              let (t, m', o) := clientLoop parse (hsFuel m.state t0) m t0
              trans := t
              match o with
              | .done tail =>
                stage := match mkWorld .client tail with | some w => .socket w | none => .dead
                for l in finish t "hs ok" [rh] do out := out.push l
              | .interrupted => stage := .clientMid m'; for l in finish t "hs interrupted" [rh] do out := out.push l
              | .failed e => stage := .dead; for l in finish t s!"hs err {showHsErr e}" [rh] do out := out.push l
              | .panic => stage := .dead; for l in finish t "panic" [rh] do out := out.push l
      | "resume" :: _, .clientMid m =>
        let (t, m', o) := clientLoop parse (hsFuel m.state t0) m t0
        trans := t
        match o with
        | .done tail =>
          stage := match mkWorld .client tail with | some w => .socket w | none => .dead
          for l in finish t "hs ok" [] do out := out.push l
        | .interrupted => stage := .clientMid m'; for l in finish t "hs interrupted" [] do out := out.push l
        | .failed e => stage := .dead; for l in finish t s!"hs err {showHsErr e}" [] do out := out.push l
        | .panic => stage := .dead; for l in finish t "panic" [] do out := out.push l
      | "resume" :: _, .socket _ =>
        for l in finish t0 "nosocket" [] do out := out.push l
      | _, .socket w =>
        let (w', ls) := runOp w body masks ev
        stage := .socket w'
        for l in ls do
          -- handshake transcripts carry no mask-usage count
          if l.startsWith "can " then
            out := out.push (" ".intercalate ((words l).filter fun t => !t.startsWith "mu="))
          else out := out.push l
      | _, _ =>
        for l in finish t0 "nosocket" [] do out := out.push l
    | tag :: _ =>
      if tag == "io" || tag == "res" || tag == "wire" || tag == "can" || tag == "parsed" || tag == "uriview"
          || tag == "reqheaders" then
        i := i + 1
      else
        out := out.push line
        i := i + 1
    | [] => i := i + 1
  return out

end Handshake

end Drv

partial def loop (h : IO.FS.Stream) (out : IO.FS.Stream) (cur : Array String)
    (lastPure : Option (List String)) : IO Unit := do
  let line ← h.getLine
  if line.isEmpty then
    if !cur.isEmpty then
      for l in Drv.runCase cur do out.putStrLn l
    return ()
  let l := line.trimAscii.toString
  let toks := Drv.words l
  if cur.isEmpty && (match toks with | t :: _ => Drv.pureTags.contains t | [] => false) then
    out.putStrLn l
    match Drv.pureEval toks with
    | some o => out.putStrLn o
    | none => out.putStrLn "out bad-line"
    loop h out #[] (some toks)
  else if cur.isEmpty && (match toks with | t :: _ => t == "out" | [] => false) then
    match lastPure with
    | some inp => for m in Drv.monPure inp toks do out.putStrLn m
    | none => pure ()
    loop h out #[] none
  else if cur.isEmpty && toks.isEmpty then
    loop h out #[] lastPure
  else if l == "end" then
    let all := cur.push l
    let isHs := ((all[0]?.getD "").splitOn " ").any fun t => t == "hs-server" || t == "hs-client"
    for o in (if isHs then Drv.runHsCase all else Drv.runCase all) do out.putStrLn o
    loop h out #[] none
  else
    loop h out (cur.push l) none

def main : IO Unit := do
  let stdin ← IO.getStdin
  let stdout ← IO.getStdout
  loop stdin stdout #[] none
