import WsModel.Context
import WsModel.Endpoint
import WsModel.Spec.Rfc6455
import WsModel.Monitor
import WsModel.Handshake.Model
import WsModel.Handshake.Run
import WsModel.TwoParty
import WsModel.FrameSocket

/-! Line-protocol driver: replays harness transcripts through the model and prints the model's
observations in the same canonical form, so the two streams can be diffed. -/
open WsModel WsModel.Gen

namespace Drv

def hexDigit (n : Nat) : Char :=
  if n < 10 then Char.ofNat (48 + n) else Char.ofNat (87 + n)

def hex (bs : Bytes) : String :=
  if bs.isEmpty then "-"
  else String.ofList (bs.foldr (fun b acc => hexDigit (b.toNat / 16) :: hexDigit (b.toNat % 16) :: acc) [])

def hexVal (c : Char) : Nat :=
  let n := c.toNat
  if 48 ≤ n ∧ n ≤ 57 then n - 48
  else if 97 ≤ n ∧ n ≤ 102 then n - 87
  else if 65 ≤ n ∧ n ≤ 70 then n - 55
  else 0

def unhexList : List Char → Bytes
  | a :: b :: rest => UInt8.ofNat (hexVal a * 16 + hexVal b) :: unhexList rest
  | _ => []

def unhex (s : String) : Bytes :=
  if s == "-" then [] else unhexList s.toList

def words (s : String) : List String :=
  (s.splitOn " ").filter (fun t => t != "")

def kv (toks : List String) (key : String) : Option String :=
  toks.findSome? fun t =>
    if t.startsWith (key ++ "=") then some (t.drop (key.length + 1)).toString else none

def parseKind (s : String) : IoKind :=
  if s == "reset" then .reset else if s == "intr" then .intr
  else if s == "WouldBlock" then .wouldBlock else .other

def kindName : IoKind → String
  | .wouldBlock => "WouldBlock"
  | .reset => "reset"
  | .intr => "intr"
  | .other => "other"

def optNat (s : String) : Option Nat :=
  if s == "inf" || s == "none" then none else s.toNat?

/-- resolved io events of one op, split by call kind -/
structure Events where
  rd : List RdEv := []
  wr : List WrEv := []
  fl : List FlEv := []

def parseIo (toks : List String) : Events :=
  -- linear: cons in reverse, reverse once (a watchdog case has hundreds of thousands of events)
  let e := toks.foldl (fun (e : Events) tok =>
    if tok.startsWith "r:" then
      let v := (tok.drop 2).toString
      let ev : RdEv := if v == "b" then .err .wouldBlock else if v == "e" || v == "z" then .eof
        else if v.startsWith "x" then .err (parseKind (v.drop 1).toString) else .data (unhex v)
      { e with rd := ev :: e.rd }
    else if tok.startsWith "w:" then
      let v := (tok.drop 2).toString
      let a := match v.splitOn "/" with | x :: _ => x | [] => ""
      let ev : WrEv := if a == "b" then .err .wouldBlock
        else if a.startsWith "x" then .err (parseKind (a.drop 1).toString)
        else .accept (a.toNat?.getD 0)
      { e with wr := ev :: e.wr }
    else if tok.startsWith "f:" then
      let v := (tok.drop 2).toString
      let ev : FlEv := if v == "o" then .ok else if v == "b" then .err .wouldBlock
        else .err (parseKind (v.drop 1).toString)
      { e with fl := ev :: e.fl }
    else e) {}
  { rd := e.rd.reverse, wr := e.wr.reverse, fl := e.fl.reverse }

def showCall : Call → String
  | .read (.data bs) => "r:" ++ hex bs
  | .read .eof => "r:e"
  | .read (.err .wouldBlock) => "r:b"
  | .read (.err k) => "r:x" ++ kindName k
  | .write off (.accept k) => s!"w:{min k off}/{off}"
  | .write off (.err .wouldBlock) => s!"w:b/{off}"
  | .write off (.err k) => s!"w:x{kindName k}/{off}"
  | .flush .ok => "f:o"
  | .flush (.err .wouldBlock) => "f:b"
  | .flush (.err k) => "f:x" ++ kindName k

def showMaskOpt : Option Mask → String
  | some m => hex m.toBytes
  | none => "-"

def b01 (b : Bool) : String := if b then "1" else "0"

def showFrame (f : Frame) : String :=
  let h := f.header
  s!"{b01 h.fin}{b01 h.rsv1}{b01 h.rsv2}{b01 h.rsv3} {opCodeToU8 h.opcode} {showMaskOpt h.mask} {hex f.payload}"

def showMsg : Message → String
  | .text b => "text " ++ hex b
  | .binary b => "binary " ++ hex b
  | .ping b => "ping " ++ hex b
  | .pong b => "pong " ++ hex b
  | .close none => "close none"
  | .close (some cf) => s!"close {closeCodeToU16 cf.code} {hex cf.reason}"
  | .frame f => "frame " ++ showFrame f

def showOpData : OpData → String
  | .«continue» => "Continue"
  | .text => "Text"
  | .binary => "Binary"
  | .reserved i => s!"Reserved({i})"

def showProto : ProtoErr → String
  | .resetWithoutClosingHandshake => "ResetWithoutClosingHandshake"
  | .sendAfterClosing => "SendAfterClosing"
  | .receivedAfterClosing => "ReceivedAfterClosing"
  | .nonZeroReservedBits => "NonZeroReservedBits"
  | .unmaskedFrameFromClient => "UnmaskedFrameFromClient"
  | .maskedFrameFromServer => "MaskedFrameFromServer"
  | .fragmentedControlFrame => "FragmentedControlFrame"
  | .controlFrameTooBig => "ControlFrameTooBig"
  | .unknownControlFrameType n => s!"UnknownControlFrameType({n})"
  | .unknownDataFrameType n => s!"UnknownDataFrameType({n})"
  | .unexpectedContinueFrame => "UnexpectedContinueFrame"
  | .expectedFragment d => s!"ExpectedFragment({showOpData d})"
  | .invalidCloseSequence => "InvalidCloseSequence"
  | .invalidOpcode n => s!"InvalidOpcode({n})"

def showErr : Err → String
  | .connectionClosed => "ConnectionClosed"
  | .alreadyClosed => "AlreadyClosed"
  | .io k => "Io." ++ kindName k
  | .capacity s m => s!"Capacity.MessageTooLong({s},{m})"
  | .protocol p => "Protocol." ++ showProto p
  | .writeBufferFull f => s!"WriteBufferFull(frame {showFrame f})"
  | .utf8 => "Utf8"

def showPanic (s : PanicSite) : String := "panic " ++ toString (repr s)

def showResMsg : Res Message → String
  | .ok m => "ok " ++ showMsg m
  | .err e => "err " ++ showErr e
  | .panic s => showPanic s

def showResUnit : Res Unit → String
  | .ok _ => "ok unit"
  | .err e => "err " ++ showErr e
  | .panic s => showPanic s

def parseMask (s : String) : Mask :=
  match unhex s with
  | [a, b, c, d] => ⟨a, b, c, d⟩
  | _ => ⟨0, 0, 0, 0⟩

def parseMasks (toks : List String) : List Mask :=
  match kv toks "m" with
  | none => []
  | some v => if v == "-" then [] else ((v.splitOn ",").filter (· != "")).map parseMask

def parseClose (toks : List String) : Option CloseFrame :=
  match toks with
  | "none" :: _ => none
  | code :: reason :: _ => some { code := closeCodeOfU16 (code.toNat?.getD 0), reason := unhex reason }
  | _ => none

def parseMessage (toks : List String) : Option Message :=
  match toks with
  | "text" :: h :: _ => some (.text (unhex h))
  | "binary" :: h :: _ => some (.binary (unhex h))
  | "ping" :: h :: _ => some (.ping (unhex h))
  | "pong" :: h :: _ => some (.pong (unhex h))
  | "close" :: rest => some (.close (parseClose rest))
  | "frame" :: bits :: opc :: mask :: payload :: _ =>
    match bits.toList, opCodeOfU8 (opc.toNat?.getD 255) with
    | [f, r1, r2, r3], some op =>
      some (.frame { header := { fin := f == '1', rsv1 := r1 == '1', rsv2 := r2 == '1', rsv3 := r3 == '1',
                                  opcode := op, mask := if mask == "-" then none else some (parseMask mask) },
                     payload := unhex payload })
    | _, _ => none
  | _ => none

def parseCfg (toks : List String) : Role × Config × Option Bytes :=
  let role := if kv toks "role" == some "client" then Role.client else Role.server
  let cfg : Config :=
    { wbuf := ((kv toks "wbuf").bind String.toNat?).getD 0
      maxw := ((kv toks "maxw").bind optNat).getD usizeMax
      maxMsg := (kv toks "maxmsg").bind optNat
      maxFrame := (kv toks "maxframe").bind optNat
      -- `default`: the field is left as `WebSocketConfig::default()` sets it (value generated from the source)
      acceptUnmasked := if kv toks "unmasked" == some "default" then Gen.defaultAcceptUnmasked
                        else kv toks "unmasked" == some "1" }
  let pre := match kv toks "pre" with
    | none => none
    | some "none" => none
    | some h => some (unhex h)
  (role, cfg, pre)

/-- one op through the model; returns the new world and the output lines -/
def runOp (w : World) (body : List String) (masks : List Mask) (ev : Events) : World × List String :=
  let w0 : World := { w with
    mu := masks, muExhausted := false,
    t := { w.t with rd := ev.rd, wr := ev.wr, fl := ev.fl, log := [], exhausted := false,
                      accepted := [], flushedUpTo := 0 } }
  let before := 0
  let (w1, res) : World × String :=
    match body with
    | "read" :: _ => let (w, r) := w0.read; (w, showResMsg r)
    | "flush" :: _ => let (w, r) := w0.flush; (w, showResUnit r)
    | "close" :: rest => let (w, r) := w0.close (parseClose rest); (w, showResUnit r)
    | "write" :: rest =>
      match parseMessage rest with
      | some m => let (w, r) := w0.write m; (w, showResUnit r)
      | none => (w0, "bad-op")
    | "send" :: rest =>
      -- `WebSocket::send` is `write` followed by `flush`
      match parseMessage rest with
      | some m =>
        match w0.write m with
        | (w, .ok ()) => let (w, r) := w.flush; (w, showResUnit r)
        | (w, r) => (w, showResUnit r)
      | none => (w0, "bad-op")
    | "setcfg" :: rest =>
      -- `set_config`: the new configuration, `assert_valid`, then the codec's two sizes
      let (_, cfg, _) := parseCfg rest
      let (w, r) := w0.setConfig fun _ => cfg
      (w, showResUnit r)
    | "can" :: _ => (w0, "ok unit")
    | _ => (w0, "bad-op")
  let calls := w1.t.log.reverse.map showCall
  let io := if calls.isEmpty then "-" else " ".intercalate calls
  let io := if w1.t.exhausted then io ++ " !script-exhausted" else io
  let io := if !w1.t.rd.isEmpty || !w1.t.wr.isEmpty || !w1.t.fl.isEmpty then io ++ " !events-left" else io
  let wire := hex (w1.t.accepted.drop before)
  let used := masks.length - w1.mu.length
  let muNote := if w1.muExhausted then " !mask-exhausted" else ""
  -- keep the accepted history short: only its length matters between ops
  (w1, [s!"io {io}", s!"res {res}", s!"wire {wire}",
        s!"can r={b01 w1.canRead} w={b01 w1.canWrite} mu={used}{muNote}"])


/-! ### pure families -/

def showCloseCodeDebug : CloseCode → String
  | .normal => "Normal" | .away => "Away" | .protocol => "Protocol" | .unsupported => "Unsupported"
  | .status => "Status" | .abnormal => "Abnormal" | .invalid => "Invalid" | .policy => "Policy"
  | .size => "Size" | .extension => "Extension" | .error => "Error" | .restart => "Restart"
  | .again => "Again" | .tls => "Tls"
  | .reserved c => s!"Reserved({c})" | .iana c => s!"Iana({c})"
  | .library c => s!"Library({c})" | .bad c => s!"Bad({c})"

def showOpCodeDebug : OpCode → String
  | .data .«continue» => "Data(Continue)"
  | .data .text => "Data(Text)"
  | .data .binary => "Data(Binary)"
  | .data (.reserved i) => s!"Data(Reserved({i}))"
  | .control .close => "Control(Close)"
  | .control .ping => "Control(Ping)"
  | .control .pong => "Control(Pong)"
  | .control (.reserved i) => s!"Control(Reserved({i}))"

def parseHeaderToks (bits opc mask : String) : Option Header :=
  match bits.toList, opCodeOfU8 (opc.toNat?.getD 255) with
  | [f, r1, r2, r3], some op =>
    some { fin := f == '1', rsv1 := r1 == '1', rsv2 := r2 == '1', rsv3 := r3 == '1',
           opcode := op, mask := if mask == "-" then none else some (parseMask mask) }
  | _, _ => none

def showHeader (h : Header) : String :=
  s!"{b01 h.fin}{b01 h.rsv1}{b01 h.rsv2}{b01 h.rsv3} {opCodeToU8 h.opcode} {showMaskOpt h.mask}"

def showOptNat : Option Nat → String
  | some n => toString n
  | none => "none"

def pureEval (toks : List String) : Option String :=
  match toks with
  | ["closecode", n] =>
    let n := n.toNat?.getD 0
    let c := closeCodeOfU16 n
    let back := closeCodeToU16 c
    some s!"out {showCloseCodeDebug c} {back} {b01 (closeCodeIsAllowed c)} {b01 (closeCodeOfU16 back == c)}"
  | ["opcode", n] =>
    match opCodeOfU8 (n.toNat?.getD 0) with
    | some op => some s!"out {showOpCodeDebug op} {opCodeToU8 op}"
    | none => some "out panic"
  | ["hparse", h] =>
    match Header.parse (unhex h) with
    | .header hd len used => some s!"out hdr {showHeader hd} {len} {used}"
    | .incomplete => some "out incomplete 0"
    | .error e => some s!"out err {showErr e}"
    | .panic _ => some "out panic"
  | ["hparseat", k, h] =>
    let k := k.toNat?.getD 0
    let bs := unhex h
    -- a cursor beyond the end reads nothing
    match Header.parse (bs.drop k) with
    | .header hd len used => some s!"out hdr {showHeader hd} {len} {k + used}"
    | .incomplete => some s!"out incomplete {k}"
    | .error e => some s!"out err {showErr e}"
    | .panic _ => some "out panic"
  | ["hformat", bits, opc, mask, len] =>
    match parseHeaderToks bits opc mask with
    | none => some "out badheader"
    | some hd =>
      let len := len.toNat?.getD 0
      some s!"out {hex (hd.format len)} {hd.len len}"
  | ["fformat", b1, o1, m1, p1, b2, o2, m2, p2] =>
    match parseHeaderToks b1 o1 m1, parseHeaderToks b2 o2 m2 with
    | some h1, some h2 =>
      let f1 : Frame := { header := h1, payload := unhex p1 }
      let f2 : Frame := { header := h2, payload := unhex p2 }
      let wire := f2.formatIntoBuf (f1.formatIntoBuf [])
      some s!"out {hex f1.format} {f1.len} {hex f2.format} {f2.len} {hex wire} 11"
    | _, _ => some "out badheader"
  | ["mask", key, _align, h] =>
    some s!"out {hex (applyMask (parseMask key) (unhex h))} canary=ok"
  | ["utf8", h] =>
    let b := unhex h
    let stdS := match utf8Validate b with
      | .ok => "ok"
      | .err v el => s!"err {v} {showOptNat el}"
    let dec := match utf8Decode b with
      | .ok => "ok"
      | .invalid v k => s!"invalid {v} {k}"
      | .incomplete v suf => s!"incomplete {v} {hex suf}"
    some s!"out std {stdS} dec {dec}"
  | ["utf8c", buf, inp] =>
    match utf8TryComplete (unhex buf) (unhex inp) with
    | .still b => some s!"out still {hex b}"
    | .done true bytes consumed => some s!"out done ok {hex bytes} {consumed}"
    | .done false bytes consumed => some s!"out done err {hex bytes} {consumed}"
    | .panic => some "out panic"
  | _ => none

def pureTags : List String :=
  ["closecode", "opcode", "hparse", "hparseat", "hformat", "fformat", "mask", "utf8", "utf8c"]


/-! ### monitors on the implementation's pure outputs -/

def allowedSpecB (c : Nat) : Bool :=
  (1000 ≤ c && c ≤ 1003) || (1007 ≤ c && c ≤ 1013) || (3000 ≤ c && c ≤ 4999)

/-- property predicates evaluated on what the real crate printed for a pure line -/
def monPure (inp : List String) (implOut : List String) : List String :=
  match inp, implOut with
  | ["closecode", n], ["out", _variant, back, allowed, again] =>
    let n := n.toNat?.getD 0
    let okBack := back.toNat? == some n
    let okAgain := again == "1"
    let okAllowed := (allowed == "1") == allowedSpecB n
    if okBack && okAgain && okAllowed then ["mon C20 ok"]
    else [s!"mon C20 FAIL closecode-{if !okBack then "u16-roundtrip" else if !okAgain then "value-roundtrip" else "allowed"} code={n}"]
  | ["hformat", bits, opc, mask, len], ["out", bytesHex, lenTok] =>
    -- C18: the bytes the real encoder wrote, decoded by the independent RFC header reader
    let bs := unhex bytesHex
    let len := len.toNat?.getD 0
    let opc := opc.toNat?.getD 255
    let minimal := 2 + (if len < 126 then 0 else if len < 65536 then 2 else 8) + (if mask == "-" then 0 else 4)
    match Spec.rawHeader bs with
    | none => ["mon C18 FAIL hformat-undecodable"]
    | some h =>
      let bitsOk := bits.toList == [if h.fin then '1' else '0', if h.rsv / 4 % 2 == 1 then '1' else '0',
                                   if h.rsv / 2 % 2 == 1 then '1' else '0', if h.rsv % 2 == 1 then '1' else '0']
      let maskOk := showMaskOpt h.mask == mask
      if !(bitsOk && h.opcode == opc && maskOk && h.len == len) then ["mon C18 FAIL hformat-roundtrip"]
      else if !(h.size == bs.length && lenTok.toNat? == some bs.length) then ["mon C18 FAIL hformat-size"]
      else if bs.length != minimal then ["mon C18 FAIL hformat-not-minimal"]
      else ["mon C18 ok"]
  | ["hparseat", k, h], "out" :: rest =>
    -- C18: decoding consumes exactly the encoded bytes, wherever the cursor started
    let k := k.toNat?.getD 0
    let bs := (unhex h).drop k
    match Spec.rawHeader bs, rest with
    | none, ["incomplete", pos] => if pos.toNat? == some k then ["mon C18 ok"] else ["mon C18 FAIL hparseat-incomplete-moved-cursor"]
    | none, _ => ["mon C18 FAIL hparseat-incomplete"]
    | some rh, ["hdr", _, _, _, len, pos] =>
      if !Spec.isDefinedOpcode rh.opcode then ["mon C18 FAIL hparseat-reserved-opcode-accepted"]
      else if len.toNat? == some rh.len && pos.toNat? == some (k + rh.size) then ["mon C18 ok"]
      else ["mon C18 FAIL hparseat-consumed-wrong-byte-count"]
    | some rh, "err" :: _ => if Spec.isDefinedOpcode rh.opcode then ["mon C18 FAIL hparseat-spurious-error"] else ["mon C18 ok"]
    | some _, _ => ["mon C18 FAIL hparseat-shape"]
  | ["hparse", h], "out" :: rest =>
    let bs := unhex h
    match Spec.rawHeader bs, rest with
    | none, ["incomplete", "0"] => ["mon C18 ok"]
    | none, _ => ["mon C18 FAIL hparse-incomplete"]
    | some rh, ["hdr", bits, opc, mask, len, used] =>
      let bitsOk := bits.toList == [if rh.fin then '1' else '0', if rh.rsv / 4 % 2 == 1 then '1' else '0',
                                   if rh.rsv / 2 % 2 == 1 then '1' else '0', if rh.rsv % 2 == 1 then '1' else '0']
      if bitsOk && opc.toNat? == some rh.opcode && mask == showMaskOpt rh.mask && len.toNat? == some rh.len
          && used.toNat? == some rh.size && Spec.isDefinedOpcode rh.opcode then ["mon C18 ok"]
      else ["mon C18 FAIL hparse-header"]
    | some rh, "err" :: _ => if Spec.isDefinedOpcode rh.opcode then ["mon C18 FAIL hparse-spurious-error"] else ["mon C18 ok"]
    | some _, _ => ["mon C18 FAIL hparse-shape"]
  | "fformat" :: _, ["out", a, la, b, lb, wire, _flags] =>
    let (ba, bb) := (unhex a, unhex b)
    if la.toNat? != some ba.length || lb.toNat? != some bb.length then ["mon C18 FAIL frame-len"]
    else if unhex wire != ba ++ bb then ["mon C18 FAIL encoders-differ", "mon C19 FAIL in-place-masking-touches-other-bytes"]
    else ["mon C18 ok", "mon C19 ok"]
  | ["utf8", h], "out" :: "std" :: verdict :: _ =>
    -- C08: the real from_utf8 against Table 3-7
    let wf := Spec.wellFormedB (unhex h)
    if (verdict == "ok") == wf then ["mon C08 ok"] else [s!"mon C08 FAIL from-utf8-disagrees-with-table bytes={h}"]
  | ["mask", key, _align, h], ["out", got, canary] =>
    let want := hex (applyMask (parseMask key) (unhex h))
    if got == want && canary == "canary=ok" then ["mon C19 ok"]
    else [s!"mon C19 FAIL mask-{if got != want then "xor" else "adjacent"} len={(unhex h).length}"]
  | _, _ => []

structure St where
  role : Role := .server
  cfg : Config := {}
  pre : Option Bytes := none
  world : Option World := none
  failedNew : Bool := false

/-- process the lines of one case (inputs and the implementation's outputs) -/
partial def runCase (lines : Array String) : Array String := Id.run do
  let mut out : Array String := #[]
  let mut st : St := {}
  let mut ic : Mon.ImplCase := {}
  let mut i := 0
  while i < lines.size do
    let line := lines[i]!
    let toks := words line
    match toks with
    | "cfg" :: _ =>
      out := out.push line
      let (role, cfg, pre) := parseCfg toks
      st := { st with role := role, cfg := cfg, pre := pre }
      -- the monitors judge against what the properties assume of an untouched configuration:
      -- unmasked client frames are NOT accepted unless explicitly allowed
      let cfgSpec := if kv toks "unmasked" == some "default" then { cfg with acceptUnmasked := false } else cfg
      ic := { ic with role := role, cfg := cfgSpec, pre := pre }
      i := i + 1
    | "op" :: rest =>
      out := out.push line
      -- gather the implementation's output lines of this op
      let mut j := i + 1
      let mut ev : Events := {}
      let body0 := rest.filter (fun t => !t.startsWith "m=")
      let mut iop : Mon.ImplOp := { body := (if body0.head? == some "send" then "write" :: body0.drop 1 else body0),
                                    isSend := body0.head? == some "send",
                                    masks := (parseMasks toks).map Mask.toBytes,
                                    newCfg := if body0.head? == some "setcfg" then some (parseCfg toks).2.1 else none }
      while j < lines.size do
        let t := words lines[j]!
        match t with
        | "io" :: evs => ev := parseIo evs; iop := { iop with io := evs.filter (· != "-") }; j := j + 1
        | "res" :: r => iop := { iop with res := r }; j := j + 1
        | "wire" :: w :: _ => iop := { iop with wire := unhex w }; j := j + 1
        | "can" :: cs => iop := { iop with canR := kv cs "r" == some "1", canW := kv cs "w" == some "1",
                                           mu := ((kv cs "mu").bind String.toNat?).getD 0 }; j := j + 1
        | "new" :: r =>
          if r.head? != some "ok" then
            ic := { ic with newOk := false }
          j := j + 1
        | "memviol" :: r =>
          ic := { ic with expects := ic.expects, memViol := some (" ".intercalate r) }
          j := j + 1
        | _ => break
      ic := { ic with ops := ic.ops.push iop }
      i := j
      -- create the socket at the first op
      if st.world.isNone && !st.failedNew then
        match Ctx.new st.role st.cfg (st.pre.getD []) with
        | some c =>
          out := out.push "new ok"
          st := { st with world := some { c := c, t := { rd := [], wr := [], fl := [] } } }
        | none =>
          out := out.push "new panic"
          st := { st with failedNew := true }
      match st.world with
      | none => out := out.push "res nosocket"
      | some w =>
        let body := rest.filter (fun t => !t.startsWith "m=")
        let (w', ls) := runOp w body (parseMasks toks) ev
        st := { st with world := some w' }
        for l in ls do out := out.push l
    | tag :: rest =>
      if tag == "io" || tag == "res" || tag == "wire" || tag == "can" || tag == "new" then
        i := i + 1   -- stray implementation line
      else if tag == "end" then
        for m in Mon.all ic do out := out.push m
        out := out.push line
        i := i + 1
      else
        if tag == "peer" then
          ic := { ic with peer := ic.peer ++ unhex (rest.headD "-") }
        if tag == "expect" then
          ic := { ic with expects := ic.expects ++ [" ".intercalate rest] }
        out := out.push line
        i := i + 1
    | [] => i := i + 1
  return out


/-! ### handshake cases -/
section Handshake
open WsModel.Hs

def parseKvList (s : String) : List (Bytes × Bytes) :=
  if s == "-" || s == "" then []
  else ((s.splitOn ",").filter (· != "")).filterMap fun p =>
    match p.splitOn "=" with
    | [n, v] => some (unhex n, unhex v)
    | _ => none

def showKvList (hs : List (Bytes × Bytes)) : String :=
  if hs.isEmpty then "-" else ",".intercalate (hs.map fun (n, v) => s!"{hex n}={hex v}")

def parseHeadParse (toks : List String) : HeadParse :=
  match toks with
  | "partial" :: _ => .incomplete
  | "toomany" :: _ => .tooManyHeaders
  | "err" :: _ => .error
  | "complete" :: rest =>
    .complete (((kv rest "size").bind String.toNat?).getD 0)
      { method := (match kv rest "method" with | some "-" => [] | some m => unhex m | none => [])
        version := ((kv rest "version").bind String.toNat?).getD 0
        code := ((kv rest "code").bind String.toNat?).getD 0
        uriOk := kv rest "uriok" == some "1"
        headers := parseKvList ((kv rest "headers").getD "-") }
  | _ => .error

def showHsErr : HsErr → String
  | .wrongHttpMethod => "Protocol.WrongHttpMethod"
  | .wrongHttpVersion => "Protocol.WrongHttpVersion"
  | .missingConnectionUpgradeHeader => "Protocol.MissingConnectionUpgradeHeader"
  | .missingUpgradeWebSocketHeader => "Protocol.MissingUpgradeWebSocketHeader"
  | .missingSecWebSocketVersionHeader => "Protocol.MissingSecWebSocketVersionHeader"
  | .missingSecWebSocketKey => "Protocol.MissingSecWebSocketKey"
  | .secWebSocketAcceptKeyMismatch => "Protocol.SecWebSocketAcceptKeyMismatch"
  | .subProtocol .serverSentSubProtocolNoneRequested => "Protocol.SecWebSocketSubProtocolError(ServerSentSubProtocolNoneRequested)"
  | .subProtocol .invalidSubProtocol => "Protocol.SecWebSocketSubProtocolError(InvalidSubProtocol)"
  | .subProtocol .noSubProtocol => "Protocol.SecWebSocketSubProtocolError(NoSubProtocol)"
  | .junkAfterRequest => "Protocol.JunkAfterRequest"
  | .customResponseSuccessful => "Protocol.CustomResponseSuccessful"
  | .handshakeIncomplete => "Protocol.HandshakeIncomplete"
  | .httparse => "Protocol.HttparseError"
  | .tooManyHeaders => "Capacity.TooManyHeaders"
  | .httpFormat => "HttpFormat"
  | .attackAttempt => "AttackAttempt"
  | .utf8 => "Utf8"
  | .invalidHeader n => s!"Protocol.InvalidHeader(\"{String.ofList (n.map fun b => Char.ofNat b.toNat)}\")"
  | .urlUnsupportedScheme => "Url.UnsupportedUrlScheme"
  | .urlNoHostName => "Url.NoHostName"
  | .urlEmptyHostName => "Url.EmptyHostName"
  | .urlNoPathOrQuery => "Url.NoPathOrQuery"
  | .io k => "Io." ++ kindName k
  | .http status body => s!"Http({status},{match body with | some b => hex b | none => "none"})"


def parseCallback (spec : String) (statusLine : Bytes) : Callback :=
  match spec.splitOn ":" with
  | ["none"] => .none_
  | "accept" :: hs :: _ => .accept (parseKvList hs)
  | ["accept"] => .accept []
  | "reject" :: status :: body :: rest =>
    .reject (status.toNat?.getD 0) statusLine (parseKvList (rest.headD "-"))
      (if body == "none" then none else some (unhex body))
  | _ => .none_


/-- executable transcription of the property's conditions on a parsed request head (C15) -/
def validUpgradeB (h : RawHead) : Bool :=
  let find (name : String) : Option Bytes := hget h.headers name.toUTF8.toList
  let printable (v : Bytes) : Bool := v.all fun b => b == 9 || (32 ≤ b && b < 127)
  let lowerS (v : Bytes) : Bytes := v.map fun b => if 65 ≤ b && b ≤ 90 then b + 32 else b
  h.method == "GET".toUTF8.toList && h.version ≥ 1 && h.uriOk
  && (match find "Connection" with
      | some v => printable v && ((splitOn [32, 44] v).any fun t => lowerS t == "upgrade".toUTF8.toList)
      | none => false)
  && (match find "Upgrade" with
      | some v => printable v && lowerS v == "websocket".toUTF8.toList
      | none => false)
  && find "Sec-WebSocket-Version" == some "13".toUTF8.toList
  && (find "Sec-WebSocket-Key").isSome

def isPrefixOf (p l : Bytes) : Bool := l.take p.length == p

/-- monitors on a handshake case: impl lines only -/
def monHs (isServer : Bool) (lines : Array String) (cbSpec : String) (statusLine : Bytes) : List String := Id.run do
  let mut out : List String := []
  let mut wire : Bytes := []
  let mut lastComplete : Option (Nat × RawHead) := none
  let mut lastLen := 0
  let mut reads := 0
  let mut hsOk := false
  let mut hsDone := false
  let mut finishing := false
  let mut panicked := false
  let mut implHeaders : List (Bytes × Bytes) := []
  let mut headComplete := false     -- the bytes delivered so far contain a complete head
  let mut lastPartial := false      -- ... are a proper prefix of a head (the parser says: need more)
  let mut readAfterHead := false
  let mut continuedAfterBlock := false
  let mut gPackets := 0
  let mut gBytes := 0
  let mut guardTripped := false
  let mut readsAfterTrip := 0
  let mut attackReported := false
  let mut attackWhileQuiet := false
  let mut trippedNotReported := false   -- the guard's bound was passed and the call ended with something else
  let mut failedOnPartial : Option String := none
  for l in lines do
    match words l with
    | "io" :: evs =>
      if headComplete && !finishing && !hsDone && evs.any (fun t => t.startsWith "r:") then readAfterHead := true
      -- C17: the attack guard, recomputed from the sizes of the reads of the reading stage
      if !hsDone then
        for t in evs do
          if t.startsWith "r:" && t != "r:b" && t != "r:e" && !t.startsWith "r:x" && t != "r:z" then
            let n := ((t.drop 2).toString.length) / 2
            if n > 0 then
              if guardTripped then readsAfterTrip := readsAfterTrip + 1
              gPackets := gPackets + 1
              gBytes := gBytes + n
              if gBytes > 65536 || gPackets > 512 || (gPackets > 64 && gPackets * 128 > gBytes) then guardTripped := true
      -- a transport call that would block ends the handshake call: nothing follows it
      if !hsDone then
        let blockedAt := evs.findIdx? fun t => t == "r:b" || t == "f:b" || t.startsWith "w:b"
        match blockedAt with
        | some k => if k + 1 < evs.length then continuedAfterBlock := true
        | none => pure ()
    | "parsed" :: n :: rest =>
      if !hsDone then
        reads := reads + 1
        lastLen := n.toNat?.getD 0
        lastPartial := rest.head? == some "partial"
        match parseHeadParse rest with
        | .complete size h => lastComplete := some (size, h); headComplete := true
        | _ => pure ()
    | "reqheaders" :: r :: _ => implHeaders := parseKvList r
    | "wire" :: w :: _ =>
      if !hsDone then wire := wire ++ unhex w
      if finishing then hsDone := true
    | "res" :: "hs" :: "ok" :: _ =>
      if guardTripped && !finishing then trippedNotReported := true
      hsOk := true; finishing := true
    | "res" :: "hs" :: "err" :: e =>
      if e.head? != some "AttackAttempt" && guardTripped && !finishing then trippedNotReported := true
      if e.head? == some "AttackAttempt" && !finishing then
        attackReported := true
        if !guardTripped then attackWhileQuiet := true
      let e0 := e.head?.getD ""
      if !finishing && lastPartial && !(e0.startsWith "Io." || e0 == "Protocol.HandshakeIncomplete" || e0 == "AttackAttempt") then
        failedOnPartial := some e0
      finishing := true
    | "res" :: "panic" :: _ => panicked := true
    | _ => pure ()
  -- a handshake either yields a WebSocket or fails with an error: a panic is neither
  if panicked then out := out ++ ["mon C07 FAIL panic-handshake", s!"mon {if isServer then "C15" else "C16"} FAIL panic-handshake"]
  else out := out ++ ["mon C07 ok"]
  -- the outcome does not depend on the segmentation: a proper prefix of a head is not an error, and
  -- once the head is complete the stage stops reading
  let own := if isServer then "C15" else "C16"
  match failedOnPartial with
  | some e => out := out ++ [s!"mon C17 FAIL failed-on-incomplete-head {e}", s!"mon {own} FAIL failed-on-incomplete-head {e}"]
  | none => pure ()
  if readAfterHead then
    out := out ++ ["mon C17 FAIL read-after-complete-head", s!"mon {own} FAIL read-after-complete-head"]
  if continuedAfterBlock then
    out := out ++ ["mon C17 FAIL continued-after-wouldblock", "mon C07 FAIL handshake-continued-after-wouldblock"]
  -- C17: the guard bounds what a reading stage consumes
  if readsAfterTrip > 0 then out := out ++ ["mon C17 FAIL attack-guard-did-not-stop-the-reading"]
  else if trippedNotReported then out := out ++ ["mon C17 FAIL attack-guard-tripped-but-not-reported"]
  else if attackWhileQuiet then out := out ++ ["mon C17 FAIL attack-reported-although-within-bounds"]
  else if reads > 513 || lastLen > 65536 + 4096 then out := out ++ ["mon C17 FAIL guard-bound-exceeded"]
  else out := out ++ ["mon C17 ok"]
  let status101 : Bytes := "HTTP/1.1 101".toUTF8.toList
  if isServer then
    -- C17: what is written is a prefix of the one response the specification dictates: nothing lost, nothing repeated
    match lastComplete with
    | some (size, h) =>
      if size == lastLen then
        let expected := (serverSpec (parseCallback cbSpec statusLine) h).1
        if !(isPrefixOf wire expected) then out := out ++ ["mon C17 FAIL response-bytes-lost-or-repeated"]
    | none => pure ()
    let valid := match lastComplete with
      | some (size, h) => validUpgradeB h && size == lastLen
      | none => false
    let wrote101 := isPrefixOf status101 wire
    let rejecting := cbSpec.startsWith "reject"
    if hsOk && !valid then out := out ++ ["mon C15 FAIL upgraded-invalid-request"]
    else if wrote101 && !valid then out := out ++ ["mon C15 FAIL wrote-101-for-invalid-request"]
    else if hsOk then
      match lastComplete with
      | some (_, h) =>
        let key := (hget h.headers "Sec-WebSocket-Key".toUTF8.toList).getD []
        let accept := Hs.base64Encode (Hs.sha1 (key ++ "258EAFA5-E914-47DA-95CA-C5AB0DC85B11".toUTF8.toList))
        let want := "sec-websocket-accept: ".toUTF8.toList ++ accept ++ [13, 10]
        let hasAccept := (List.range wire.length).any fun i => (wire.drop i).take want.length == want
        let hasUpg := (List.range wire.length).any fun i => isPrefixOf "upgrade: websocket\r\n".toUTF8.toList (wire.drop i)
        let hasConn := (List.range wire.length).any fun i => isPrefixOf "connection: Upgrade\r\n".toUTF8.toList (wire.drop i)
        if !(wrote101 && hasAccept && hasUpg && hasConn) then out := out ++ ["mon C15 FAIL bad-101-response"]
        else out := out ++ ["mon C15 ok"]
      | none => out := out ++ ["mon C15 FAIL upgraded-without-head"]
    else if valid && rejecting && finishing then
      -- a rejection by the callback is written in full and reported as an HTTP error (a 2xx
      -- "rejection" is refused as CustomResponseSuccessful, and a transport failure may pre-empt both)
      let transportErr := lines.any fun l => l.startsWith "res hs err Io." || l.startsWith "res hs err Protocol.HandshakeIncomplete" || l.startsWith "res hs err AttackAttempt"
      match parseCallback cbSpec statusLine with
      | .reject status line hs body =>
        if 200 ≤ status && status < 300 then out := out ++ ["mon C15 ok"]
        else if transportErr then out := out ++ ["mon C15 ok"]
        else
          let want := s!"res hs err Http({status},{match body with | some b => hex b | none => "none"})"
          if !(lines.any fun l => l.startsWith want) then
            out := out ++ ["mon C15 FAIL rejection-not-reported-as-http-error"]
          else
            let infixOf (needle hay : Bytes) : Bool :=
              (List.range (hay.length + 1)).any fun i => isPrefixOf needle (hay.drop i)
            let lowerS (v : Bytes) : Bytes := v.map fun b => if 65 ≤ b && b ≤ 90 then b + 32 else b
            let linesOk := hs.all fun (n, v) => infixOf ([13, 10] ++ lowerS n ++ [58, 32] ++ v ++ [13, 10]) wire
            let b := body.getD []
            let bodyOk := wire.drop (wire.length - (4 + b.length)) == [13, 10, 13, 10] ++ b
            if !(isPrefixOf (line ++ [13, 10]) wire && linesOk && bodyOk) then
              out := out ++ ["mon C15 FAIL rejection-response-not-written-in-full"]
            else out := out ++ ["mon C15 ok"]
      | _ => out := out ++ ["mon C15 ok"]
    else if valid && !rejecting && finishing && !(lines.any fun l => l.startsWith "res hs err Io." || l.startsWith "res hs err Protocol.HandshakeIncomplete" || (l.startsWith "res hs err AttackAttempt" && !attackWhileQuiet) || l.startsWith "res hs err Protocol.Custom") then
      out := out ++ ["mon C15 FAIL valid-request-refused"]
    else out := out ++ ["mon C15 ok"]
  else
    -- C16: the request on the wire and the acceptance decision
    let crlf2 : Bytes := [13, 10, 13, 10]
    let complete := (List.range wire.length).any fun i => (wire.drop i).take 4 == crlf2
    if complete then
      let text := String.ofList (wire.map fun b => Char.ofNat b.toNat)
      let ls := (text.splitOn "\r\n")
      let hdrs := (ls.drop 1).filter (· != "")
      let count (name : String) : Nat := (hdrs.filter fun l => (l.toLower).startsWith (name.toLower ++ ":")).length
      let once := ["Host", "Connection", "Upgrade", "Sec-WebSocket-Version", "Sec-WebSocket-Key"].all fun n => count n == 1
      let startOk := match ls.head? with
        | some l => l.startsWith "GET " && l.endsWith " HTTP/1.1"
        | none => false
      let hostLine := (hdrs.find? fun l => l.toLower.startsWith "host:").getD ""
      let valueOf (name : String) : String :=
        match hdrs.find? fun l => l.toLower.startsWith (name.toLower ++ ":") with
        | some l => ((l.drop (name.length + 1)).toString.trimAscii).toString
        | none => ""
      -- what the caller supplied: the URL's authority and the extra headers
      let authority : Option String := lines.toList.findSome? fun l =>
        match words l with
        | "uriview" :: r => (kv r "authority").map fun h => String.ofList ((unhex h).map fun b => Char.ofNat b.toNat)
        | _ => none
      let extraVals : List String := (lines.toList.findSome? fun l =>
        match words l with
        | "hcfg" :: r => (kv r "extra").map fun v => (parseKvList v).map fun p => String.ofList (p.2.map fun b => Char.ofNat b.toNat)
        | _ => none).getD []
      let hostWant := authority.map fun a => ((a.splitOn "@").getLast?.getD a)
      let isCustom := lines.toList.any fun l =>
        match words l with
        | "hcfg" :: r => (kv r "custom").isSome
        | _ => false
      if !startOk || !once then out := out ++ ["mon C16 FAIL malformed-request"]
      else if hostLine.contains '@' then out := out ++ ["mon C16 FAIL host-contains-credentials"]
      else if isCustom then pure ()   -- a request object built by the caller is sent as it is
      else if valueOf "Connection" != "Upgrade" || valueOf "Upgrade" != "websocket" || valueOf "Sec-WebSocket-Version" != "13" then
        out := out ++ ["mon C16 FAIL mandatory-header-overridden"]
      else if hostWant.isSome && hostWant != some (valueOf "Host") then out := out ++ ["mon C16 FAIL host-is-not-the-url-authority"]
      else if extraVals.contains (valueOf "Sec-WebSocket-Key") then out := out ++ ["mon C16 FAIL key-is-caller-supplied-not-random"]
      else pure ()
    -- the client only starts reading the response after the whole request went out
    if (reads > 0 || hsOk) && !complete then out := out ++ ["mon C16 FAIL request-truncated"]
    if hsOk then
      match lastComplete with
      | some (_, h) =>
        let key := (hget implHeaders "sec-websocket-key".toUTF8.toList).getD []
        let accept := Hs.base64Encode (Hs.sha1 (key ++ "258EAFA5-E914-47DA-95CA-C5AB0DC85B11".toUTF8.toList))
        let lowerS (v : Bytes) : Bytes := v.map fun b => if 65 ≤ b && b ≤ 90 then b + 32 else b
        let okUp := ((hget h.headers "Upgrade".toUTF8.toList).map fun v => lowerS v == "websocket".toUTF8.toList).getD false
        let okConn := ((hget h.headers "Connection".toUTF8.toList).map fun v => lowerS v == "upgrade".toUTF8.toList).getD false
        let okAcc := hget h.headers "Sec-WebSocket-Accept".toUTF8.toList == some accept
        let offered := (hget implHeaders "sec-websocket-protocol".toUTF8.toList).map fun v =>
          (splitOn [44] v).map trimAscii
        let okProto := match hget h.headers "Sec-WebSocket-Protocol".toUTF8.toList, offered with
          | none, none => true
          | some p, some os => os.contains p
          | _, _ => false
        if h.code != 101 || !okUp || !okConn || !okAcc || !okProto then
          out := out ++ ["mon C16 FAIL accepted-bad-response"]
      | none => out := out ++ ["mon C16 FAIL accepted-without-head"]
    if !(out.any fun l => l.startsWith "mon C16") then out := out ++ ["mon C16 ok"]
  return out

inductive HsStage where
  | fresh
  | serverMid (m : ServerMid)
  | clientMid (m : ClientMid)
  | socket (w : World)
  | dead

def optHex (s : Option String) : Option Bytes :=
  match s with
  | none => none
  | some "none" => none
  | some h => some (unhex h)

/-- process one handshake case -/
partial def runHsCase (lines : Array String) : Array String := Id.run do
  let mut out : Array String := #[]
  let isServer := (lines[0]?.getD "").splitOn " " |>.any (· == "hs-server")
  -- the parse oracle: result of httparse for each buffer length seen in this case
  let table : List (Nat × HeadParse) := lines.toList.filterMap fun l =>
    match words l with
    | "parsed" :: n :: rest => some (n.toNat?.getD 0, parseHeadParse rest)
    | _ => none
  let parse : Bytes → HeadParse := fun buf =>
    let n := buf.length     -- computed once, not once per table entry
    match table.find? (·.1 == n) with
    | some (_, r) => r
    | none => .error
  let statusLine : Bytes := match lines.toList.findSome? fun l =>
      match words l with | ["statusline", h] => some (unhex h) | _ => none with
    | some b => b
    | none => []
  let mut hcfg : List String := []
  let mut cfgToks : Option (List String) := none
  let mut sockOps : Array Mon.ImplOp := #[]
  let mut deliveredChunks : Array Bytes := #[]   -- appended per read event, flattened once (linear)
  let mut stage : HsStage := .fresh
  let mut trans : Transport := { rd := [], wr := [], fl := [] }
  let mut i := 0
  while i < lines.size do
    let line := lines[i]!
    let toks := words line
    match toks with
    | "hcfg" :: rest => hcfg := rest; out := out.push line; i := i + 1
    | "cfg" :: _ => cfgToks := some toks; out := out.push line; i := i + 1
    | "op" :: rest =>
      out := out.push line
      let mut j := i + 1
      let mut ev : Events := {}
      let mut uriview : Option (List String) := none
      let mut implReqHeaders : Option String := none
      let mut echo : Array String := #[]
      let mut iop : Mon.ImplOp := { body := rest.filter (fun t => !t.startsWith "m=") }
      while j < lines.size do
        let t := words lines[j]!
        match t with
        | "io" :: evs =>
          ev := parseIo evs
          iop := { iop with io := evs.filter (· != "-") }
          for e in ev.rd do
            match e with
            | .data bs => deliveredChunks := deliveredChunks.push bs
            | _ => pure ()
          j := j + 1
        | "parsed" :: _ => echo := echo.push lines[j]!; j := j + 1
        | "uriview" :: r => uriview := some r; echo := echo.push lines[j]!; j := j + 1
        | "reqheaders" :: r => implReqHeaders := r.head?; j := j + 1
        | "res" :: r => iop := { iop with res := r }; j := j + 1
        | "wire" :: w :: _ => iop := { iop with wire := unhex w }; j := j + 1
        | "can" :: _ => j := j + 1
        | _ => break
      i := j
      if iop.body.head? == some "read" || iop.body.head? == some "flush" then
        match stage with
        | .socket _ => sockOps := sockOps.push iop
        | _ => pure ()
      let body := rest.filter (fun t => !t.startsWith "m=")
      let masks := parseMasks toks
      let t0 : Transport := { trans with rd := ev.rd, wr := ev.wr, fl := ev.fl, log := [], exhausted := false,
                                          accepted := [], flushedUpTo := 0 }
      let finish (t : Transport) (res : String) (extra : List String) : Array String :=
        let calls := t.log.reverse.map showCall
        let io := if calls.isEmpty then "-" else " ".intercalate calls
        let io := if t.exhausted then io ++ " !script-exhausted" else io
        let io := if !t.rd.isEmpty || !t.wr.isEmpty || !t.fl.isEmpty then io ++ " !events-left" else io
        #[s!"io {io}"] ++ echo ++ extra.toArray ++ #[s!"res {res}", s!"wire {hex t.accepted}"]
      let mkWorld (role : Role) (pre : Bytes) : Option World :=
        let cfg : Config := match cfgToks with
          | some ts => (parseCfg ts).2.1
          | none => {}
        (Ctx.new role cfg pre).map fun c => { c := c, t := { rd := [], wr := [], fl := [] } }
      match body, stage with
      | "accept" :: _, .fresh =>
        let cb := parseCallback ((kv hcfg "callback").getD "none") statusLine
        let m := serverStart cb
        let (t, m', o) := serverLoop parse (hsFuel m.state t0) m t0
        trans := t
        match o with
        | .done () =>
          stage := match mkWorld .server [] with | some w => .socket w | none => .dead
          for l in finish t "hs ok" [] do out := out.push l
        | .interrupted => stage := .serverMid m'; for l in finish t "hs interrupted" [] do out := out.push l
        | .failed e => stage := .dead; for l in finish t s!"hs err {showHsErr e}" [] do out := out.push l
        | .panic => stage := .dead; for l in finish t "panic" [] do out := out.push l
      | "resume" :: _, .serverMid m =>
        let (t, m', o) := serverLoop parse (hsFuel m.state t0) m t0
        trans := t
        match o with
        | .done () =>
          stage := match mkWorld .server [] with | some w => .socket w | none => .dead
          for l in finish t "hs ok" [] do out := out.push l
        | .interrupted => stage := .serverMid m'; for l in finish t "hs interrupted" [] do out := out.push l
        | .failed e => stage := .dead; for l in finish t s!"hs err {showHsErr e}" [] do out := out.push l
        | .panic => stage := .dead; for l in finish t "panic" [] do out := out.push l
      | "client" :: _, .fresh =>
        -- the URI as http::Uri sees it (oracle) and the key the implementation generated (oracle)
        match uriview with
        | none | some ["invalid"] =>
          stage := .dead
          for l in finish t0 "hs err HttpFormat" [] do out := out.push l
        | some uv =>
          let u : UriView := { scheme := optHex (kv uv "scheme"), authority := optHex (kv uv "authority"),
                               pathAndQuery := optHex (kv uv "path") }
          let implHs := parseKvList (implReqHeaders.getD "-")
          let key := (hget implHs reqKeyName).getD []
          let built : Except HsErr HMap :=
            match kv hcfg "custom" with
            | some c => .ok (HMap.ofList (parseKvList c))
            | none =>
              let protos := match kv hcfg "protos" with
                | some "-" => []
                | some p => ((p.splitOn ",").filter (· != "")).map unhex
                | none => []
              requestFromUri u key (parseKvList ((kv hcfg "extra").getD "-")) protos
          match built with
          | .error e => stage := .dead; for l in finish t0 s!"hs err {showHsErr e}" [] do out := out.push l
          | .ok hm =>
            let rh := s!"reqheaders {showKvList hm.iter}"
            let methodIsGet := (kv hcfg "cmethod").getD "GET" == "GET"
            let versionOk := (kv hcfg "cversion").getD "11" != "10"
            match clientStartChecked methodIsGet versionOk u hm with
            | .error e => stage := .dead; for l in finish t0 s!"hs err {showHsErr e}" [rh] do out := out.push l
            | .ok (vd, req) =>
              let m : ClientMid := { verify := vd, state := .writing req }
              let (t, m', o) := clientLoop parse (hsFuel m.state t0) m t0
              trans := t
              match o with
              | .done tail =>
                stage := match mkWorld .client tail with | some w => .socket w | none => .dead
                for l in finish t "hs ok" [rh] do out := out.push l
              | .interrupted => stage := .clientMid m'; for l in finish t "hs interrupted" [rh] do out := out.push l
              | .failed e => stage := .dead; for l in finish t s!"hs err {showHsErr e}" [rh] do out := out.push l
              | .panic => stage := .dead; for l in finish t "panic" [rh] do out := out.push l
      | "resume" :: _, .clientMid m =>
        let (t, m', o) := clientLoop parse (hsFuel m.state t0) m t0
        trans := t
        match o with
        | .done tail =>
          stage := match mkWorld .client tail with | some w => .socket w | none => .dead
          for l in finish t "hs ok" [] do out := out.push l
        | .interrupted => stage := .clientMid m'; for l in finish t "hs interrupted" [] do out := out.push l
        | .failed e => stage := .dead; for l in finish t s!"hs err {showHsErr e}" [] do out := out.push l
        | .panic => stage := .dead; for l in finish t "panic" [] do out := out.push l
      | "resume" :: _, .socket _ =>
        for l in finish t0 "nosocket" [] do out := out.push l
      | _, .socket w =>
        let (w', ls) := runOp w body masks ev
        stage := .socket w'
        for l in ls do
          -- handshake transcripts carry no mask-usage count
          if l.startsWith "can " then
            out := out.push (" ".intercalate ((words l).filter fun t => !t.startsWith "mu="))
          else out := out.push l
      | _, _ =>
        for l in finish t0 "nosocket" [] do out := out.push l
    | tag :: _ =>
      if tag == "io" || tag == "res" || tag == "wire" || tag == "can" || tag == "parsed" || tag == "uriview"
          || tag == "reqheaders" then
        i := i + 1
      else if tag == "end" then
        for m in monHs isServer lines ((kv hcfg "callback").getD "none") statusLine do out := out.push m
        -- C16: frame bytes that arrived with the response head are the first thing read from the socket
        if !isServer && sockOps.size > 0 then
          let headSize := (lines.toList.findSome? fun l =>
            match words l with
            | "parsed" :: _ :: "complete" :: r => (kv r "size").bind String.toNat?
            | _ => none).getD 0
          let cfg : Config := match cfgToks with
            | some ts => (parseCfg ts).2.1
            | none => {}
          -- what arrived during the handshake after the head was handed over as already read;
          -- what the socket's own reads fetched is its inbound stream
          let allDelivered : Bytes := deliveredChunks.toList.flatten
          let after := allDelivered.drop headSize
          let sockGot := Mon.deliveredBytes { ops := sockOps }
          let ic : Mon.ImplCase := { role := .client, cfg := cfg, pre := some (after.take (after.length - sockGot)),
                                     peer := after.drop (after.length - sockGot), ops := sockOps }
          match Mon.specVerdict ic with
          | some v => out := out.push s!"mon C16 FAIL tail-{v}"
          | none => pure ()
        out := out.push line
        i := i + 1
      else
        out := out.push line
        i := i + 1
    | [] => i := i + 1
  return out

end Handshake


/-! ### two-party cases (C04) -/

structure TpSide where
  st : St := {}
  ic : Mon.ImplCase := {}
  /-- global op index of each op of this side -/
  idx : Array Nat := #[]

/-- joint monitor for C04 on the implementation's trace -/
def monC04 (c s : TpSide) (drops : List (String × Nat)) : List String :=
  let sideFails (me peer : TpSide) (name : String) : List String := Id.run do
    let mut out : List String := []
    -- neither side ever sees a protocol error (writing after one's own close is a user error, not counted)
    for o in me.ic.ops do
      match Mon.resErr o with
      | some e =>
        if e.startsWith "Protocol." && e != "Protocol.SendAfterClosing" then
          out := out ++ [s!"{name}-protocol-error-{e}"]
      | none => pure ()
      if Mon.isPanic o then out := out ++ [s!"{name}-panic"]
    -- what this side read is a prefix of what the peer wrote (data messages, in order)
    let got := (me.ic.ops.toList.filter fun o => Mon.isOp o "read").filterMap fun o =>
      match o.res with
      | ["ok", "text", h] => some ("text " ++ h)
      | ["ok", "binary", h] => some ("binary " ++ h)
      | _ => none
    let sent := peer.ic.ops.toList.filterMap fun o =>
      match o.body, o.res with
      | ["write", "text", h], r => if r.head? == some "ok" || ((Mon.resErr o).map (·.startsWith "Io.")).getD false then some ("text " ++ h) else none
      | ["write", "binary", h], r => if r.head? == some "ok" || ((Mon.resErr o).map (·.startsWith "Io.")).getD false then some ("binary " ++ h) else none
      | _, _ => none
    if !(got.length ≤ sent.length && got == sent.take got.length) then
      out := out ++ [s!"{name}-read-not-prefix-of-peer-writes"]
    return out
  let closing := c.ic.ops.any (fun o => Mon.isOp o "close" || Mon.isWriteKind o "close")
    || s.ic.ops.any (fun o => Mon.isOp o "close" || Mon.isWriteKind o "close")
  let closedAt (t : TpSide) : Option Nat := Id.run do
    let mut r : Option Nat := none
    for i in [0:t.ic.ops.size] do
      if Mon.resErr t.ic.ops[i]! == some "ConnectionClosed" && r.isNone then r := t.idx[i]?
    return r
  let bothAlive := !(c.ic.ops.any Mon.isPanic) && !(s.ic.ops.any Mon.isPanic)
  let term : List String :=
    if !closing || !bothAlive then []
    else match closedAt s, closedAt c with
      | some i, some j => if i < j then [] else ["client-closed-before-server"]
      | none, _ => ["server-never-told-closed"]
      | some _, none => ["client-never-told-closed"]
  -- everything written and flushed before the sender's Close is delivered first
  let delivered (me peer : TpSide) (name : String) : List String :=
    if !closing || !bothAlive || (closedAt me).isNone then [] else Id.run do
      let mut flushed : List String := []
      let mut pendingW : List String := []
      let mut stop := false
      for o in peer.ic.ops do
        if !stop then
          if Mon.isOp o "close" || Mon.isWriteKind o "close" then stop := true
          else
            match o.body, o.res with
            | ["write", k, h], "ok" :: _ => if k == "text" || k == "binary" then pendingW := pendingW ++ [k ++ " " ++ h]
            | ["flush"], ["ok", "unit"] => flushed := flushed ++ pendingW; pendingW := []
            | _, _ => pure ()
      let got := (me.ic.ops.toList.filter fun o => Mon.isOp o "read").filterMap fun o =>
        match o.res with
        | ["ok", "text", h] => some ("text " ++ h)
        | ["ok", "binary", h] => some ("binary " ++ h)
        | _ => none
      if flushed.all (fun m => got.contains m) then [] else [s!"{name}-missed-message-flushed-before-close"]
  let _ := drops
  let fails := sideFails c s "client" ++ sideFails s c "server" ++ term ++ delivered c s "client" ++ delivered s c "server"
  match fails with
  | [] => ["mon C04 ok"]
  | f :: _ => [s!"mon C04 FAIL {f}"]

/-! ### `FrameSocket` cases: the codec model against the real codec, nothing in between -/

def showResFrameOpt : Res (Option Frame) → String
  | .ok (some f) => "ok frame " ++ showFrame f
  | .ok none => "ok none"
  | .err e => "err " ++ showErr e
  | .panic _ => "panic"

def showResUnitP : Res Unit → String
  | .ok _ => "ok unit"
  | .err e => "err " ++ showErr e
  | .panic _ => "panic"

partial def runFsCase (lines : Array String) : Array String := Id.run do
  let mut out : Array String := #[]
  -- `FrameCodec::new(READ_BUF_LEN)`: no write batching, no bound on the write buffer
  let mut codec : Codec := { maxOut := usizeMax, writeLen := 0 }
  -- what the implementation did, for the monitors: (kind, tokens after the kind, its res line, its wire bytes)
  let mut implOps : Array (String × List String × List String × Bytes × List String) := #[]
  let mut inbound : Bytes := []      -- pre-read bytes followed by what the peer sends
  let mut i := 0
  while i < lines.size do
    let line := lines[i]!
    let toks := words line
    match toks with
    | "fcfg" :: r =>
      out := out.push line
      match kv r "pre" with
      | some "none" => pure ()
      | some h => codec := { codec with inBuf := unhex h }; inbound := unhex h ++ inbound
      | none => pure ()
      i := i + 1
    | "op" :: kind :: rest =>
      out := out.push line
      let mut j := i + 1
      let mut ev : Events := {}
      let mut ires : List String := []
      let mut iwire : Bytes := []
      let mut iio : List String := []
      while j < lines.size do
        match words lines[j]! with
        | "io" :: evs => ev := parseIo evs; iio := evs; j := j + 1
        | "res" :: r => ires := r; j := j + 1
        | "wire" :: w :: _ => iwire := unhex w; j := j + 1
        | "wire" :: _ => j := j + 1
        | _ => break
      i := j
      implOps := implOps.push (kind, rest, ires, iwire, iio)
      let t0 : Transport := { rd := ev.rd, wr := ev.wr, fl := ev.fl }
      let frameOf : Option Frame := match parseMessage rest with
        | some (.frame f) => some f
        | _ => none
      let s0 : FSock := ⟨codec, t0⟩
      let (codec', t1, res) : Codec × Transport × String :=
        match kind, frameOf with
        | "fread", _ =>
          let max := match kv rest "max" with
            | some "none" => none
            | some n => n.toNat?
            | none => none
          let (s, r) := s0.read max
          (s.c, s.t, showResFrameOpt r)
        | "fwrite", some f =>
          let (s, r) := s0.write f
          (s.c, s.t, showResUnitP r)
        | "fsend", some f =>
          let (s, r) := s0.send f
          (s.c, s.t, showResUnitP r)
        | "fflush", _ =>
          let (s, r) := s0.flush
          (s.c, s.t, showResUnitP r)
        | _, _ => (codec, t0, "bad-op")
      codec := codec'
      let calls := t1.log.reverse.map showCall
      let io := if calls.isEmpty then "-" else " ".intercalate calls
      let io := if t1.exhausted then io ++ " !script-exhausted" else io
      let io := if !t1.rd.isEmpty || !t1.wr.isEmpty || !t1.fl.isEmpty then io ++ " !events-left" else io
      out := out.push s!"io {io}"
      out := out.push s!"res {res}"
      out := out.push s!"wire {hex t1.accepted}"
    | tag :: _ =>
      if tag == "peer" then inbound := inbound ++ unhex ((toks.getD 1 "-"))
      if tag == "io" || tag == "res" || tag == "wire" then i := i + 1
      else
        out := out.push line
        i := i + 1
    | [] => i := i + 1
  -- monitors on the implementation's lines: what a FrameSocket puts on the wire is, frame by frame,
  -- what was written, in order; a flush that returns Ok leaves nothing behind
  let bad : Option String := Id.run do
    let mut bad : Option String := none
    let mut expected : List (Bool × Nat × Nat × Bytes × Bytes) := []
    let mut wire : Bytes := []
    let mut live := true
    for (kind, rest, res, w, iio) in implOps do
      if live then
        wire := wire ++ w
        -- an I/O error handed to the caller comes from the transport
        for m in Mon.monIoOrigin { ops := #[{ body := [if kind == "fread" then "read" else "write"], io := iio, res := res }] } do
          if bad.isNone then bad := some ((m.splitOn " FAIL ").getD 1 "io-error-not-from-the-transport")
        if res.head? == some "panic" then live := false
        else
          if kind == "fwrite" || kind == "fsend" then
            let queued := res.head? == some "ok" || (match res with | "err" :: e :: _ => e.startsWith "Io." | _ => false)
            match rest with
            | "frame" :: bits :: opc :: mask :: payload :: _ =>
              let b := bits.toList
              let bit (k : Nat) (v : Nat) : Nat := if b[k]? == some '1' then v else 0
              if queued then
                expected := expected ++ [(b[0]? == some '1', bit 1 4 + bit 2 2 + bit 3 1, opc.toNat?.getD 255,
                  (if mask == "-" then [] else unhex mask), unhex payload)]
            | _ => live := false
          let (fs, tail) := Mon.wireFrames wire
          let onWire := fs.map fun f => (f.fin, f.rsv, f.opcode, f.key, f.payload)
          if !(onWire.length ≤ expected.length && onWire == expected.take onWire.length) then
            bad := bad <|> some "frame-socket-wire-differs-from-frames-written"
          if (kind == "fflush" || kind == "fsend") && res == ["ok", "unit"] then
            if onWire.length != expected.length || !tail.isEmpty then
              bad := bad <|> some "frame-socket-flush-ok-but-data-unsent"
    return bad
  -- the frames `read` hands out are, one by one, the frames of the inbound stream as the
  -- independent header reader sees them (flags, opcode, key, payload bytes as on the wire), whatever
  -- length form the sender chose — up to the first error
  let badRead : Option String := Id.run do
    let (fs, _) := Mon.wireFrames inbound
    let mut k := 0
    let mut bad : Option String := none
    let mut live := true
    for (kind, _, res, _, _) in implOps do
      if live && kind == "fread" then
        match res with
        | ["ok", "frame", bits, opc, mask, payload] =>
          match fs[k]? with
          | some f =>
            let b := bits.toList
            let bit (n : Nat) (v : Nat) : Nat := if b[n]? == some '1' then v else 0
            let key := if mask == "-" then [] else unhex mask
            let raw := unhex payload
            let unmasked : Bytes := if key.isEmpty then raw else
              (raw.zipIdx.map fun (x, i) => x ^^^ (key.getD (i % 4) 0))
            if !((b[0]? == some '1') == f.fin && bit 1 4 + bit 2 2 + bit 3 1 == f.rsv && opc.toNat?.getD 255 == f.opcode
                 && key == f.key && unmasked == f.payload) then
              bad := bad <|> some s!"frame-socket-read-differs-from-stream frame={k}"
            k := k + 1
          | none => bad := bad <|> some s!"frame-socket-read-invented-a-frame frame={k}"
        | "ok" :: _ => pure ()
        | "err" :: e :: _ => if e != "Io.WouldBlock" then live := false
        | _ => live := false
    return bad
  let bad := bad <|> badRead
  let mons : Array String := match bad with
    | some b => #[s!"mon C10 FAIL {b}", s!"mon C01 FAIL {b}", s!"mon C19 FAIL {b}", s!"mon C14 FAIL {b}", s!"mon C18 FAIL {b}", s!"mon C05 FAIL {b}"]
    | none => #["mon C10 ok", "mon C01 ok", "mon C19 ok", "mon C14 ok", "mon C18 ok", "mon C05 ok"]
  -- the verdicts go in front of the closing `end` line
  if out.back? == some "end" then out := out.pop ++ mons ++ #["end"] else out := out ++ mons
  return out

def parseOp (body : List String) : Option Op :=
  match body with
  | "read" :: _ => some .read
  | "flush" :: _ => some .flush
  | "close" :: rest => some (.close (parseClose rest))
  | "write" :: rest => (parseMessage rest).map Op.write
  | _ => none

def showOut : Out → String
  | .msg r => showResMsg r
  | .unit r => showResUnit r

partial def runTpCase (lines : Array String) : Array String := Id.run do
  let mut out : Array String := #[]
  let mut cs : TpSide := {}
  let mut ss : TpSide := {}
  -- the two-party model of `WsModel/TwoParty.lean` (what the C04 pair theorems are about), run in
  -- lockstep: same user calls, same number of bytes delivered, same write / flush events
  let mut pair : Option Pair := none
  let mut pairBad : Option String := none
  let mut drops : List (String × Nat) := []
  let mut opCount := 0
  let mut i := 0
  while i < lines.size do
    let line := lines[i]!
    let toks := words line
    match toks with
    | "cfg2" :: rest =>
      out := out.push line
      let (role, cfg, pre) := parseCfg rest
      let side : TpSide := { st := { role := role, cfg := cfg, pre := pre }, ic := { role := role, cfg := cfg, pre := pre } }
      if kv rest "side" == some "c" then cs := side else ss := side
      i := i + 1
    | "drop" :: sd :: _ =>
      out := out.push line
      drops := drops ++ [(sd, opCount)]
      i := i + 1
    | "op" :: sd :: rest =>
      out := out.push line
      let mut j := i + 1
      let mut ev : Events := {}
      let mut iop : Mon.ImplOp := { body := rest.filter (fun t => !t.startsWith "m="),
                                    masks := (parseMasks (words line)).map Mask.toBytes }
      while j < lines.size do
        let t := words lines[j]!
        match t with
        | "io" :: evs => ev := parseIo evs; iop := { iop with io := evs.filter (· != "-") }; j := j + 1
        | "res" :: r => iop := { iop with res := r }; j := j + 1
        | "wire" :: w :: _ => iop := { iop with wire := unhex w }; j := j + 1
        | "can" :: cs' => iop := { iop with canR := kv cs' "r" == some "1", canW := kv cs' "w" == some "1",
                                            mu := ((kv cs' "mu").bind String.toNat?).getD 0 }; j := j + 1
        | _ => break
      i := j
      let mut me := if sd == "c" then cs else ss
      -- the bytes the peer's transport delivered to this side are its inbound stream (for the per-side monitors)
      let delivered : Bytes := iop.io.foldl (fun acc t =>
        if t.startsWith "r:" && t != "r:b" && t != "r:e" && !t.startsWith "r:x" then acc ++ unhex (t.drop 2).toString else acc) []
      me := { me with ic := { me.ic with ops := me.ic.ops.push iop, peer := me.ic.peer ++ delivered }, idx := me.idx.push opCount }
      opCount := opCount + 1
      if me.st.world.isNone && !me.st.failedNew then
        match Ctx.new me.st.role me.st.cfg (me.st.pre.getD []) with
        | some c => me := { me with st := { me.st with world := some { c := c, t := { rd := [], wr := [], fl := [] } } } }
        | none => me := { me with st := { me.st with failedNew := true } }
      match me.st.world with
      | none => out := out.push "res nosocket"
      | some w =>
        let body := rest.filter (fun t => !t.startsWith "m=")
        let (w', ls) := runOp w body (parseMasks toks) ev
        me := { me with st := { me.st with world := some w' } }
        for l in ls do out := out.push l
      if sd == "c" then cs := me else ss := me
      -- lockstep step of the pair model
      if pair.isNone then
        match Ctx.new cs.st.role cs.st.cfg (cs.st.pre.getD []), Ctx.new ss.st.role ss.st.cfg (ss.st.pre.getD []) with
        | some cc, some sc =>
          pair := some { c := { c := cc, t := { rd := [], wr := [], fl := [] } },
                         s := { c := sc, t := { rd := [], wr := [], fl := [] } } }
        | _, _ => pure ()
      match pair, parseOp (rest.filter (fun t => !t.startsWith "m=")) with
      | some p, some op =>
        let who : Side := if sd == "c" then .c else .s
        let masks := parseMasks toks
        let p0 : Pair := match who with
          | .c => { p with c := { p.c with mu := masks, muExhausted := false } }
          | .s => { p with s := { p.s with mu := masks, muExhausted := false } }
        let a : Action := { who := who, op := op, deliver := delivered.length, wr := ev.wr, fl := ev.fl }
        let (p1, o) := p0.step a
        pair := some p1
        let sentLen := (p1.me who).t.accepted.length - (p0.me who).t.accepted.length
        let sent := (p1.me who).t.accepted.drop ((p1.me who).t.accepted.length - sentLen)
        let implRes := " ".intercalate iop.res
        if pairBad.isNone then
          if showOut o != implRes then
            pairBad := some s!"pair-model-result-differs op#{opCount} side={sd} impl={(implRes.take 60).toString} pair={((showOut o).take 60).toString}"
          else if sent != iop.wire then
            pairBad := some s!"pair-model-wire-differs op#{opCount} side={sd}"
      | _, _ => pure ()
    | tag :: _ =>
      if tag == "io" || tag == "res" || tag == "wire" || tag == "can" then
        i := i + 1
      else if tag == "end" then
        for m in monC04 cs ss drops do out := out.push m
        match pairBad with
        | some b => out := out.push s!"mon C04 FAIL {b}"
        | none => pure ()
        for m in Mon.monC03 cs.ic ++ Mon.monC03 ss.ic ++ Mon.monC07 cs.ic ++ Mon.monC07 ss.ic ++ Mon.monC13 cs.ic ++ Mon.monC13 ss.ic do
          if !(m.endsWith " ok") then out := out.push m
        out := out.push line
        i := i + 1
      else
        out := out.push line
        i := i + 1
    | [] => i := i + 1
  return out

end Drv

partial def loop (h : IO.FS.Stream) (out : IO.FS.Stream) (cur : Array String)
    (lastPure : Option (List String)) : IO Unit := do
  let line ← h.getLine
  if line.isEmpty then
    if !cur.isEmpty then
      for l in Drv.runCase cur do out.putStrLn l
    return ()
  let l := line.trimAscii.toString
  let toks := Drv.words l
  if cur.isEmpty && (match toks with | t :: _ => Drv.pureTags.contains t | [] => false) then
    out.putStrLn l
    match Drv.pureEval toks with
    | some o => out.putStrLn o
    | none => out.putStrLn "out bad-line"
    loop h out #[] (some toks)
  else if cur.isEmpty && (match toks with | t :: _ => t == "out" | [] => false) then
    match lastPure with
    | some inp => for m in Drv.monPure inp toks do out.putStrLn m
    | none => pure ()
    loop h out #[] none
  else if cur.isEmpty && toks.isEmpty then
    loop h out #[] lastPure
  else if l == "end" then
    let all := cur.push l
    let isHs := ((all[0]?.getD "").splitOn " ").any fun t => t == "hs-server" || t == "hs-client"
    let isTp := ((all[0]?.getD "").splitOn " ").any fun t => t == "twoparty"
    let isFs := ((all[0]?.getD "").splitOn " ").any fun t => t == "framesocket"
    for o in (if isHs then Drv.runHsCase all else if isTp then Drv.runTpCase all else if isFs then Drv.runFsCase all
              else Drv.runCase all) do out.putStrLn o
    loop h out #[] none
  else
    loop h out (cur.push l) none

def main : IO Unit := do
  let stdin ← IO.getStdin
  let stdout ← IO.getStdout
  loop stdin stdout #[] none
