import WsModel.Codec

/-! The monad and the leaf operations that the machine translation of `FrameCodec`
(`WsModel/Generated/CodecGen.lean`, written by `translator/codec2lean.py` on every run) is
expressed in.  The state is the codec together with the transport it is handed (`stream`).
Leaves are the calls that leave `FrameCodec`: the transport, the header parser, the frame
formatter, the masking routine and the buffer primitives of `BytesMut` / `Vec` (capacity is not
modelled: `reserve` is skipped, `read_in` delivers what the transport delivers). -/
namespace WsModel.GenCodec
open WsModel WsModel.Gen

structure CS where
  c : Codec
  t : Transport
  deriving Repr, Inhabited

abbrev M (α : Type) := CS → CS × Res α

@[inline] def M.pure (a : α) : M α := fun s => (s, .ok a)

@[inline] def M.bind (x : M α) (k : α → M β) : M β := fun s =>
  match x s with
  | (s, .ok a) => k a s
  | (s, .err e) => (s, .err e)
  | (s, .panic p) => (s, .panic p)

instance : Monad M where
  pure := M.pure
  bind := M.bind

def throwE (e : Err) : M α := fun s => (s, .err e)
def panicAt (p : PanicSite) : M α := fun s => (s, .panic p)
def liftRes (r : Res α) : M α := fun s => (s, r)
def getW : M CS := fun s => (s, .ok s)
def modifyW (f : CS → CS) : M Unit := fun s => (f s, .ok ())

/-- how a translated loop ends: `break v` or `return r` -/
inductive LoopOut (β ρ : Type) where
  | brk (b : β)
  | ret (r : ρ)

/-- `.unwrap()` / `.expect(..)` -/
def unwrapAt (site : PanicSite) : Option α → M α
  | some a => fun s => (s, .ok a)
  | none => panicAt site

/-- `self.header = v` -/
def setHeaderM (h : Option (Header × Nat)) : M Unit := modifyW fun s => { s with c := { s.c with header := h } }
/-- `self.header.take()` -/
def takeHeader : M (Option (Header × Nat)) := fun s => ({ s with c := { s.c with header := none } }, .ok s.c.header)

/-- `stream.write(&buf)?` -/
def streamWrite (buf : Bytes) : M Nat := fun s =>
  match s.t.write buf with
  | (t, .ok n) => ({ s with t := t }, .ok n)
  | (t, .err k) => ({ s with t := t }, .err (.io k))

/-- `self.out_buffer.drain(0..n)` -/
def drainOut (n : Nat) : M Unit := modifyW fun s => { s with c := { s.c with outBuf := s.c.outBuf.drop n } }

/-- `frame.format_into_buf(&mut self.out_buffer).expect(..)` (writing to a `Vec` cannot fail) -/
def formatIntoOut (f : Frame) : M Unit := modifyW fun s => { s with c := { s.c with outBuf := f.formatIntoBuf s.c.outBuf } }

/-- `Cursor::new(&mut self.in_buffer)`: the bytes and the position -/
def cursorNew (buf : Bytes) : Bytes × Nat := (buf, 0)

/-- `FrameHeader::parse(&mut cursor)`: the new cursor and the result -/
def headerParseAt (cur : Bytes × Nat) : (Bytes × Nat) × Res (Option (Header × Nat)) :=
  match Header.parse (cur.1.drop cur.2) with
  | .header h len used => ((cur.1, cur.2 + used), .ok (some (h, len)))
  | .incomplete => (cur, .ok none)
  | .error e => (cur, .err e)
  | .panic p => (cur, .panic p)

/-- `bytes::Buf::advance(&mut self.in_buffer, n)` -/
def advanceIn (n : Nat) : M Unit := modifyW fun s => { s with c := { s.c with inBuf := s.c.inBuf.drop n } }

/-- `self.in_buffer.split_to(n)` -/
def splitTo (n : Nat) : M Bytes := fun s =>
  ({ s with c := { s.c with inBuf := s.c.inBuf.drop n } }, .ok (s.c.inBuf.take n))

/-- `self.read_in(stream)?`: one transport read appended to the input buffer; the byte count -/
def readIn : M Nat := fun s =>
  match s.t.read with
  | (t, .data bs) => ({ c := { s.c with inBuf := s.c.inBuf ++ bs }, t := t }, .ok bs.length)
  | (t, .eof) => ({ s with t := t }, .ok 0)
  | (t, .err k) => ({ s with t := t }, .err (.io k))

/-- iterations that suffice for the `loop` of `read_frame`: every continuing one consumed a read event -/
def readFrameFuel : M Nat := fun s => (s, .ok (s.t.rd.length + 1))
/-- iterations that suffice for the `while` of `write_out_buffer`: every one drains at least a byte -/
def writeFuel : M Nat := fun s => (s, .ok s.c.outBuf.length)

/-- `self.stream.flush()` (used by `FrameSocket::flush`) -/
def streamFlush : M Unit := fun s =>
  match s.t.flush with
  | (t, .ok) => ({ s with t := t }, .ok ())
  | (t, .err k) => ({ s with t := t }, .err (.io k))

end WsModel.GenCodec
