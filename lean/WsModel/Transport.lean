import WsModel.Basic

/-! The transport as a script: what each `read` / `write` / `flush` call returns. -/
namespace WsModel

inductive RdEv where
  | data (bs : Bytes)      -- `Ok(bs.len())`, the bytes delivered (`[]` is `Ok(0)`)
  | eof                    -- `Ok(0)`
  | err (k : IoKind)
  deriving DecidableEq, Repr, Inhabited

inductive WrEv where
  | accept (k : Nat)       -- `Ok(min k offered)`
  | err (k : IoKind)
  deriving DecidableEq, Repr, Inhabited

inductive FlEv where
  | ok
  | err (k : IoKind)
  deriving DecidableEq, Repr, Inhabited

/-- a resolved transport call, for the call log -/
inductive Call where
  | read (r : RdEv)
  | write (offered : Nat) (w : WrEv)
  | flush (f : FlEv)
  deriving DecidableEq, Repr, Inhabited

structure Transport where
  rd : List RdEv
  wr : List WrEv
  fl : List FlEv
  rdDef : RdEv := .err .wouldBlock
  wrDef : WrEv := .accept (2 ^ 64)
  flDef : FlEv := .ok
  /-- every byte the transport has accepted, in order -/
  accepted : Bytes := []
  /-- length of `accepted` at the last successful flush -/
  flushedUpTo : Nat := 0
  /-- calls made, newest first -/
  log : List Call := []
  /-- a default was used because a script ran out -/
  exhausted : Bool := false
  deriving Repr, Inhabited

/-- result of one transport `read` -/
def Transport.read (t : Transport) : Transport × RdEv :=
  match t.rd with
  | e :: rest => ({ t with rd := rest, log := .read e :: t.log }, e)
  | [] => ({ t with log := .read t.rdDef :: t.log, exhausted := true }, t.rdDef)

inductive WrRes where
  | ok (n : Nat)
  | err (k : IoKind)
  deriving DecidableEq, Repr

def Transport.writeEv (t : Transport) (buf : Bytes) (e : WrEv) : Transport × WrRes :=
  match e with
  | .accept k =>
    let n := min k buf.length
    ({ t with accepted := t.accepted ++ buf.take n, log := .write buf.length e :: t.log }, .ok n)
  | .err k => ({ t with log := .write buf.length e :: t.log }, .err k)

/-- one transport `write(buf)` -/
def Transport.write (t : Transport) (buf : Bytes) : Transport × WrRes :=
  match t.wr with
  | e :: rest => Transport.writeEv { t with wr := rest } buf e
  | [] => Transport.writeEv { t with exhausted := true } buf t.wrDef

def Transport.flushEv (t : Transport) (e : FlEv) : Transport × FlEv :=
  match e with
  | .ok => ({ t with flushedUpTo := t.accepted.length, log := .flush e :: t.log }, e)
  | .err _ => ({ t with log := .flush e :: t.log }, e)

/-- one transport `flush()` -/
def Transport.flush (t : Transport) : Transport × FlEv :=
  match t.fl with
  | e :: rest => Transport.flushEv { t with fl := rest } e
  | [] => Transport.flushEv { t with exhausted := true } t.flDef

end WsModel
