import WsModel.CodecM

/-! Leaves of the machine translation of `FrameCodec::read_in`
(`WsModel/Generated/ReadInGen.lean`, written by `translator/readin2lean.py` on every run): the
`BytesMut` operations on the input buffer and one transport `read` into its tail.  The capacity
of the buffer is a parameter of the translated function. -/
namespace WsModel.GenCodec
open WsModel WsModel.Gen

/-- `io::Result<usize>` -/
inductive IoRes where
  | ok (n : Nat)
  | err (k : IoKind)
  deriving DecidableEq, Repr, Inhabited

/-- `self.in_buffer.len()` -/
def inLen : M Nat := fun s => (s, .ok s.c.inBuf.length)

/-- `self.in_buffer.resize(n, v)` -/
def inResize (n : Nat) (v : UInt8) : M Unit := modifyW fun s =>
  { s with c := { s.c with inBuf := s.c.inBuf.take n ++ List.replicate (n - s.c.inBuf.length) v } }

/-- `self.in_buffer.truncate(n)` -/
def inTruncate (n : Nat) : M Unit := modifyW fun s => { s with c := { s.c with inBuf := s.c.inBuf.take n } }

/-- `stream.read(&mut self.in_buffer[a..])`: one read event of the transport; the bytes that fit
into the slice are written at its front, their count is the answer -/
def streamReadAt (a : Nat) : M IoRes := fun s =>
  match s.t.read with
  | (t, .data bs) =>
    let n := min bs.length (s.c.inBuf.length - a)
    ({ c := { s.c with inBuf := s.c.inBuf.take a ++ bs.take n ++ s.c.inBuf.drop (a + n) }, t := t }, .ok (.ok n))
  | (t, .eof) => ({ s with t := t }, .ok (.ok 0))
  | (t, .err k) => ({ s with t := t }, .ok (.err k))

/-- `size.as_ref().copied().unwrap_or(d)` -/
def ioCopiedUnwrapOr (r : IoRes) (d : Nat) : Nat :=
  match r with
  | .ok n => n
  | .err _ => d

/-- the `?` of the caller (`self.read_in(stream)?`): an I/O error becomes `Error::Io` -/
def ioTry (r : IoRes) : M Nat :=
  match r with
  | .ok n => pure n
  | .err k => throwE (.io k)

end WsModel.GenCodec
