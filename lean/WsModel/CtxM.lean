import WsModel.Context

/-! The monad and the leaf operations that the machine translation of `WebSocketContext`
(`WsModel/Generated/Ctx.lean`, written by `translator/ctx2lean.py` on every run) is expressed in.

`M α` is "a `&mut self` method returning `α` that may fail or panic": Rust's `?` is bind,
`return Err(e)` is `throwE e`, a `Result` used as a value is `attempt`.  The leaves are the calls
that leave `WebSocketContext`: the frame codec, the transport, the mask generator, and a few
`Option`/`mem::replace` idioms on fields.  Each leaf is the hand model of the callee (tied to
the code by the correspondence runs), nothing more. -/
namespace WsModel.GenCtx
open WsModel WsModel.Gen

abbrev M (α : Type) := World → World × Res α

@[inline] def M.pure (a : α) : M α := fun w => (w, .ok a)

@[inline] def M.bind (x : M α) (k : α → M β) : M β := fun w =>
  match x w with
  | (w, .ok a) => k a w
  | (w, .err e) => (w, .err e)
  | (w, .panic s) => (w, .panic s)

instance : Monad M where
  pure := M.pure
  bind := M.bind

/-- `return Err(e)` / a tail `Err(e)` -/
def throwE (e : Err) : M α := fun w => (w, .err e)
/-- `panic!`, `unreachable!`, a failed `unwrap` -/
def panicAt (s : PanicSite) : M α := fun w => (w, .panic s)
/-- a `Result` value in tail / `?` position -/
def liftRes (r : Res α) : M α := fun w => (w, r)
/-- a call whose `Result` is kept as a value (`let r = f(..)`, `match f(..) { Ok.. Err.. }`) -/
def attempt (x : M α) : M (Res α) := fun w =>
  match x w with
  | (w, .ok a) => (w, .ok (.ok a))
  | (w, .err e) => (w, .ok (.err e))
  | (w, .panic s) => (w, .panic s)
/-- reading `self.…` -/
def getW : M World := fun w => (w, .ok w)
/-- assigning `self.… = …` -/
def modifyW (f : World → World) : M Unit := fun w => (f w, .ok ())

/-- `self.additional_send.take()` -/
def takeAdditional : M (Option Frame) := fun w => (w.setAdditionalRaw none, .ok w.c.additional)
/-- `self.incomplete.take()` -/
def takeIncomplete : M (Option Incomplete) := fun w => (w.setIncomplete none, .ok w.c.incomplete)
/-- `replace(&mut self.state, s)` -/
def replaceState (s : WsState) : M WsState := fun w => (w.setState s, .ok w.c.state)
/-- `.unwrap()` / `.expect(..)` -/
def unwrapAt (site : PanicSite) : Option α → M α
  | some a => fun w => (w, .ok a)
  | none => panicAt site

/-- `WebSocketState::check_not_terminated` as a `Result` (the predicate is generated) -/
def checkNotTerminated (s : WsState) : Res Unit :=
  if s.notTerminated then .ok () else .err .alreadyClosed
/-- `check_max_size` as a `Result` (the predicate is generated) -/
def checkMaxSizeRes (size : Nat) (maxSize : Option Nat) : Res Unit :=
  if checkMaxSize size maxSize then .ok () else .err (.capacity size (maxSize.getD 0))

/-- `frame.set_random_mask()`: the next key of the mask oracle -/
def setRandomMask (f : Frame) : M Frame := fun w =>
  let (w, m) := w.nextMask
  (w, .ok { f with header := { f.header with mask := some m } })

/-- `self.frame.buffer_frame(stream, frame)`; also records the frame in the ghost history -/
def codecBufferFrame (f : Frame) : M Unit := fun w =>
  let (codec, t, r) := w.c.codec.bufferFrame w.t f
  let w := w.setCodec codec t
  let w := if r.isWriteBufferFull then w else { w with queued := w.queued ++ [f] }
  (w, r)

/-- `self.frame.write_out_buffer(stream)` -/
def codecWriteOutBuffer : M Unit := fun w => w.writeOutBuffer

/-- `self.frame.read_frame(stream, max, unmask, accept_unmasked)` -/
def codecReadFrame (maxSize : Option Nat) (unmask acceptUnmasked : Bool) : M (Option Frame) := fun w =>
  let (codec, t, r) := w.c.codec.readFrame w.t maxSize unmask acceptUnmasked
  (w.setCodec codec t, r)

/-- `stream.flush()` -/
def streamFlush : M Unit := fun w => w.streamFlush

/-- `set_func(&mut self.config)`: the caller's closure edits the stored configuration -/
def applyCfg (f : Config → Config) : M Unit :=
  modifyW fun w => { w with c := { w.c with cfg := f w.c.cfg } }

/-- `self.config.assert_valid()` (the condition is generated from the source: `configValid`) -/
def assertValidCfg : M Unit := fun w =>
  if configValid w.c.cfg.maxw w.c.cfg.wbuf then (w, .ok ()) else (w, .panic .configInvalid)

/-- `self.frame.set_max_out_buffer_len(n)` -/
def codecSetMaxOut (n : Nat) : M Unit :=
  modifyW fun w => { w with c := { w.c with codec := { w.c.codec with maxOut := n } } }

/-- `self.frame.set_out_buffer_write_len(n)` -/
def codecSetWriteLen (n : Nat) : M Unit :=
  modifyW fun w => { w with c := { w.c with codec := { w.c.codec with writeLen := n } } }

/-- `IncompleteMessageType` -/
inductive IncompleteType where
  | text | binary
  deriving DecidableEq, Repr, Inhabited

/-- `IncompleteMessage::new` -/
def incompleteNew : IncompleteType → Incomplete
  | .text => .text {}
  | .binary => .binary []

/-- `msg.extend(tail, limit)` on a `&mut IncompleteMessage`: new value and result -/
def incompleteExtend (m : Incomplete) (tail : Bytes) (limit : Option Nat) : Incomplete × Res Unit :=
  m.extend tail limit

/-- iterations that always suffice for the `loop` of `read` -/
def readFuel : M Nat := fun w => (w, .ok w.readFuel)

end WsModel.GenCtx
