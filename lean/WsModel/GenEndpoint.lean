import WsModel.Endpoint
import WsModel.Generated.Ctx

/-! The operation-level view of one endpoint (`WsModel/Endpoint.lean`) over the MACHINE-TRANSLATED
methods of `WebSocketContext` (`Generated/Ctx.lean`) instead of the hand-written ones. -/
namespace WsModel.GenCtx
open WsModel WsModel.Gen

/-- one user call, executed by the translated code -/
def stepGen (w : World) : Op → World × Out
  | .read => let (w, r) := GenCtx.read w; (w, .msg r)
  | .write m => let (w, r) := GenCtx.write m w; (w, .unit r)
  | .flush => let (w, r) := GenCtx.flush w; (w, .unit r)
  | .close c => let (w, r) := GenCtx.close c w; (w, .unit r)

/-- a history, executed by the translated code -/
def runGen (w : World) : List Op → World × List Out
  | [] => (w, [])
  | op :: ops =>
    let (w1, o) := stepGen w op
    let (w2, os) := runGen w1 ops
    (w2, o :: os)

end WsModel.GenCtx
