import WsModel.Basic

/-! `core::str::from_utf8` (run_utf8_validation) and the `utf-8` crate's `decode` /
`Incomplete::try_complete`, modelled from their sources; compared differentially with the
real functions by the correspondence check. -/
namespace WsModel

/-- `utf8_char_width` -/
def utf8CharWidth (b : UInt8) : Nat :=
  if b < 0x80 then 1
  else if 0xC2 ≤ b ∧ b ≤ 0xDF then 2
  else if 0xE0 ≤ b ∧ b ≤ 0xEF then 3
  else if 0xF0 ≤ b ∧ b ≤ 0xF4 then 4
  else 0

/-- `b as i8 >= -64` is false: a continuation byte 0x80..=0xBF -/
def isCont (b : UInt8) : Bool := 0x80 ≤ b && b ≤ 0xBF

/-- second byte allowed after a 3-byte lead -/
def second3Ok (first second : UInt8) : Bool :=
  (first == 0xE0 && 0xA0 ≤ second && second ≤ 0xBF)
  || (0xE1 ≤ first && first ≤ 0xEC && 0x80 ≤ second && second ≤ 0xBF)
  || (first == 0xED && 0x80 ≤ second && second ≤ 0x9F)
  || (0xEE ≤ first && first ≤ 0xEF && 0x80 ≤ second && second ≤ 0xBF)

/-- second byte allowed after a 4-byte lead -/
def second4Ok (first second : UInt8) : Bool :=
  (first == 0xF0 && 0x90 ≤ second && second ≤ 0xBF)
  || (0xF1 ≤ first && first ≤ 0xF3 && 0x80 ≤ second && second ≤ 0xBF)
  || (first == 0xF4 && 0x80 ≤ second && second ≤ 0x8F)

/-- outcome of decoding one scalar at the head of the input -/
inductive StepRes where
  | ok (n : Nat)                 -- a well-formed sequence of `n` bytes
  | invalid (errorLen : Nat)     -- `error_len = Some(errorLen)`
  | incomplete                   -- input ends inside a sequence: `error_len = None`
  deriving DecidableEq, Repr

/-- one iteration of the validation loop on a non-empty input -/
def utf8Step : Bytes → StepRes
  | [] => .ok 0
  | first :: rest =>
    match utf8CharWidth first with
    | 1 => .ok 1
    | 2 =>
      match rest with
      | [] => .incomplete
      | s :: _ => if isCont s then .ok 2 else .invalid 1
    | 3 =>
      match rest with
      | [] => .incomplete
      | s :: rest2 =>
        if !second3Ok first s then .invalid 1
        else match rest2 with
          | [] => .incomplete
          | t :: _ => if isCont t then .ok 3 else .invalid 2
    | 4 =>
      match rest with
      | [] => .incomplete
      | s :: rest2 =>
        if !second4Ok first s then .invalid 1
        else match rest2 with
          | [] => .incomplete
          | t :: rest3 =>
            if !isCont t then .invalid 2
            else match rest3 with
              | [] => .incomplete
              | u :: _ => if isCont u then .ok 4 else .invalid 3
    | _ => .invalid 1

/-- result of `str::from_utf8`: `ok`, or `Utf8Error { valid_up_to, error_len }` -/
inductive Utf8Res where
  | ok
  | err (validUpTo : Nat) (errorLen : Option Nat)
  deriving DecidableEq, Repr

/-- `run_utf8_validation`, `pos` bytes already validated; fuel = remaining length -/
def utf8ValidateFrom : Nat → Nat → Bytes → Utf8Res
  | _, _, [] => .ok
  | 0, pos, _ :: _ => .err pos none   -- unreachable: fuel = length
  | fuel + 1, pos, bs@(_ :: _) =>
    match utf8Step bs with
    | .ok n => utf8ValidateFrom fuel (pos + n) (bs.drop n)
    | .invalid k => .err pos (some k)
    | .incomplete => .err pos none

/-- `core::str::from_utf8` -/
def utf8Validate (bs : Bytes) : Utf8Res := utf8ValidateFrom bs.length 0 bs

def isUtf8 (bs : Bytes) : Bool := utf8Validate bs == .ok

/-- `utf8::DecodeError` / `Ok` of `utf8::decode` -/
inductive DecodeRes where
  | ok                                              -- whole input valid
  | invalid (validPrefix : Nat) (invalidLen : Nat)  -- valid_prefix length, invalid_sequence length
  | incomplete (validPrefix : Nat) (suffix : Bytes) -- valid_prefix length, incomplete suffix
  deriving DecidableEq, Repr

/-- `utf8::decode` -/
def utf8Decode (input : Bytes) : DecodeRes :=
  match utf8Validate input with
  | .ok => .ok
  | .err v (some k) => .invalid v k
  | .err v none => .incomplete v (input.drop v)

/-- result of `Incomplete::try_complete`: `none` = still incomplete (buffer grown). -/
inductive CompleteRes where
  | still (buffer : Bytes)                       -- `None`, new buffer contents
  | done (ok : Bool) (bytes : Bytes) (consumed : Nat)  -- `Some((Ok/Err(bytes), &input[consumed..]))`
  | panic
  deriving DecidableEq, Repr

/-- `Incomplete::try_complete_offsets` + `try_complete` -/
def utf8TryComplete (buffer : Bytes) (input : Bytes) : CompleteRes :=
  let initial := buffer.length
  let copied := min (4 - initial) input.length
  let spliced := buffer ++ input.take copied
  match utf8Validate spliced with
  | .ok => .done true spliced copied
  | .err v el =>
    if v > 0 then
      if v < initial then .panic else .done true (spliced.take v) (v - initial)
    else
      match el with
      | some k => if k < initial then .panic else .done false (spliced.take k) (k - initial)
      | none => .still spliced

end WsModel
