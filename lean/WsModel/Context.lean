import WsModel.Codec
import WsModel.Collect

/-! `WebSocketContext` (src/protocol/mod.rs): one definition per Rust method, same control flow.
Rust's `?` is mirrored by `andThen`. -/
namespace WsModel
open WsModel.Gen

structure Config where
  wbuf : Nat := 131072
  maxw : Nat := usizeMax
  maxMsg : Option Nat := some 67108864
  maxFrame : Option Nat := some 16777216
  acceptUnmasked : Bool := false
  deriving Repr, Inhabited

structure Ctx where
  role : Role
  codec : Codec := {}
  state : WsState := .active
  incomplete : Option Incomplete := none
  additional : Option Frame := none
  unflushed : Bool := false
  cfg : Config := {}
  deriving Repr, Inhabited

/-- the endpoint, its transport, the mask oracle, and ghost history -/
structure World where
  c : Ctx
  t : Transport
  mu : List Mask := []
  /-- a mask was needed but the oracle list was empty -/
  muExhausted : Bool := false
  /-- ghost: every frame ever appended to the write buffer, in order (with the mask it was sent with) -/
  queued : List Frame := []
  deriving Repr, Inhabited

/-- `WebSocketContext::_new` / `from_partially_read`; `none` = `assert_valid` panics -/
def Ctx.new (role : Role) (cfg : Config) (pre : Bytes) : Option Ctx :=
  if configValid cfg.maxw cfg.wbuf then
    some { role := role, cfg := cfg,
           codec := { inBuf := pre, maxOut := cfg.maxw, writeLen := cfg.wbuf } }
  else none

/-- Rust's `?` -/
def andThen (x : World × Res α) (k : World → α → World × Res β) : World × Res β :=
  match x with
  | (w, .ok a) => k w a
  | (w, .err e) => (w, .err e)
  | (w, .panic s) => (w, .panic s)

def World.setState (w : World) (s : WsState) : World := { w with c := { w.c with state := s } }
def World.setAdditionalRaw (w : World) (a : Option Frame) : World :=
  { w with c := { w.c with additional := a } }
def World.setUnflushed (w : World) (b : Bool) : World := { w with c := { w.c with unflushed := b } }
def World.setIncomplete (w : World) (i : Option Incomplete) : World :=
  { w with c := { w.c with incomplete := i } }
def World.setCodec (w : World) (codec : Codec) (t : Transport) : World :=
  { w with c := { w.c with codec := codec }, t := t }

/-- `WebSocketContext::set_config`: the caller's closure edits the stored configuration, which must
then pass `assert_valid` (a panic leaves the edited configuration behind); the codec's two sizes follow -/
def World.setConfig (w : World) (f : Config → Config) : World × Res Unit :=
  let cfg := f w.c.cfg
  let w1 : World := { w with c := { w.c with cfg := cfg } }
  if configValid cfg.maxw cfg.wbuf then
    ({ w1 with c := { w1.c with codec := { w1.c.codec with maxOut := cfg.maxw, writeLen := cfg.wbuf } } }, .ok ())
  else (w1, .panic .configInvalid)

/-- `set_additional`: replace the pending frame only if the slot is empty or holds a pong -/
def World.setAdditional (w : World) (add : Frame) : World :=
  match w.c.additional with
  | none => w.setAdditionalRaw (some add)
  | some f => if f.isPong then w.setAdditionalRaw (some add) else w

/-- `generate_mask()` through the oracle -/
def World.nextMask (w : World) : World × Mask :=
  match w.mu with
  | m :: rest => ({ w with mu := rest }, m)
  | [] => ({ w with muExhausted := true }, ⟨0, 0, 0, 0⟩)

/-- `CheckConnectionReset` + the `Terminated` assignment of `WebSocketContext::check_connection_reset` -/
def World.checkConnectionReset (w : World) (r : Res α) : World × Res α :=
  let r' : Res α := match r with
    | .err (.io .reset) => if !w.c.state.canRead then .err .connectionClosed else r
    | _ => r
  match r' with
  | .err .connectionClosed => (w.setState .terminated, r')
  | _ => (w, r')

def Res.isWriteBufferFull : Res α → Bool
  | .err (.writeBufferFull _) => true
  | _ => false

/-- `WebSocketContext::buffer_frame` -/
def World.bufferFrame (w : World) (f : Frame) : World × Res Unit :=
  let (w, f) : World × Frame := match w.c.role with
    | .server => (w, f)
    | .client =>
      let (w, m) := w.nextMask
      (w, { f with header := { f.header with mask := some m } })
  let (codec, t, r) := w.c.codec.bufferFrame w.t f
  let w := w.setCodec codec t
  let w := if r.isWriteBufferFull then w else { w with queued := w.queued ++ [f] }
  w.checkConnectionReset r

def World.writeOutBuffer (w : World) : World × Res Unit :=
  let (codec, t, r) := w.c.codec.writeOutBuffer w.t
  (w.setCodec codec t, r)

def World.streamFlush (w : World) : World × Res Unit :=
  match w.t.flush with
  | (t, .ok) => ({ w with t := t }, .ok ())
  | (t, .err k) => ({ w with t := t }, .err (.io k))

/-- `_write`, second part: the pending control frame -/
def World.writeSlot (w : World) : World × Res Bool :=
  match w.c.additional with
  | none => (w, .ok w.c.unflushed)
  | some msg =>
    match (w.setAdditionalRaw none).bufferFrame msg with
    | (w, .err (.writeBufferFull f)) => (w.setAdditional f, .ok false)
    | (w, .err e) => (w.setUnflushed true, .err e)
    | (w, .panic s) => (w, .panic s)
    | (w, .ok ()) => (w.setUnflushed true, .ok true)

/-- `_write`, third part: the server ends the connection once nothing is left to send -/
def World.writeTail (w : World) (shouldFlush : Bool) : World × Res Bool :=
  if w.c.role = .server ∧ !w.c.state.canRead ∧ w.c.additional.isNone then
    andThen w.writeOutBuffer fun w _ => (w.setState .terminated, .err .connectionClosed)
  else (w, .ok shouldFlush)

/-- `WebSocketContext::_write` -/
def World.writeInternal (w : World) (data : Option Frame) : World × Res Bool :=
  andThen (match data with
           | some f => w.bufferFrame f
           | none => (w, .ok ())) fun w _ =>
  andThen w.writeSlot fun w shouldFlush =>
  w.writeTail shouldFlush

/-- the retry of a put-back control frame inside `flush` -/
def World.flushRetry (w : World) : World × Res Unit :=
  if w.c.additional.isSome then
    andThen (w.writeInternal none) fun w _ => w.writeOutBuffer
  else (w, .ok ())

/-- `WebSocketContext::flush` -/
def World.flush (w : World) : World × Res Unit :=
  if !w.c.state.notTerminated then (w, .err .alreadyClosed)
  else
    andThen (w.writeInternal none) fun w _ =>
    andThen w.writeOutBuffer fun w _ =>
    andThen w.flushRetry fun w _ =>
    andThen w.streamFlush fun w _ =>
    (w.setUnflushed false, .ok ())

/-- `WebSocketContext::close` -/
def World.close (w : World) (code : Option CloseFrame) : World × Res Unit :=
  let w := if w.c.state = .active then
      (w.setState .closedByUs).setAdditionalRaw (some (Frame.close code))
    else w
  w.flush

/-- data path of `write`: `_write(Some(frame))?` then flush if asked to -/
def World.writeData (w : World) (f : Frame) : World × Res Unit :=
  andThen (w.writeInternal (some f)) fun w shouldFlush =>
  if shouldFlush then w.flush else (w, .ok ())

/-- `WebSocketContext::write` -/
def World.write (w : World) (m : Message) : World × Res Unit :=
  if !w.c.state.notTerminated then (w, .err .alreadyClosed)
  else if !w.c.state.isActive then (w, .err (.protocol .sendAfterClosing))
  else
    match m with
    | .text d => w.writeData (Frame.message d (.data .text) true)
    | .binary d => w.writeData (Frame.message d (.data .binary) true)
    | .ping d => w.writeData (Frame.ping d)
    | .pong d => andThen ((w.setAdditional (Frame.pong d)).writeInternal none) fun w _ => (w, .ok ())
    | .close c => w.close c
    | .frame f => w.writeData f

/-- `do_close` -/
def World.doClose (w : World) (close : Option CloseFrame) : World × Res (Option (Option CloseFrame)) :=
  match w.c.state with
  | .active =>
    let close := close.map fun cf =>
      if !closeCodeIsAllowed cf.code then
        { code := .protocol, reason := protocolViolationReason }
      else cf
    (((w.setState .closedByPeer).setAdditional (Frame.close close)), .ok (some close))
  | .closedByPeer => (w, .ok none)
  | .closeAcknowledged => (w, .ok none)
  | .closedByUs => (w.setState .closeAcknowledged, .ok (some close))
  | .terminated => (w, .panic .doCloseTerminated)

/-- control-frame arm of `read_message_frame` -/
def World.onControl (w : World) (frame : Frame) (ctl : OpCtl) : World × Res (Option Message) :=
  if !frame.header.fin then (w, .err (.protocol .fragmentedControlFrame))
  else if frame.payload.length > 125 then (w, .err (.protocol .controlFrameTooBig))
  else
    match ctl with
    | .close =>
      match frame.intoClose with
      | .ok c => andThen (w.doClose c) fun w r => (w, .ok (r.map Message.close))
      | .err e => (w, .err e)
      | .panic s => (w, .panic s)
    | .reserved i => (w, .err (.protocol (.unknownControlFrameType i)))
    | .ping =>
      let w := if w.c.state.isActive then w.setAdditional (Frame.pong frame.payload) else w
      (w, .ok (some (.ping frame.payload)))
    | .pong => (w, .ok (some (.pong frame.payload)))

/-- `OpData::Continue` arm -/
def World.onContinue (w : World) (frame : Frame) : World × Res (Option Message) :=
  match w.c.incomplete with
  | none => (w, .err (.protocol .unexpectedContinueFrame))
  | some msg =>
    match msg.extend frame.payload w.c.cfg.maxMsg with
    | (msg, .err e) => (w.setIncomplete (some msg), .err e)
    | (msg, .panic s) => (w.setIncomplete (some msg), .panic s)
    | (msg, .ok ()) =>
      if frame.header.fin then
        match msg.complete with
        | .ok m => (w.setIncomplete none, .ok (some m))
        | .err e => (w.setIncomplete none, .err e)
        | .panic s => (w.setIncomplete none, .panic s)
      else (w.setIncomplete (some msg), .ok none)

/-- first frame of a fragmented message -/
def World.startFragmented (w : World) (frame : Frame) (ty : Incomplete) : World × Res (Option Message) :=
  match ty.extend frame.payload w.c.cfg.maxMsg with
  | (_, .err e) => (w, .err e)
  | (_, .panic s) => (w, .panic s)
  | (msg, .ok ()) => (w.setIncomplete (some msg), .ok none)

/-- data-frame arm of `read_message_frame` -/
def World.onData (w : World) (frame : Frame) (data : OpData) : World × Res (Option Message) :=
  let fin := frame.header.fin
  match data with
  | .«continue» => w.onContinue frame
  | .reserved i =>
    if w.c.incomplete.isSome then (w, .err (.protocol (.expectedFragment data)))
    else (w, .err (.protocol (.unknownDataFrameType i)))
  | .text =>
    if w.c.incomplete.isSome then (w, .err (.protocol (.expectedFragment data)))
    else if fin then
      if !checkMaxSize frame.payload.length w.c.cfg.maxMsg then
        (w, .err (.capacity frame.payload.length (w.c.cfg.maxMsg.getD 0)))
      else
        match frame.intoText with
        | .ok t => (w, .ok (some (.text t)))
        | .err e => (w, .err e)
        | .panic s => (w, .panic s)
    else w.startFragmented frame (.text {})
  | .binary =>
    if w.c.incomplete.isSome then (w, .err (.protocol (.expectedFragment data)))
    else if fin then
      if !checkMaxSize frame.payload.length w.c.cfg.maxMsg then
        (w, .err (.capacity frame.payload.length (w.c.cfg.maxMsg.getD 0)))
      else (w, .ok (some (.binary frame.payload)))
    else w.startFragmented frame (.binary [])

/-- the checks of `read_message_frame` on a received frame -/
def World.onFrame (w : World) (frame : Frame) : World × Res (Option Message) :=
  if !w.c.state.canRead then (w, .err (.protocol .receivedAfterClosing))
  else if frame.header.rsv1 ∨ frame.header.rsv2 ∨ frame.header.rsv3 then
    (w, .err (.protocol .nonZeroReservedBits))
  else if w.c.role = .client ∧ frame.header.mask.isSome then
    (w, .err (.protocol .maskedFrameFromServer))
  else
    match frame.header.opcode with
    | .control ctl => w.onControl frame ctl
    | .data d => w.onData frame d

/-- the transport ended (`read_frame` returned `None`) -/
def World.onEof (w : World) : World × Res (Option Message) :=
  match w.c.state with
  | .closedByPeer => (w.setState .terminated, .err .connectionClosed)
  | .closeAcknowledged => (w.setState .terminated, .err .connectionClosed)
  | _ => (w.setState .terminated, .err (.protocol .resetWithoutClosingHandshake))

/-- `read_message_frame` -/
def World.readMessageFrame (w : World) : World × Res (Option Message) :=
  let (codec, t, r) := w.c.codec.readFrame w.t w.c.cfg.maxFrame (w.c.role == .server) w.c.cfg.acceptUnmasked
  let w := w.setCodec codec t
  andThen (w.checkConnectionReset r) fun w of =>
    match of with
    | some frame => w.onFrame frame
    | none => w.onEof

/-- top of the `read` loop: retry pending output, or terminate (server) -/
def World.readPre (w : World) : World × Res Unit :=
  if w.c.additional.isSome ∨ w.c.unflushed then
    match w.flush with
    | (w, .ok ()) => (w, .ok ())
    | (w, .err (.io .wouldBlock)) => (w.setUnflushed true, .ok ())
    | (w, r) => (w, r)
  else if w.c.role = .server ∧ !w.c.state.canRead then
    (w.setState .terminated, .err .connectionClosed)
  else (w, .ok ())

/-- the `loop` of `read` -/
def World.readLoop : Nat → World → World × Res Message
  | 0, w => (w, .panic .fuel)
  | fuel + 1, w =>
    andThen w.readPre fun w _ =>
    andThen w.readMessageFrame fun w om =>
      match om with
      | some m => (w, .ok m)
      | none => World.readLoop fuel w

def rdBytes : List RdEv → Nat
  | [] => 0
  | .data bs :: rest => bs.length + rdBytes rest
  | _ :: rest => rdBytes rest

/-- fuel that always suffices: every continuing iteration consumed a whole frame (≥ 2 bytes) -/
def World.readFuel (w : World) : Nat :=
  w.c.codec.inBuf.length + rdBytes w.t.rd + 2

/-- `WebSocketContext::read` -/
def World.read (w : World) : World × Res Message :=
  if !w.c.state.notTerminated then (w, .err .alreadyClosed)
  else World.readLoop w.readFuel w

def World.canRead (w : World) : Bool := w.c.state.canRead
def World.canWrite (w : World) : Bool := w.c.state.isActive

end WsModel
