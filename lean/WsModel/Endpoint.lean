import WsModel.Context

/-! Operation-level view of one endpoint: user calls as values, histories as lists. The transport
scripts inside `World.t` play the role of the environment (peer bytes, segmentation, WouldBlock,
errors, EOF): quantifying over all initial worlds quantifies over all of them. -/
namespace WsModel
open WsModel.Gen

inductive Op where
  | read
  | write (m : Message)
  | flush
  | close (c : Option CloseFrame)
  deriving Repr, Inhabited

inductive Out where
  | msg (r : Res Message)
  | unit (r : Res Unit)
  deriving Repr, Inhabited

def World.step (w : World) : Op → World × Out
  | .read => let (w, r) := w.read; (w, .msg r)
  | .write m => let (w, r) := w.write m; (w, .unit r)
  | .flush => let (w, r) := w.flush; (w, .unit r)
  | .close c => let (w, r) := w.close c; (w, .unit r)

/-- run a history; outputs in call order -/
def World.run (w : World) : List Op → World × List Out
  | [] => (w, [])
  | op :: ops =>
    let (w1, o) := w.step op
    let (w2, os) := w1.run ops
    (w2, o :: os)

/-- raw `Message::Frame` writes bypass the protocol logic (an explicit escape hatch) -/
def Op.noRaw : Op → Prop
  | .write (.frame _) => False
  | _ => True

def Out.err? : Out → Option Err
  | .msg (.err e) => some e
  | .unit (.err e) => some e
  | _ => none

def Out.isPanic : Out → Bool
  | .msg (.panic _) => true
  | .unit (.panic _) => true
  | _ => false

/-- a freshly created endpoint over an arbitrary transport script and mask oracle -/
def World.Init (w : World) : Prop :=
  ∃ role cfg pre c, Ctx.new role cfg pre = some c ∧ w.c = c ∧ w.queued = [] ∧
    w.t.accepted = [] ∧ w.t.log = [] ∧ w.t.flushedUpTo = 0

/-- states reachable by histories without raw-frame writes -/
def World.Reachable (w : World) : Prop :=
  ∃ (w0 : World) (ops : List Op), w0.Init ∧ (∀ op ∈ ops, Op.noRaw op) ∧ (w0.run ops).1 = w

/-- the wire image of the frames queued so far -/
def encodeAll : List Frame → Bytes
  | [] => []
  | f :: fs => f.format ++ encodeAll fs

/-- no frame follows a Close frame -/
def CloseLast (q : List Frame) : Prop :=
  ∀ pre f post, q = pre ++ f :: post → f.isClose = true → post = []

/-- a transport call that tells the endpoint the transport is gone -/
def Call.isEnd : Call → Bool
  | .read .eof => true
  | .read (.data []) => true
  | .read (.err .reset) => true
  | .write _ (.err .reset) => true
  | .write _ (.accept 0) => true
  | _ => false

/-- the calls made between two worlds (newest first) -/
def newCalls (before after : World) : List Call :=
  after.t.log.take (after.t.log.length - before.t.log.length)

def WsState.closing3 (s : WsState) : Bool :=
  match s with
  | .closedByUs => true
  | .closedByPeer => true
  | .closeAcknowledged => true
  | _ => false

def WsState.closeReceived (s : WsState) : Bool :=
  match s with
  | .closedByPeer => true
  | .closeAcknowledged => true
  | _ => false

end WsModel
