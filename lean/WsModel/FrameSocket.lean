import WsModel.CodecM

/-! Hand model of `protocol::frame::FrameSocket` — the public wrapper around the frame codec: a
codec created with no write batching (`out_buffer_write_len = 0`) and no bound on the write buffer,
over its own stream.  The state is `GenCodec.CS` (codec + transport). -/
namespace WsModel
open WsModel.Gen

abbrev FSock := GenCodec.CS

/-- `FrameSocket::read(max_size)`: frames are returned as they are on the wire (no unmasking),
masked or not -/
def FSock.read (s : FSock) (maxSize : Option Nat) : FSock × Res (Option Frame) :=
  let r := s.c.readFrame s.t maxSize false true
  (⟨r.1, r.2.1⟩, r.2.2)

/-- `FrameSocket::write(frame)` -/
def FSock.write (s : FSock) (f : Frame) : FSock × Res Unit :=
  let r := s.c.bufferFrame s.t f
  (⟨r.1, r.2.1⟩, r.2.2)

/-- `FrameSocket::flush()`: drain the codec's buffer, then flush the stream -/
def FSock.flush (s : FSock) : FSock × Res Unit :=
  let r := s.c.writeOutBuffer s.t
  match r.2.2 with
  | .ok () =>
    match r.2.1.flush with
    | (t, .ok) => (⟨r.1, t⟩, .ok ())
    | (t, .err k) => (⟨r.1, t⟩, .err (.io k))
  | .err e => (⟨r.1, r.2.1⟩, .err e)
  | .panic p => (⟨r.1, r.2.1⟩, .panic p)

/-- `FrameSocket::send(frame)` = `write` then `flush` -/
def FSock.send (s : FSock) (f : Frame) : FSock × Res Unit :=
  match s.write f with
  | (s, .ok ()) => s.flush
  | (s, .err e) => (s, .err e)
  | (s, .panic p) => (s, .panic p)

end WsModel
