import WsModel.Generated.VerifyGen
import WsModel.HsM

/-! Leaves of the machine translation of `ClientHandshake::stage_finished`
(`WsModel/Generated/CStageGen.lean`, written by `translator/cstage2lean.py` on every run).  The
call `self.verify_data.verify_response(result)` goes to the *generated* `GenVerify.verifyResponse`. -/
namespace WsModel.GenCStage
open WsModel WsModel.Hs WsModel.GenHs WsModel.GenVerify

/-- the `Response` that `Response::from_httparse` builds from a parsed head: no body yet -/
def respOfHead (h : RawHead) : Resp := ⟨h.code, h.headers, none⟩

/-- `HandshakeMachine::start_read(stream)` -/
def startRead : HState := .reading [] {}

/-- `WebSocket::from_partially_read(stream, tail, Role::Client, config)`: a client socket whose
read buffer starts with `tail`; the model identifies it with those bytes -/
def fromPartiallyRead (tail : Bytes) : Bytes := tail

end WsModel.GenCStage
