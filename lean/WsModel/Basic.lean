import WsModel.Generated.Coding
import WsModel.Generated.LengthFormat
import WsModel.Generated.State
import WsModel.Generated.Attack

/-! Basic types shared by the whole model: bytes, errors, three-way results. -/
namespace WsModel
open WsModel.Gen

abbrev Bytes := List UInt8

/-- The `io::ErrorKind`s the model distinguishes. -/
inductive IoKind where
  | wouldBlock | reset | intr | other
  deriving DecidableEq, Repr, Inhabited

structure Mask where
  b0 : UInt8
  b1 : UInt8
  b2 : UInt8
  b3 : UInt8
  deriving DecidableEq, Repr, Inhabited

def Mask.toBytes (m : Mask) : Bytes := [m.b0, m.b1, m.b2, m.b3]

/-- key byte `i mod 4` -/
def Mask.get (m : Mask) (i : Nat) : UInt8 :=
  match i % 4 with
  | 0 => m.b0
  | 1 => m.b1
  | 2 => m.b2
  | _ => m.b3

structure Header where
  fin : Bool
  rsv1 : Bool
  rsv2 : Bool
  rsv3 : Bool
  opcode : OpCode
  mask : Option Mask
  deriving DecidableEq, Repr, Inhabited

structure Frame where
  header : Header
  payload : Bytes
  deriving DecidableEq, Repr, Inhabited

structure CloseFrame where
  code : CloseCode
  reason : Bytes
  deriving DecidableEq, Repr, Inhabited

inductive Message where
  | text (b : Bytes)
  | binary (b : Bytes)
  | ping (b : Bytes)
  | pong (b : Bytes)
  | close (c : Option CloseFrame)
  | frame (f : Frame)
  deriving DecidableEq, Repr, Inhabited

inductive ProtoErr where
  | resetWithoutClosingHandshake
  | sendAfterClosing
  | receivedAfterClosing
  | nonZeroReservedBits
  | unmaskedFrameFromClient
  | maskedFrameFromServer
  | fragmentedControlFrame
  | controlFrameTooBig
  | unknownControlFrameType (n : Nat)
  | unknownDataFrameType (n : Nat)
  | unexpectedContinueFrame
  | expectedFragment (d : OpData)
  | invalidCloseSequence
  | invalidOpcode (n : Nat)
  deriving DecidableEq, Repr, Inhabited

inductive Err where
  | connectionClosed
  | alreadyClosed
  | io (k : IoKind)
  | capacity (size max : Nat)
  | protocol (p : ProtoErr)
  | writeBufferFull (f : Frame)
  | utf8
  deriving DecidableEq, Repr, Inhabited

/-- Every `expect`/`unwrap`/`unreachable!`/`panic!`/`assert!` site of the modelled code. -/
inductive PanicSite where
  | noFrameHeader          -- read_frame: `expect("Bug: no frame header")`
  | payloadLenMismatch     -- read_frame: `debug_assert_eq!(payload.len(), length)`
  | incompleteTakeUnwrap   -- read_message_frame: `self.incomplete.take().unwrap()`
  | notTextNorBinary       -- read_message_frame: `panic!("Bug: message is not text nor binary")`
  | doCloseTerminated      -- do_close: `unreachable!()`
  | opcodeOutOfRange       -- `OpCode::from(u8)`: `panic!("Bug: OpCode out of range")`
  | lengthLength           -- parse_internal: `assert!(length_length <= SIZE)`
  | configInvalid          -- `WebSocketConfig::assert_valid`
  | utf8CheckedSub         -- utf-8 crate: `checked_sub(..).unwrap()`
  | fuel                   -- a model loop ran out of fuel (proved unreachable)
  | readInCapacity         -- read_in: `debug_assert!(self.in_buffer.capacity() > len)`
  deriving DecidableEq, Repr, Inhabited

inductive Res (α : Type) where
  | ok (a : α)
  | err (e : Err)
  | panic (s : PanicSite)
  deriving Repr, Inhabited

instance [DecidableEq α] : DecidableEq (Res α) := by
  intro a b
  cases a <;> cases b <;> simp <;> exact inferInstance

def Res.isOk : Res α → Bool
  | .ok _ => true
  | _ => false

def Res.isPanic : Res α → Bool
  | .panic _ => true
  | _ => false

def Res.map (f : α → β) : Res α → Res β
  | .ok a => .ok (f a)
  | .err e => .err e
  | .panic s => .panic s

inductive Role where
  | server | client
  deriving DecidableEq, Repr, Inhabited

/-- big-endian encoding of `n` in exactly `k` bytes (`to_be_bytes`, truncating like `as`) -/
def beBytes : Nat → Nat → Bytes
  | 0, _ => []
  | k + 1, n => beBytes k (n / 256) ++ [UInt8.ofNat (n % 256)]

/-- `from_be_bytes` -/
def beNat (bs : Bytes) : Nat :=
  bs.foldl (fun acc b => acc * 256 + b.toNat) 0

end WsModel
