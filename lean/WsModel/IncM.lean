import WsModel.Collect
import WsModel.Codec

/-! The monad and the leaf operations that the machine translation of `IncompleteMessage`
(`WsModel/Generated/IncGen.lean`, written by `translator/inc2lean.py` on every run) is expressed in.
The state is the incomplete message.  Leaves: `Vec::extend` on the binary buffer and the
`StringCollector` methods (translated separately, `CollGen.lean`). -/
namespace WsModel.GenInc
open WsModel WsModel.Gen

abbrev M (α : Type) := Incomplete → Incomplete × Res α

@[inline] def M.pure (a : α) : M α := fun s => (s, .ok a)

@[inline] def M.bind (x : M α) (k : α → M β) : M β := fun s =>
  match x s with
  | (s, .ok a) => k a s
  | (s, .err e) => (s, .err e)
  | (s, .panic p) => (s, .panic p)

instance : Monad M where
  pure := M.pure
  bind := M.bind

def throwE (e : Err) : M α := fun s => (s, .err e)
def panicAt (p : PanicSite) : M α := fun s => (s, .panic p)
def liftRes (r : Res α) : M α := fun s => (s, r)
def getW : M Incomplete := fun s => (s, .ok s)

/-- `v.extend(tail)` on the buffer of a binary message -/
def binaryExtend (tail : Bytes) : M Unit := fun s =>
  match s with
  | .binary v => (.binary (v ++ tail), .ok ())
  | s => (s, .ok ())

/-- `t.extend(tail)` on the collector of a text message -/
def textExtend (tail : Bytes) : M Unit := fun s =>
  match s with
  | .text c => ((Incomplete.text (c.extend tail).1), (c.extend tail).2)
  | s => (s, .ok ())

end WsModel.GenInc
