import WsModel.Basic

/-! `apply_mask` (src/protocol/frame/mask.rs): the bytewise specification and the model of the
word-wise fast path for an arbitrary split into (prefix, words, suffix). -/
namespace WsModel

/-- specification / `apply_mask_fallback` starting at key offset `off` -/
def applyMaskFrom (m : Mask) : Nat → Bytes → Bytes
  | _, [] => []
  | off, b :: bs => (b ^^^ m.get off) :: applyMaskFrom m (off + 1) bs

/-- byte `i` becomes `byte i XOR key[i mod 4]` -/
def applyMask (m : Mask) (bs : Bytes) : Bytes := applyMaskFrom m 0 bs

/-- `u32::from_ne_bytes(mask)` on a little-endian target -/
def Mask.toWord (m : Mask) : BitVec 32 :=
  (BitVec.ofNat 32 m.b0.toNat) ||| (BitVec.ofNat 32 m.b1.toNat <<< 8)
    ||| (BitVec.ofNat 32 m.b2.toNat <<< 16) ||| (BitVec.ofNat 32 m.b3.toNat <<< 24)

/-- `u32::to_ne_bytes` on a little-endian target -/
def wordToMask (w : BitVec 32) : Mask :=
  ⟨UInt8.ofNat (w.toNat % 256), UInt8.ofNat ((w >>> 8).toNat % 256),
   UInt8.ofNat ((w >>> 16).toNat % 256), UInt8.ofNat ((w >>> 24).toNat % 256)⟩

/-- one aligned word of the buffer, little-endian -/
def bytesToWord (a b c d : UInt8) : BitVec 32 := (Mask.toWord ⟨a, b, c, d⟩)

def wordToBytes (w : BitVec 32) : Bytes := (wordToMask w).toBytes

/-- `for word in words { *word ^= mask_u32 }` over a byte list holding `n` whole words -/
def xorWords (w : BitVec 32) : Nat → Bytes → Bytes
  | n + 1, a :: b :: c :: d :: rest => wordToBytes (bytesToWord a b c d ^^^ w) ++ xorWords w n rest
  | _, bs => bs

/-- `apply_mask_fast32` for the split (`pre` unaligned bytes, `words` whole words, rest):
`align_to_mut` may return *any* such split, so the model takes it as a parameter. -/
def applyMaskFast (pre words : Nat) (m : Mask) (bs : Bytes) : Bytes :=
  let p := bs.take pre
  let mid := (bs.drop pre).take (4 * words)
  let suf := (bs.drop pre).drop (4 * words)
  let head := pre % 4
  let w := if head > 0 then (Mask.toWord m).rotateRight (8 * head) else Mask.toWord m
  applyMask m p ++ xorWords w words mid ++ applyMask (wordToMask w) suf

end WsModel
