import WsModel.Handshake.Model

/-! Leaves of the machine translation of `VerifyData::verify_response`
(`WsModel/Generated/VerifyGen.lean`, written by `translator/verify2lean.py` on every run): the
response object as the decision sees it, and `HeaderValue::to_str()?`.  `HeaderMap::get` is `hget`
(first value of a name, names compared case-insensitively), `to_str` is `toStr`,
`eq_ignore_ascii_case` is `eqIgnoreCase` — the definitions of `WsModel/Handshake/Model.lean`. -/
namespace WsModel.GenVerify
open WsModel WsModel.Hs

/-- an `http::Response<Option<Vec<u8>>>` -/
structure Resp where
  status : Nat
  headers : List (Bytes × Bytes)
  body : Option Bytes
  deriving Repr, Inhabited

/-- `StatusCode::SWITCHING_PROTOCOLS` -/
def switchingProtocols : Nat := 101

/-- `value.to_str()?` (`ToStrError` converts to `Error::Utf8`) -/
def toStrTry (v : Bytes) : Except HsErr Bytes :=
  match toStr v with
  | some s => pure s
  | none => throw .utf8

end WsModel.GenVerify
