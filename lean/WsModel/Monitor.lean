import WsModel.Context
import WsModel.Spec.Rfc6455

/-! Executable property monitors, evaluated on what the REAL crate printed (never on the model's
output). A failure is a concrete input on which the implementation violates the property. -/
open WsModel WsModel.Gen

namespace Mon

structure ImplOp where
  body : List String := []
  io : List String := []
  res : List String := []
  wire : Bytes := []
  canR : Bool := true
  canW : Bool := true
  /-- the masking keys offered to this call (hook queue) and how many the implementation drew -/
  masks : List Bytes := []
  mu : Nat := 0
  /-- the call was `send` (= `write` then `flush`); `body` says `write` -/
  isSend : Bool := false
  /-- for `setcfg`: the configuration the call installs -/
  newCfg : Option Config := none
  deriving Inhabited

structure ImplCase where
  role : Role := .server
  cfg : Config := {}
  pre : Option Bytes := none
  newOk : Bool := true
  peer : Bytes := []
  ops : Array ImplOp := #[]
  expects : List String := []
  /-- the harness measured a read that allocated beyond the configured bound -/
  memViol : Option String := none

def hexDigit (n : Nat) : Char :=
  if n < 10 then Char.ofNat (48 + n) else Char.ofNat (87 + n)

def hex (bs : Bytes) : String :=
  if bs.isEmpty then "-"
  else String.ofList (bs.foldr (fun b acc => hexDigit (b.toNat / 16) :: hexDigit (b.toNat % 16) :: acc) [])

def showMsg : Message → String
  | .text b => "text " ++ hex b
  | .binary b => "binary " ++ hex b
  | .ping b => "ping " ++ hex b
  | .pong b => "pong " ++ hex b
  | .close none => "close none"
  | .close (some cf) => s!"close {closeCodeToU16 cf.code} {hex cf.reason}"
  | .frame _ => "frame"

def isOp (o : ImplOp) (k : String) : Bool := o.body.head? == some k

def isWriteKind (o : ImplOp) (k : String) : Bool :=
  match o.body with
  | "write" :: k' :: _ => k == k'
  | _ => false

def hasRawFrame (c : ImplCase) : Bool := c.ops.any fun o => isWriteKind o "frame"

def resIsOkMsg (o : ImplOp) : Option String :=
  match o.res with
  | "ok" :: rest => if rest == ["unit"] then none else some (" ".intercalate rest)
  | _ => none

def resErr (o : ImplOp) : Option String :=
  match o.res with
  | "err" :: e :: _ => some e
  | _ => none

def isPanic (o : ImplOp) : Bool := o.res.head? == some "panic"

def ioHas (o : ImplOp) (p : String → Bool) : Bool := o.io.any p

/-- the transport told the endpoint that it is gone during this op -/
def transportEnded (o : ImplOp) : Bool :=
  ioHas o fun t => t == "r:e" || t == "r:xreset" || t.startsWith "w:xreset" || t.startsWith "w:0/"

/-- every transport write/flush of this op succeeded (and there was nothing that failed) -/
def outboundClean (o : ImplOp) : Bool :=
  !(ioHas o fun t => t.startsWith "w:b" || t.startsWith "w:x" || t.startsWith "w:0/" || t == "f:b" || t.startsWith "f:x")

def errClass (e : String) : String :=
  if e.startsWith "Protocol." then "protocol"
  else if e.startsWith "Capacity." then "capacity"
  else if e == "Utf8" then "utf8"
  else if e.startsWith "Io." then "io"
  else "closed"

/-! ### wire parsing with the independent RFC header reader -/

structure WFrame where
  fin : Bool
  rsv : Nat
  opcode : Nat
  masked : Bool
  payload : Bytes       -- unmasked
  size : Nat            -- header size
  minimal : Bool
  key : Bytes := []     -- the masking key, if masked
  deriving Inhabited

/-- split the bytes an endpoint wrote into complete frames; the rest is an incomplete tail -/
def parseWire : Nat → Bytes → List WFrame × Bytes
  | 0, bs => ([], bs)
  | fuel + 1, bs =>
    match Spec.rawHeader bs with
    | none => ([], bs)
    | some h =>
      if bs.length < h.size + h.len then ([], bs)
      else
        let raw := (bs.drop h.size).take h.len
        let minimal := h.size == 2 + (if h.len < 126 then 0 else if h.len < 65536 then 2 else 8) + (if h.mask.isSome then 4 else 0)
        let f : WFrame := ⟨h.fin, h.rsv, h.opcode, h.mask.isSome, Spec.unmaskPayload h.mask raw, h.size, minimal,
          (match h.mask with | some m => m.toBytes | none => [])⟩
        let (fs, tail) := parseWire fuel ((bs.drop h.size).drop h.len)
        (f :: fs, tail)

def allWire (c : ImplCase) : Bytes := c.ops.foldl (fun acc o => acc ++ o.wire) []

def wireFrames (bs : Bytes) : List WFrame × Bytes := parseWire (bs.length + 1) bs

/-- an upper bound on the encoded size of the largest single frame this endpoint had to send in the
case (user messages, pongs for delivered pings, close replies): the properties about back-pressure
only speak about configurations whose max_write_buffer_size can hold it -/
def largestFrame (c : ImplCase) : Nat :=
  let frameLen (n : Nat) : Nat :=
    n + 2 + (if n < 126 then 0 else if n < 65536 then 2 else 8) + (if c.role == .client then 4 else 0)
  c.ops.foldl (fun acc o =>
    let fromOp := match o.body with
      | "write" :: "close" :: _ :: h :: _ => frameLen ((if h == "-" then 0 else h.length / 2) + 2)
      | "write" :: _ :: h :: _ => frameLen (if h == "-" then 0 else h.length / 2)
      | "close" :: _ :: h :: _ => frameLen ((if h == "-" then 0 else h.length / 2) + 2)
      | _ => frameLen 0
    let fromRes := match o.res with
      | ["ok", "ping", h] => frameLen (if h == "-" then 0 else h.length / 2)
      | ["ok", "close", _, h] => frameLen ((if h == "-" then 0 else h.length / 2) + 2)
      | _ => frameLen 0
    max acc (max fromOp fromRes)) 6

def bufferHoldsLargest (c : ImplCase) : Bool := c.cfg.maxw ≥ largestFrame c

/-! ### C07: no panic -/
def monC07 (c : ImplCase) : List String :=
  if c.ops.any (fun o => ioHas o (· == "r:z")) then
    ["C05", "C06", "C07"].map fun p => s!"mon {p} FAIL zero-length-read-buffer-taken-for-eof"
  else
  match c.ops.toList.find? isPanic with
  | some o => [s!"mon C07 FAIL panic-{" ".intercalate (o.res.drop 1)} op={" ".intercalate (o.body.take 2)}"]
  | none => ["mon C07 ok"]

/-! ### C02 / C05 / C06 / C08: the implementation against the one-shot RFC decoder -/
def readOnly (c : ImplCase) : Bool :=
  c.ops.all fun o => isOp o "read" || isOp o "flush" || isOp o "can"

def inboundClean (c : ImplCase) : Bool :=
  c.ops.all fun o => !(ioHas o fun t => t == "r:e" || t.startsWith "r:x")

def deliveredBytes (c : ImplCase) : Nat :=
  c.ops.foldl (fun acc o => o.io.foldl (fun a t =>
    if t.startsWith "r:" && t != "r:b" && t != "r:e" && !t.startsWith "r:x" then a + ((t.drop 2).toString.length / 2) else a) acc) 0

def specVerdict (c : ImplCase) : Option String :=
  if !c.newOk || !readOnly c || !inboundClean c then none
  else
    let stream := (c.pre.getD []) ++ c.peer
    let (specMsgs, specEnd) := Spec.decode c.role c.cfg.acceptUnmasked ⟨c.cfg.maxFrame, c.cfg.maxMsg⟩ stream
    let want := specMsgs.map showMsg
    -- the implementation's messages up to its first non-WouldBlock, non-io error
    let reads := c.ops.toList.filter fun o => isOp o "read"
    let rec go (ops : List ImplOp) (got : List String) : List String × Option String × Bool :=
      match ops with
      | [] => (got, none, false)
      | o :: rest =>
        match resIsOkMsg o with
        | some m => go rest (got ++ [m])
        | none =>
          match resErr o with
          | some e =>
            if e == "Io.WouldBlock" then go rest got
            else if errClass e == "io" then (got, none, true)
            else (got, some (errClass e), false)
          | none => go rest got
    let (got, err, ioStop) := go reads []
    let closeDelivered := got.any fun m => m.startsWith "close"
    let isPrefix := got.length ≤ want.length && got == want.take got.length
    -- the peer's Close is part of what had to be reported and was not (C12)
    let tag := if (want.any fun m => m.startsWith "close") && !closeDelivered then " close-not-reported" else ""
    Option.map (· ++ tag) <|
    if !isPrefix then
      some s!"spec-messages got={got.length} want={want.length} first-diff={(got.zip want).findIdx? (fun p => p.1 != p.2)}"
    else
      match err with
      | some cls =>
        if closeDelivered || cls == "closed" then
          (if cls == "closed" && !closeDelivered then some "spec-closed-without-close" else none)
        else if got.length != want.length then some s!"spec-early-error-{cls}"
        else if specEnd != .error (match cls with | "protocol" => .protocol | "capacity" => .capacity | _ => .utf8) then
          some s!"spec-error-class-{cls}"
        else none
      | none =>
        -- complete consumption: all bytes delivered, last read blocked, nothing wrong seen
        let lastBlocked := match reads.getLast? with
          | some o => resErr o == some "Io.WouldBlock"
          | none => false
        let allDelivered := (c.pre.getD []).length + deliveredBytes c == stream.length
        if !ioStop && lastBlocked && allDelivered && !closeDelivered then
          if got.length != want.length then some "spec-missing-message"
          else if specEnd != .needMore then some "spec-missing-error"
          else none
        else none

def monSpec (c : ImplCase) : List String :=
  match specVerdict c with
  | none => []
  | some v =>
    let line := if v == "" then "ok" else s!"FAIL {v}"
    ["C02", "C05", "C06", "C08"].map fun p => s!"mon {p} {line}"

def monSpecAll (c : ImplCase) : List String :=
  if !c.newOk || !readOnly c || !inboundClean c then []
  else match specVerdict c with
    | none => ["C02", "C05", "C06", "C08", "C01", "C19"].map fun p => s!"mon {p} ok"
    | some v => (["C02", "C05", "C06", "C08", "C01", "C19"] ++ (if v.endsWith "close-not-reported" then ["C12"] else [])).map
        fun p => s!"mon {p} FAIL {v}"

/-! ### C05: a read whose transport read would block reports exactly that -/
def monC05Block (c : ImplCase) : List String :=
  if !c.newOk then [] else
  let bad := c.ops.toList.find? fun o =>
    isOp o "read" && o.io.getLast? == some "r:b" && !(o.res == ["err", "Io.WouldBlock"])
  match bad with
  | some o => [s!"mon C05 FAIL transport-read-would-block-but-read-reported {" ".intercalate (o.res.take 2)}"]
  | none => ["mon C05 ok"]

/-! ### C03: close-handshake safety on the implementation's trace -/
def monC03 (c : ImplCase) : List String :=
  if !c.newOk || hasRawFrame c then [] else
  let ops := c.ops.toList
  let fails : List String := Id.run do
    let mut out : List String := []
    let mut closing := false        -- our Close has been requested
    let mut closeDelivered := false -- a Close message was delivered by read
    let mut closedReported := false -- ConnectionClosed was returned
    let mut endReported := false    -- ConnectionClosed or ResetWithoutClosingHandshake was returned
    let mut prevCanR := true
    let mut prevCanW := true
    for o in ops do
      let isRead := isOp o "read"
      let isWrite := isOp o "write"
      let err := resErr o
      -- (f') "already closed" is only ever answered after the end of the connection was reported
      if err == some "AlreadyClosed" && !endReported then out := out ++ ["f-already-closed-without-report"]
      if err == some "ConnectionClosed" || err == some "Protocol.ResetWithoutClosingHandshake" then endReported := true
      -- (f) after the clean-close report everything is refused as already closed
      if closedReported && !isOp o "can" then
        if err != some "AlreadyClosed" || o.io != [] && o.io != ["-"] then
          out := out ++ ["f-after-closed-not-refused"]
      -- (a)/(g) writes are refused exactly when can_write said no
      if isWrite && !closedReported then
        let refused := err == some "AlreadyClosed" || err == some "Protocol.SendAfterClosing"
        if !prevCanW && !refused then out := out ++ ["a-write-not-refused"]
        if !prevCanW && refused && (o.wire != [] || (o.io != [] && o.io != ["-"])) then
          out := out ++ ["a-refused-write-touched-transport"]
        if prevCanW && refused then out := out ++ ["g-can-write-disagrees"]
      -- (c)/(g) no message once reading is over
      if isRead then
        match resIsOkMsg o with
        | some m =>
          if closeDelivered then out := out ++ ["c-message-after-close"]
          if !prevCanR then out := out ++ ["g-can-read-disagrees"]
          if m.startsWith "close" then closeDelivered := true
        | none => pure ()
      -- (d)/(e) clean close only when it happened
      if err == some "ConnectionClosed" then
        if !closeDelivered then out := out ++ ["d-closed-without-close-received"]
        if c.role == .client && !transportEnded o then out := out ++ ["d-client-closed-before-transport-end"]
        closedReported := true
      if (isOp o "close" || isWriteKind o "close") then closing := true
      prevCanR := o.canR
      prevCanW := o.canW
    -- (a) can_write goes false as soon as closing started
    return out
  -- (b) nothing follows our Close on the wire
  let (frames, tail) := wireFrames (allWire c)
  let afterClose : Bool := Id.run do
    let mut seen := false
    let mut bad := false
    for f in frames do
      if seen then bad := true
      if f.opcode == 8 then seen := true
    return bad || (seen && tail != [])
  -- (d) server: ConnectionClosed without a transport end only when the wire is whole and holds a Close
  let dServer : Bool := Id.run do
    let mut wire : Bytes := []
    let mut bad := false
    for o in ops do
      wire := wire ++ o.wire
      if resErr o == some "ConnectionClosed" && c.role == .server && !transportEnded o then
        let (fs, tl) := wireFrames wire
        if tl != [] || !(fs.any fun f => f.opcode == 8) then bad := true
    return bad
  let fails := fails ++ (if afterClose then ["b-frame-after-close"] else []) ++
    (if dServer then ["d-server-closed-with-unsent-close"] else [])
  match fails with
  | [] => ["mon C03 ok"]
  | f :: _ => [s!"mon C03 FAIL {f}"]

/-! ### C09: every emitted frame is well-formed for the role -/
def monC09 (c : ImplCase) : List String :=
  if !c.newOk || hasRawFrame c then [] else
  let (frames, _) := wireFrames (allWire c)
  let bad := frames.find? fun f =>
    !f.fin || f.rsv != 0 || !(f.opcode == 1 || f.opcode == 2 || f.opcode == 8 || f.opcode == 9 || f.opcode == 10)
      || !f.minimal || (f.masked != (c.role == .client)) || (f.opcode == 8 && f.payload.length > 125)
  match bad with
  | some f => [s!"mon C09 FAIL malformed-frame opcode={f.opcode} fin={f.fin} rsv={f.rsv} masked={f.masked} minimal={f.minimal} len={f.payload.length}"]
  | none => ["mon C09 ok"]

/-- C09, fresh key per frame: the keys of the frames a client put on the wire are, in order, keys
the generator handed out, none used twice (every attempt to queue a frame draws a key, also for a
frame handed back by `WriteBufferFull` and written again, or a raw frame that came with a key) -/
def monC09Keys (c : ImplCase) : List String :=
  if !c.newOk || c.role != .client then [] else
  let (frames, _) := wireFrames (allWire c)
  let drawn := c.ops.toList.foldl (fun acc o => acc ++ o.masks.take o.mu) []
  let onWire := frames.map (·.key)
  -- a frame that was refused (`WriteBufferFull`) or put back has drawn a key that never reaches
  -- the wire, so the keys on the wire are a subsequence, each generated key used at most once
  let rec subseq (xs ys : List Bytes) : Bool :=
    match xs, ys with
    | [], _ => true
    | _ :: _, [] => false
    | x :: xs', y :: ys' => if x == y then subseq xs' ys' else subseq (x :: xs') ys'
  if frames.any (fun f => !f.masked) then ["mon C09 FAIL client-frame-unmasked"]
  else if subseq onWire drawn then ["mon C09 ok"]
  else ["mon C09 FAIL frame-key-is-not-a-freshly-generated-key"]

def unhexList : List Char → Bytes
  | a :: b :: rest =>
    let v (c : Char) : Nat := let n := c.toNat
      if 48 ≤ n ∧ n ≤ 57 then n - 48 else if 97 ≤ n ∧ n ≤ 102 then n - 87 else if 65 ≤ n ∧ n ≤ 70 then n - 55 else 0
    UInt8.ofNat (v a * 16 + v b) :: unhexList rest
  | _ => []

def unhex (s : String) : Bytes := if s == "-" then [] else unhexList s.toList

/-! ### C10: user data frames reach the wire exactly once and in order -/
def monC10 (c : ImplCase) : List String :=
  if !c.newOk || hasRawFrame c then [] else
  let ops := c.ops.toList
  let res : Option String := Id.run do
    let mut expected : List (Nat × Bytes) := []
    let mut wire : Bytes := []
    let mut bad : Option String := none
    let mut lastPong : Option Bytes := none   -- the newest pong owed (user pong or answer to a ping)
    for o in ops do
      wire := wire ++ o.wire
      match o.body with
      | "write" :: kind :: h :: _ =>
        let opc := if kind == "text" then 1 else if kind == "binary" then 2 else if kind == "ping" then 9 else 0
        let accepted := o.res.head? == some "ok" || (match resErr o with | some e => e.startsWith "Io." | none => false)
        if opc != 0 && accepted then expected := expected ++ [(opc, unhex h)]
        if kind == "pong" && accepted then lastPong := some (unhex h)
        if kind == "close" then lastPong := none
      | "close" :: _ => lastPong := none
      | _ => pure ()
      match o.res with
      | ["ok", "ping", h] => if o.canW then lastPong := some (unhex h)
      | "ok" :: "close" :: _ => lastPong := none
      | _ => pure ()
      if isOp o "flush" && o.res == ["ok", "unit"] && bufferHoldsLargest c then
        match lastPong with
        | some p =>
          if !(((wireFrames wire).1.filter fun f => f.opcode == 10).any fun f => f.payload == p) then
            bad := bad <|> some "flush-ok-but-pong-unsent"
          lastPong := none
        | none => pure ()
      let (fs, _) := wireFrames wire
      let onWire := (fs.filter fun f => f.opcode == 1 || f.opcode == 2 || f.opcode == 9).map fun f => (f.opcode, f.payload)
      if !(onWire.length ≤ expected.length && onWire == expected.take onWire.length) then
        bad := bad <|> some "wire-not-prefix-of-accepted"
      if isOp o "flush" && o.res == ["ok", "unit"] then
        if onWire.length != expected.length then
          bad := bad <|> some "flush-ok-but-data-unsent"
        if o.io.getLast? != some "f:o" then
          bad := bad <|> some "flush-ok-without-transport-flush"
    return bad
  match res with
  | some b => [s!"mon C10 FAIL {b}"]
  | none => ["mon C10 ok"]

/-! ### C11: pongs answer pings, in order, none invented -/
def monC11 (c : ImplCase) : List String :=
  if !c.newOk || hasRawFrame c then [] else
  let ops := c.ops.toList
  let res : Option String := Id.run do
    let mut pings : List Bytes := []      -- payloads of pings delivered so far (and user pongs written)
    let mut wire : Bytes := []
    let mut bad : Option String := none
    let mut pendingPing : Option Bytes := none
    let mut open_ := true
    let mut dirty := false            -- bytes accepted by the transport since its last successful flush
    let mut pongAwaitsFlush := false  -- an automatic pong is on the wire but the transport was not flushed after it
    let mut pongsSeen := 0
    for o in ops do
      wire := wire ++ o.wire
      let (fs, _) := wireFrames wire
      let pongs := (fs.filter fun f => f.opcode == 10).map (·.payload)
      -- written AND flushed: once a pong is on the wire, the next read/flush whose transport calls all
      -- succeed must leave the transport flushed
      let wasAwaiting := pongAwaitsFlush
      for t in o.io do
        if t.startsWith "w:" && !(t.startsWith "w:b") && !(t.startsWith "w:x") && !(t.startsWith "w:0/") then dirty := true
        if t == "f:o" then dirty := false
      if wasAwaiting && (isOp o "read" || isOp o "flush") && outboundClean o && dirty
          && (match resErr o with | some e => e == "Io.WouldBlock" | none => true) then
        bad := bad <|> some "pong-written-but-not-flushed"
      -- a user write of a data message or ping that returns Ok retries the postponed pong too
      let dataWrite := isWriteKind o "text" || isWriteKind o "binary" || isWriteKind o "ping"
      if wasAwaiting && dataWrite && o.res.head? == some "ok" && dirty then
        bad := bad <|> some "write-ok-but-pong-not-flushed"
      match pendingPing with
      | some p =>
        if dataWrite && o.res.head? == some "ok" && open_ && c.cfg.maxw ≥ 2 ^ 30 && !(pongs.contains p) then
          bad := bad <|> some "write-ok-but-pending-pong-not-sent"
      | none => pure ()
      if pongs.length > pongsSeen && dirty then pongAwaitsFlush := true
      if !dirty then pongAwaitsFlush := false
      pongsSeen := pongs.length
      -- a pending automatic pong must be out once an op's transport writes all succeeded
      match pendingPing with
      | some p =>
        if (isOp o "read" || isOp o "write" || isOp o "flush") && outboundClean o
            && (o.io.any fun t => t.startsWith "w:" || t == "f:o") && open_ then
          if !(pongs.contains p) && !(isWriteKind o "pong") && !(isWriteKind o "close") && !(isOp o "close") then
            bad := bad <|> some "pong-not-sent-by-next-successful-write"
          pendingPing := none
      | none => pure ()
      if isWriteKind o "pong" then
        match o.body with
        | _ :: _ :: h :: _ => pings := pings ++ [unhex h]; pendingPing := none
        | _ => pure ()
      if isOp o "close" || isWriteKind o "close" then pendingPing := none
      if isOp o "read" then
        match o.res with
        | ["ok", "ping", h] =>
          pings := pings ++ [unhex h]
          if o.canW then pendingPing := some (unhex h)
        | "ok" :: "close" :: _ => pendingPing := none
        | _ => pure ()
      if !o.canW then open_ := false
      -- none invented, order preserved: the pongs on the wire are a subsequence of pings seen
      let rec subseq (xs ys : List Bytes) : Bool :=
        match xs, ys with
        | [], _ => true
        | _ :: _, [] => false
        | x :: xs', y :: ys' => if x == y then subseq xs' ys' else subseq (x :: xs') ys'
      if !subseq pongs pings then
        bad := bad <|> some "pong-invented-or-reordered"
    return bad
  match res with
  | some b => [s!"mon C11 FAIL {b}"]
  | none => ["mon C11 ok"]

/-! ### C12: the reply to a received Close echoes what was reported -/
def monC12 (c : ImplCase) : List String :=
  if !c.newOk || hasRawFrame c then [] else
  let ops := c.ops.toList
  let res : Option String := Id.run do
    let mut weClosed := false
    let mut reported : Option Bytes := none   -- payload the reply must carry
    let mut bad : Option String := none
    let mut hadError := false                 -- an earlier read failed: the stream position is no longer known
    -- what the peer actually sent: the first Close frame of a cleanly parsing inbound stream
    let inbound := (wireFrames ((c.pre.getD []) ++ c.peer)).1
    let peerClose : Option Bytes := (inbound.find? fun f => f.opcode == 8).map (·.payload)
    let cleanBefore : Bool := (inbound.takeWhile fun f => f.opcode != 8).all fun f =>
      f.fin && f.rsv == 0 && (f.opcode == 1 || f.opcode == 2 || f.opcode == 9 || f.opcode == 10) && f.masked == (c.role == .server)
      && (f.opcode != 1 || Spec.wellFormedB f.payload) && (f.opcode < 8 || f.payload.length ≤ 125)
    for o in ops do
      if isOp o "read" then
        match o.res with
        | ["ok", "close", "none"] => if !weClosed && reported.isNone then reported := some []
        | ["ok", "close", code, reason] =>
          let cn := code.toNat?.getD 0
          -- against what the peer really sent: echoed unchanged when it answers our Close, or when the code is wire-allowed
          match peerClose with
          | some (a :: b :: r) =>
            if cleanBefore && !hadError then
              let pc := a.toNat * 256 + b.toNat
              if weClosed || Spec.wireCloseCode pc then
                if !(cn == pc && unhex reason == r) then bad := bad <|> some s!"reported-close-differs-from-peers code={pc}"
              else if !(cn == 1002 && unhex reason == protocolViolationReason) then
                bad := bad <|> some s!"disallowed-code-not-substituted code={pc}"
          | _ => pure ()
          if !weClosed && reported.isNone then
            if !(Spec.wireCloseCode cn) && !(cn == 1002 && unhex reason == protocolViolationReason) then
              bad := bad <|> some s!"reported-code-not-allowed code={cn}"
            reported := some (beBytes 2 cn ++ unhex reason)
        | _ => pure ()
      if isOp o "read" then
        match resErr o with
        | some e => if e != "Io.WouldBlock" then hadError := true
        | none => pure ()
      if isOp o "close" || isWriteKind o "close" then
        if reported.isNone then weClosed := true
    match reported with
    | some payload =>
      let (fs, _) := wireFrames (allWire c)
      let closes := fs.filter fun f => f.opcode == 8
      if closes.length > 1 then bad := some "more-than-one-close-on-wire"
      match closes.head? with
      | some f => if f.payload != payload then bad := bad <|> some "reply-differs-from-reported"
      | none => pure ()
    | none => pure ()
    return bad
  match res with
  | some b => [s!"mon C12 FAIL {b}"]
  | none => ["mon C12 ok"]

/-! ### C13: Close is never lost to back-pressure -/
def monC13 (c : ImplCase) : List String :=
  if !c.newOk || hasRawFrame c || !bufferHoldsLargest c then [] else
  let ops := c.ops.toList
  let res : Option String := Id.run do
    let mut need := false        -- a Close of ours (own or reply) is owed
    let mut dead := false        -- transport ended or connection terminated: nothing is owed any more
    let mut wire : Bytes := []
    let mut bad : Option String := none
    let mut prevCanW := true
    for o in ops do
      wire := wire ++ o.wire
      let closeOnWire := (wireFrames wire).1.any fun f => f.opcode == 8
      if resErr o == some "AlreadyClosed" && need && !closeOnWire && !dead then
        bad := bad <|> some "terminated-with-close-unsent"
      if transportEnded o || resErr o == some "AlreadyClosed" || (ioHas o fun t => t.startsWith "w:x" || t.startsWith "f:x" || t.startsWith "r:x") then dead := true
      if resErr o == some "ConnectionClosed" && need && !closeOnWire && !dead then
        bad := bad <|> some "closed-reported-with-close-unsent"
      if need && !dead && (isOp o "flush" || isOp o "close" || isOp o "read") && outboundClean o
          && (match resErr o with | some e => e == "Io.WouldBlock" || e == "ConnectionClosed" | none => true) then
        if !closeOnWire then
          bad := bad <|> some "close-not-sent-although-transport-accepts"
      if (isOp o "close" || isWriteKind o "close") && prevCanW then need := true
      if isOp o "read" then
        match o.res with
        | "ok" :: "close" :: _ => need := true
        | _ => pure ()
      prevCanW := o.canW
    return bad
  match res with
  | some b => [s!"mon C13 FAIL {b}"]
  | none => ["mon C13 ok"]

/-! ### C14: bound on unsent data, WriteBufferFull hands the message back intact -/
def monC14 (c : ImplCase) : List String :=
  if !c.newOk then [] else
  let ops := c.ops.toList
  let res : Option String := Id.run do
    let mut bad : Option String := none
    -- `set_config` may lower the maximum below what is already buffered: the bound that a buffer
    -- filled earlier has to respect is the largest maximum in force so far
    let mut maxwSeen := c.cfg.maxw
    for o in ops do
      match o.newCfg with
      | some nc => maxwSeen := max maxwSeen nc.maxw
      | none => pure ()
      -- every transport write offers the whole write buffer: it may never exceed the maximum
      for t in o.io do
        if t.startsWith "w:" then
          match (t.drop 2).toString.splitOn "/" with
          | [_, off] => if off.toNat?.getD 0 > maxwSeen then bad := bad <|> some "offered-more-than-max-write-buffer"
          | _ => pure ()
      match o.body, o.res with
      | "write" :: kind :: h :: _, "err" :: e :: rest =>
        if e.startsWith "WriteBufferFull(" then
          -- res err WriteBufferFull(frame <bits> <opcode> <mask> <payload>)
          let toks := (e :: rest)
          let payloadTok := ((toks.getLast?.getD "").dropEnd 1).toString
          let opc := if kind == "text" then "1" else if kind == "binary" then "2" else if kind == "ping" then "9" else if kind == "pong" then "10" else ""
          if opc != "" then
            if payloadTok != h || toks[2]? != some opc then
              bad := bad <|> some "write-buffer-full-frame-differs-from-message"
            if o.wire != [] then
              bad := bad <|> some "write-buffer-full-but-bytes-written"
      | _, _ => pure ()
    return bad
  -- threshold part, on the prefix of the case that consists of data/ping writes and flushes only
  -- (no automatic reply can be pending there): the unsent amount is known from the outside as
  -- (encoded size of the frames queued) - (bytes the transport accepted)
  let hlen (n : Nat) : Nat := (if n < 126 then 2 else if n < 65536 then 4 else 10) + (if c.role == .client then 4 else 0)
  let thr : Option String := Id.run do
    let mut bad : Option String := none
    let mut unsent : Nat := 0
    let mut live := true
    -- the two sizes in force (a successful `set_config` replaces them)
    let mut wbuf := c.cfg.wbuf
    let mut maxw := c.cfg.maxw
    let mut dead := false
    for o in ops do
      -- a write or flush that returned Ok and ended with a successful transport flush has sent
      -- everything, the automatic replies included (the bound holds the largest frame): the
      -- accounting can start again from zero
      if isOp o "setcfg" then
        match o.newCfg, o.res with
        | some nc, "ok" :: _ => wbuf := nc.wbuf; maxw := nc.maxw
        | _, _ => live := false; dead := true
      else if !live && !dead && maxw ≥ largestFrame c && (isOp o "flush" || isOp o "write") && o.res == ["ok", "unit"]
          && o.io.getLast? == some "f:o" then
        live := true
        unsent := 0
      else if live then
        match o.body with
        | "write" :: kind :: h :: _ =>
          if o.isSend then live := false
          else if kind == "text" || kind == "binary" || kind == "ping" then
            let n := (unhex h).length
            let fl := hlen n + n
            let touched := o.io.any fun t => t.startsWith "w:" || t.startsWith "f:"
            match o.res with
            | "ok" :: _ =>
              if unsent + fl ≤ wbuf && touched then bad := bad <|> some "write-below-threshold-touched-transport"
              if wbuf == 0 && !touched then bad := bad <|> some "write-buffer-size-0-but-write-kept-back"
              if unsent + fl > maxw then bad := bad <|> some "accepted-beyond-max-write-buffer"
              unsent := unsent + fl - o.wire.length
            | "err" :: e :: _ =>
              if e.startsWith "WriteBufferFull(" then
                if unsent + fl ≤ maxw then bad := bad <|> some "write-buffer-full-although-room"
                if touched then bad := bad <|> some "write-buffer-full-touched-transport"
              else if e.startsWith "Io." then
                unsent := unsent + fl - o.wire.length
              else live := false
            | _ => live := false
          else live := false
        | ["flush"] =>
          unsent := unsent - o.wire.length
          match o.res with
          | "ok" :: _ => if unsent != 0 then bad := bad <|> some "flush-ok-with-unsent-data"
          | "err" :: e :: _ => if !e.startsWith "Io." then live := false
          | _ => live := false
        | "can" :: _ => pure ()
        | _ => live := false
    return bad
  match res <|> thr with
  | some b => [s!"mon C14 FAIL {b}"]
  | none => ["mon C14 ok"]

/-! ### C01: expected messages (from the writer side of a pipe case) are read intact and in order -/
def monC01 (c : ImplCase) : List String :=
  if c.expects.isEmpty then [] else
  let got := (c.ops.toList.filter fun o => isOp o "read").filterMap resIsOkMsg
  let errs := (c.ops.toList.filter fun o => isOp o "read").filterMap fun o =>
    match resErr o with
    | some e => if e == "Io.WouldBlock" then none else some e
    | none => none
  if got != c.expects then [s!"mon C01 FAIL messages-differ got={got.length} want={c.expects.length}"]
  else if !errs.isEmpty then [s!"mon C01 FAIL unexpected-error {errs.head!}"]
  else ["mon C01 ok"]

/-- re-issue a verdict under another property id -/
def alias (ls : List String) (src dst : String) : List String :=
  ls.filterMap fun l =>
    if l.startsWith s!"mon {src} " then some (s!"mon {dst} " ++ (l.drop (5 + src.length)).toString) else none

def monMem (c : ImplCase) : List String :=
  match c.memViol with
  | some v => [s!"mon C06 FAIL memory-bound-exceeded {v}"]
  | none => []

/-- the configuration was changed on the live connection: the monitors that judge against the
configuration of the case header do not apply (the correspondence still compares everything) -/
def hasSetCfg (c : ImplCase) : Bool := c.ops.any fun o => isOp o "setcfg"

/-- an I/O error reported to the user comes from the transport: the call that reports `Io(kind)`
made a transport call that failed with that kind (a write that accepted 0 bytes is reported by the
library as a reset). Anything else is an error the library invented on a stream/transport that had
none — e.g. "unexpected end of file" because a frame header had not arrived completely. -/
def monIoOrigin (c : ImplCase) : List String :=
  if !c.newOk then [] else
  let bad : Option (Bool × String) := c.ops.toList.findSome? fun o =>
    match resErr o with
    | some e =>
      if e.startsWith "Io." then
        let kind := (e.drop 3).toString
        let has (p : String → Bool) : Bool := o.io.any p
        let ok :=
          if kind == "WouldBlock" then has fun t => t == "r:b" || t.startsWith "w:b" || t == "f:b"
          else if kind == "reset" then has fun t => t.startsWith "r:xreset" || t.startsWith "w:xreset" || t.startsWith "f:xreset" || t.startsWith "w:0/"
          else if kind == "intr" then has fun t => t.startsWith "r:xintr" || t.startsWith "w:xintr" || t.startsWith "f:xintr"
          else if kind == "other" then has fun t => t.startsWith "r:xother" || t.startsWith "w:xother" || t.startsWith "f:xother"
          else false
        if ok then none else some (isOp o "read", s!"io-error-not-from-the-transport {e}")
      else none
    | none => none
  match bad with
  | some (true, b) => ["C02", "C05", "C19", "C01", "C07"].map fun p => s!"mon {p} FAIL {b}"
  | some (false, b) => ["C10", "C13", "C14", "C07"].map fun p => s!"mon {p} FAIL {b}"
  | none => []

/-- C06 under a changing configuration: a data message handed to the user is never larger than
the `max_message_size` in force when it is delivered -/
def monC06Live (c : ImplCase) : List String :=
  if !c.newOk then [] else
  let res : Option String := Id.run do
    let mut bad : Option String := none
    let mut maxMsg := c.cfg.maxMsg
    for o in c.ops.toList do
      match o.newCfg, o.res with
      | some nc, "ok" :: _ => maxMsg := nc.maxMsg
      | _, _ => pure ()
      if isOp o "read" then
        match o.res, maxMsg with
        | ["ok", kind, h], some m =>
          if (kind == "text" || kind == "binary") && (if h == "-" then 0 else h.length / 2) > m then
            bad := bad <|> some s!"delivered-larger-than-max-message-size-in-force max={m}"
        | _, _ => pure ()
    return bad
  match res with
  | some b => [s!"mon C06 FAIL {b}"]
  | none => ["mon C06 ok"]

/-- A case whose `set_config` calls all precede every other call behaves as a connection created
with the last configuration installed: the same case without those calls, under that configuration -/
def leadingSetCfg (c : ImplCase) : Option ImplCase :=
  let ops := c.ops.toList
  let lead := ops.takeWhile fun o => isOp o "setcfg"
  let rest := ops.dropWhile fun o => isOp o "setcfg"
  if lead.isEmpty || rest.any (fun o => isOp o "setcfg") then none
  else if !(lead.all fun o => o.res.head? == some "ok" && o.wire.isEmpty) then none
  else match lead.getLast?.bind (·.newCfg) with
    | some nc => some { c with cfg := nc, ops := rest.toArray }
    | none => none

def allFixed (c : ImplCase) : List String :=
  let m10 := monC10 c
  let m09 := monC09 c
  monC07 c ++ monIoOrigin c ++ monMem c ++ monSpecAll c ++ monC05Block c ++ monC03 c ++ m09 ++ monC09Keys c ++ m10 ++ monC11 c ++ monC12 c ++ monC13 c ++ monC14 c ++ monC01 c
    ++ alias m10 "C10" "C19" ++ alias m09 "C09" "C19" ++ alias m10 "C10" "C01"
    ++ alias (m10.filter (·.contains "wire-not-prefix-of-accepted")) "C10" "C09"
    ++ alias (monC13 c) "C13" "C10" ++ alias ((monC13 c).filter (·.contains "FAIL")) "C13" "C12"
    ++ alias ((monC13 c).filter (·.contains "FAIL")) "C13" "C04" ++ alias ((monC03 c).filter (·.contains "FAIL")) "C03" "C04"
    ++ alias ((monC07 c).filter fun l => l.startsWith "mon C07 FAIL") "C07" "C05"
    ++ alias ((monC07 c).filter fun l => l.startsWith "mon C07 FAIL") "C07" "C02"

def all (c : ImplCase) : List String :=
  if !hasSetCfg c then allFixed c else
  -- (the generators keep `max_write_buffer_size` at least as large as the largest frame of a case,
  -- as C11/C13/C14 quantify; an installed configuration is only judged like a creation-time one
  -- when it respects that too)
  match (leadingSetCfg c).filter bufferHoldsLargest with
  | some c' => allFixed c'
  | none =>
    -- the configuration changes in mid-connection: only the monitors that follow the change (or
    -- do not depend on the configuration) apply; the correspondence still compares everything
    monC07 c ++ monIoOrigin c ++ monC09 c ++ monC09Keys c ++ monC05Block c ++ monC14 c ++ monC06Live c

end Mon
