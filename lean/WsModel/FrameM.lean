import WsModel.Frame

/-! The monad and the leaf operations that the machine translation of `Frame::{len, into_close,
close, format, format_into_buf}` (`WsModel/Generated/FrameGen.lean`, written by
`translator/frame2lean.py` on every run) is expressed in.  The state is the output buffer the
two encoders append to.  Leaves: the header encoder (hand model + generated tables, tied by the
exhaustive `hformat` family), the masking routine, UTF-8 validation, byte-vector primitives. -/
namespace WsModel.GenFrame
open WsModel WsModel.Gen

abbrev M (α : Type) := Bytes → Bytes × Res α

@[inline] def M.pure (a : α) : M α := fun s => (s, .ok a)

@[inline] def M.bind (x : M α) (k : α → M β) : M β := fun s =>
  match x s with
  | (s, .ok a) => k a s
  | (s, .err e) => (s, .err e)
  | (s, .panic p) => (s, .panic p)

instance : Monad M where
  pure := M.pure
  bind := M.bind

def throwE (e : Err) : M α := fun s => (s, .err e)
def panicAt (p : PanicSite) : M α := fun s => (s, .panic p)
def liftRes (r : Res α) : M α := fun s => (s, r)
def getW : M Bytes := fun s => (s, .ok s)
def modifyW (f : Bytes → Bytes) : M Unit := fun s => (f s, .ok ())

/-- `header.format(length, out)?` (writing to a `Vec` cannot fail) -/
def headerFormatInto (h : Header) (length : Nat) : M Unit := modifyW fun s => s ++ h.format length
/-- `out.extend_from_slice(bytes)` / `out.write_all(bytes)?` -/
def appendOut (bs : Bytes) : M Unit := modifyW fun s => s ++ bs
/-- `apply_mask(&mut out[from..], mask)` -/
def maskOutFrom (start : Nat) (m : Mask) : M Unit := modifyW fun s => s.take start ++ applyMask m (s.drop start)
/-- `Utf8Bytes::try_from(bytes)` -/
def utf8BytesTryFrom (bs : Bytes) : Res Bytes := if isUtf8 bs then .ok bs else .err .utf8

end WsModel.GenFrame
