import WsModel.Handshake.Model

/-! Leaves of the machine translation of `create_parts` (`WsModel/Generated/PartsGen.lean`, written
by `translator/parts2lean.py` on every run): the request as the decision sees it, the response
builder, `derive_accept_key`.  `HeaderMap::get` is `hget`, `to_str` is `toStr`, `split` is
`splitOn`, `eq_ignore_ascii_case` is `eqIgnoreCase` — the definitions of
`WsModel/Handshake/Model.lean`. -/
namespace WsModel.GenParts
open WsModel WsModel.Gen WsModel.Hs

/-- an `http::Request<T>`: method, version (0 = HTTP/1.0, 1 = HTTP/1.1, 2 = HTTP/2 …), headers -/
structure Req where
  method : Bytes
  version : Nat
  headers : List (Bytes × Bytes)
  deriving Repr, Inhabited

/-- `http::Method::GET` -/
def methodGET : Bytes := GET
/-- `http::Version::HTTP_11` -/
def http11 : Nat := 1
/-- `StatusCode::SWITCHING_PROTOCOLS` -/
def switchingProtocols : Nat := 101

/-- `http::response::Builder`: status, version and the headers in the order they were added -/
structure Builder where
  code : Nat := 200
  ver : Nat := 1
  hdrs : List (Bytes × Bytes) := []
  deriving DecidableEq, Repr, Inhabited

def Builder.new : Builder := {}
def Builder.status (b : Builder) (s : Nat) : Builder := { b with code := s }
def Builder.version (b : Builder) (v : Nat) : Builder := { b with ver := v }
def Builder.header (b : Builder) (n v : Bytes) : Builder := { b with hdrs := b.hdrs ++ [(n, v)] }

/-- `option.ok_or(e)?` -/
def okOr {α : Type} (o : Option α) (e : HsErr) : Except HsErr α :=
  match o with
  | some a => pure a
  | none => throw e

/-- `derive_accept_key` -/
def deriveAcceptKey (key : Bytes) : Bytes := base64Encode (sha1 (key ++ wsGuidLit))

end WsModel.GenParts
