import WsModel.Basic

/-! `FrameHeader::{format, parse, len}` (src/protocol/frame/frame.rs). -/
namespace WsModel
open WsModel.Gen

/-- first header byte as `FrameHeader::format` computes it -/
def Header.firstByte (h : Header) : UInt8 :=
  UInt8.ofNat (opCodeToU8 h.opcode)
    ||| (if h.fin then UInt8.ofNat bitFin else 0)
    ||| (if h.rsv1 then UInt8.ofNat bitRsv1 else 0)
    ||| (if h.rsv2 then UInt8.ofNat bitRsv2 else 0)
    ||| (if h.rsv3 then UInt8.ofNat bitRsv3 else 0)

/-- second header byte -/
def Header.secondByte (h : Header) (length : Nat) : UInt8 :=
  UInt8.ofNat (lfLengthByte (lfForLength length))
    ||| (if h.mask.isSome then UInt8.ofNat bitMasked else 0)

/-- extended length bytes -/
def Header.extLen (length : Nat) : Bytes :=
  match lfForLength length with
  | .u8 _ => []
  | .u16 => beBytes 2 length
  | .u64 => beBytes 8 length

def Header.maskBytes (h : Header) : Bytes :=
  match h.mask with
  | some m => m.toBytes
  | none => []

/-- `FrameHeader::format` -/
def Header.format (h : Header) (length : Nat) : Bytes :=
  [h.firstByte, h.secondByte length] ++ Header.extLen length ++ h.maskBytes

/-- `FrameHeader::len` -/
def Header.len (h : Header) (length : Nat) : Nat :=
  headerLen h.mask.isSome length

inductive ParseRes where
  | header (h : Header) (len : Nat) (used : Nat)
  | incomplete
  | error (e : Err)
  | panic (s : PanicSite)
  deriving DecidableEq, Repr, Inhabited

def isReservedOpcode (o : OpCode) : Bool :=
  match o with
  | .control (.reserved _) => true
  | .data (.reserved _) => true
  | _ => false

/-- the tail of `parse_internal` once opcode, length and mask are known -/
def Header.parseFinish (first : UInt8) (opcode : OpCode) (length : Nat) (mask : Option Mask)
    (used : Nat) : ParseRes :=
  if isReservedOpcode opcode then
    .error (.protocol (.invalidOpcode (first &&& UInt8.ofNat opcodeMask).toNat))
  else
    .header
      { fin := (first &&& UInt8.ofNat parseBitFin) != 0
        rsv1 := (first &&& UInt8.ofNat parseBitRsv1) != 0
        rsv2 := (first &&& UInt8.ofNat parseBitRsv2) != 0
        rsv3 := (first &&& UInt8.ofNat parseBitRsv3) != 0
        opcode := opcode
        mask := mask }
      length used

/-- mask part of `parse_internal` -/
def Header.parseMask (first second : UInt8) (opcode : OpCode) (length : Nat) (rest : Bytes)
    (used : Nat) : ParseRes :=
  if (second &&& UInt8.ofNat parseBitMasked) != 0 then
    match rest with
    | a :: b :: c :: d :: _ => Header.parseFinish first opcode length (some ⟨a, b, c, d⟩) (used + 4)
    | _ => .incomplete
  else
    Header.parseFinish first opcode length none used

/-- length part of `parse_internal` -/
def Header.parseLen (first second : UInt8) (opcode : OpCode) (rest : Bytes) : ParseRes :=
  let lengthByte := (second &&& UInt8.ofNat lenMask).toNat
  let ll := lfExtraBytes (lfForByte lengthByte)
  if ll > 0 then
    if ll > 8 then .panic .lengthLength
    else if rest.length < ll then .incomplete
    else Header.parseMask first second opcode (beNat (rest.take ll)) (rest.drop ll) (2 + ll)
  else
    Header.parseMask first second opcode lengthByte rest 2

/-- `FrameHeader::parse` on the unread bytes: a header with its payload length and the number
of bytes consumed; `incomplete` consumes nothing. -/
def Header.parse (bs : Bytes) : ParseRes :=
  match bs with
  | first :: second :: rest =>
    match opCodeOfU8 (first &&& UInt8.ofNat opcodeMask).toNat with
    | none => .panic .opcodeOutOfRange
    | some opcode => Header.parseLen first second opcode rest
  | _ => .incomplete

end WsModel
