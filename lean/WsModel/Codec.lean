import WsModel.Frame
import WsModel.Transport

/-! `FrameCodec` (src/protocol/frame/mod.rs): incremental frame reader, write buffer. -/
namespace WsModel
open WsModel.Gen

def usizeMax : Nat := 2 ^ 64 - 1

structure Codec where
  inBuf : Bytes := []
  outBuf : Bytes := []
  maxOut : Nat := usizeMax
  writeLen : Nat := 0
  header : Option (Header × Nat) := none
  deriving Repr, Inhabited

/-- `if self.header.is_none() { self.header = FrameHeader::parse(..)?; advance }` -/
def Codec.ensureHeader (c : Codec) : Codec × Res Unit :=
  match c.header with
  | some _ => (c, .ok ())
  | none =>
    match Header.parse c.inBuf with
    | .header h len used => ({ c with header := some (h, len), inBuf := c.inBuf.drop used }, .ok ())
    | .incomplete => (c, .ok ())
    | .error e => (c, .err e)
    | .panic s => (c, .panic s)

/-- what the loop body decides once the header step is done -/
inductive Attempt where
  | frame (c : Codec) (payload : Bytes)
  | more (reserve : Nat)
  | tooLong (size max : Nat)
  deriving Repr

/-- limit check and `split_to` when the payload is complete -/
def Codec.trySplit (c : Codec) (maxSize : Nat) : Attempt :=
  match c.header with
  | none => .more 6
  | some (_, len) =>
    if len > maxSize then .tooLong len maxSize
    else if len ≤ c.inBuf.length then .frame { c with inBuf := c.inBuf.drop len } (c.inBuf.take len)
    else .more len

/-- the `loop` of `read_frame`: returns the payload, or `none` when the transport ended.
`fuel` bounds the iterations; each one that continues has consumed a transport read. -/
def Codec.readLoop (maxSize : Nat) : Nat → Codec → Transport → Codec × Transport × Res (Option Bytes)
  | 0, c, t => (c, t, .panic .fuel)
  | fuel + 1, c, t =>
    match c.ensureHeader with
    | (c, .err e) => (c, t, .err e)
    | (c, .panic s) => (c, t, .panic s)
    | (c, .ok ()) =>
      match c.trySplit maxSize with
      | .frame c p => (c, t, .ok (some p))
      | .tooLong size max => (c, t, .err (.capacity size max))
      | .more _ =>
        match t.read with
        | (t, .data bs) =>
          if bs.isEmpty then (c, t, .ok none)
          else Codec.readLoop maxSize fuel { c with inBuf := c.inBuf ++ bs } t
        | (t, .eof) => (c, t, .ok none)
        | (t, .err k) => (c, t, .err (.io k))

/-- after the loop: take the header, unmask -/
def Codec.finishFrame (c : Codec) (payload : Bytes) (unmask acceptUnmasked : Bool) :
    Codec × Res (Option Frame) :=
  match c.header with
  | none => (c, .panic .noFrameHeader)
  | some (h, len) =>
    let c := { c with header := none }
    if payload.length ≠ len then (c, .panic .payloadLenMismatch)
    else if unmask then
      match h.mask with
      | some m => (c, .ok (some { header := { h with mask := none }, payload := applyMask m payload }))
      | none =>
        if acceptUnmasked then (c, .ok (some { header := h, payload := payload }))
        else (c, .err (.protocol .unmaskedFrameFromClient))
    else (c, .ok (some { header := h, payload := payload }))

/-- `FrameCodec::read_frame` -/
def Codec.readFrame (c : Codec) (t : Transport) (maxSize : Option Nat) (unmask acceptUnmasked : Bool) :
    Codec × Transport × Res (Option Frame) :=
  match Codec.readLoop (maxSize.getD usizeMax) (t.rd.length + 1) c t with
  | (c, t, .ok (some p)) =>
    let (c, r) := c.finishFrame p unmask acceptUnmasked
    (c, t, r)
  | (c, t, .ok none) => (c, t, .ok none)
  | (c, t, .err e) => (c, t, .err e)
  | (c, t, .panic s) => (c, t, .panic s)

/-- `FrameCodec::write_out_buffer`; `fuel` = bytes to write (each iteration drains ≥ 1) -/
def Codec.writeLoop : Nat → Codec → Transport → Codec × Transport × Res Unit
  | 0, c, t => if c.outBuf.isEmpty then (c, t, .ok ()) else (c, t, .panic .fuel)
  | fuel + 1, c, t =>
    if c.outBuf.isEmpty then (c, t, .ok ())
    else
      match t.write c.outBuf with
      | (t, .err k) => (c, t, .err (.io k))
      | (t, .ok n) =>
        if n = 0 then (c, t, .err (.io .reset))
        else Codec.writeLoop fuel { c with outBuf := c.outBuf.drop n } t

def Codec.writeOutBuffer (c : Codec) (t : Transport) : Codec × Transport × Res Unit :=
  Codec.writeLoop c.outBuf.length c t

/-- `FrameCodec::buffer_frame` -/
def Codec.bufferFrame (c : Codec) (t : Transport) (f : Frame) : Codec × Transport × Res Unit :=
  if f.len + c.outBuf.length > c.maxOut then (c, t, .err (.writeBufferFull f))
  else
    let c := { c with outBuf := f.formatIntoBuf c.outBuf }
    if c.outBuf.length > c.writeLen then c.writeOutBuffer t else (c, t, .ok ())

end WsModel
