import WsModel.Collect

/-! The monad and the leaf operations that the machine translation of `StringCollector`
(`WsModel/Generated/CollGen.lean`, written by `translator/coll2lean.py` on every run) is expressed
in.  The state is the collector.  Leaves: the two entry points of the `utf8` crate
(`utf8::decode`, `Incomplete::try_complete`), whose results are presented in the shape the Rust
code matches on, and `String::push_str`. -/
namespace WsModel.GenColl
open WsModel WsModel.Gen

/-- a `Result<α, ε>` that may also be a panic -/
inductive GR (ε α : Type) where
  | ok (a : α)
  | err (e : ε)
  | panic (p : PanicSite)
  deriving Repr, Inhabited

abbrev M (α : Type) := Collector → Collector × GR Err α

@[inline] def M.pure (a : α) : M α := fun s => (s, .ok a)

@[inline] def M.bind (x : M α) (k : α → M β) : M β := fun s =>
  match x s with
  | (s, .ok a) => k a s
  | (s, .err e) => (s, .err e)
  | (s, .panic p) => (s, .panic p)

instance : Monad M where
  pure := M.pure
  bind := M.bind

def throwE (e : Err) : M α := fun s => (s, .err e)
def panicAt (p : PanicSite) : M α := fun s => (s, .panic p)
def liftRes (r : GR Err α) : M α := fun s => (s, r)
def getW : M Collector := fun s => (s, .ok s)
def modifyW (f : Collector → Collector) : M Unit := fun s => (f s, .ok ())

/-- `self.incomplete.take()` -/
def takeIncomplete : M (Option Bytes) := fun s => ({ s with incomplete := none }, .ok s.incomplete)
/-- `self.incomplete = v` -/
def setIncompleteM (i : Option Bytes) : M Unit := modifyW fun s => { s with incomplete := i }
/-- `self.data.push_str(text)` -/
def pushStr (text : Bytes) : M Unit := modifyW fun s => { s with data := s.data ++ text }

/-- `utf8::DecodeError` -/
inductive GDecodeErr where
  | incomplete (validPrefix incompleteSuffix : Bytes)
  | invalid (validPrefix invalidSequence : Bytes)
  deriving Repr, Inhabited

/-- `utf8::decode(input)` in the shape the code matches on -/
def utf8DecodeG (input : Bytes) : GR GDecodeErr Bytes :=
  match utf8Decode input with
  | .ok => .ok input
  | .incomplete v suffix => .err (.incomplete (input.take v) suffix)
  | .invalid v k => .err (.invalid (input.take v) ((input.drop v).take k))

/-- `incomplete.try_complete(input)`: the buffer afterwards and `Some((result, rest))` / `None` -/
def tryCompleteG (buf input : Bytes) : M (Bytes × Option (GR Err Bytes × Bytes)) := fun s =>
  match utf8TryComplete buf input with
  | .still buf' => (s, .ok (buf', none))
  | .done true bytes consumed => (s, .ok (buf, some (.ok bytes, input.drop consumed)))
  | .done false _ consumed => (s, .ok (buf, some (.err .utf8, input.drop consumed)))
  | .panic => (s, .panic .utf8CheckedSub)

end WsModel.GenColl
