import WsModel.Header
import WsModel.Mask
import WsModel.Utf8

/-! `Frame` (src/protocol/frame/frame.rs): sizes, the two encoders, constructors, close payloads. -/
namespace WsModel
open WsModel.Gen

/-- `Frame::len` -/
def Frame.len (f : Frame) : Nat :=
  f.header.len f.payload.length + f.payload.length

/-- `Frame::format`: header, then a masked *copy* of the payload -/
def Frame.format (f : Frame) : Bytes :=
  f.header.format f.payload.length ++
    (match f.header.mask with
     | some m => applyMask m f.payload
     | none => f.payload)

/-- `Frame::format_into_buf`: header and payload are appended to the shared buffer and the mask
is applied in place to `buf[len..]` -/
def Frame.formatIntoBuf (f : Frame) (buf : Bytes) : Bytes :=
  let buf1 := buf ++ f.header.format f.payload.length
  let len := buf1.length
  let buf2 := buf1 ++ f.payload
  match f.header.mask with
  | some m => buf2.take len ++ applyMask m (buf2.drop len)
  | none => buf2

/-- `FrameHeader::default()` -/
def Header.default : Header :=
  { fin := true, rsv1 := false, rsv2 := false, rsv3 := false,
    opcode := .control .close, mask := none }

/-- `Frame::message(data, opcode, is_final)` -/
def Frame.message (data : Bytes) (opcode : OpCode) (fin : Bool) : Frame :=
  { header := { Header.default with fin := fin, opcode := opcode }, payload := data }

def Frame.pong (data : Bytes) : Frame :=
  { header := { Header.default with opcode := .control .pong }, payload := data }

def Frame.ping (data : Bytes) : Frame :=
  { header := { Header.default with opcode := .control .ping }, payload := data }

/-- `Frame::close` -/
def Frame.close (msg : Option CloseFrame) : Frame :=
  { header := Header.default
    payload := match msg with
      | some cf => beBytes 2 (closeCodeToU16 cf.code) ++ cf.reason
      | none => [] }

/-- `Frame::into_close` -/
def Frame.intoClose (f : Frame) : Res (Option CloseFrame) :=
  match f.payload with
  | [] => .ok none
  | [_] => .err (.protocol .invalidCloseSequence)
  | a :: b :: reason =>
    if isUtf8 reason then .ok (some { code := closeCodeOfU16 (beNat [a, b]), reason := reason })
    else .err .utf8

/-- `Frame::into_text` -/
def Frame.intoText (f : Frame) : Res Bytes :=
  if isUtf8 f.payload then .ok f.payload else .err .utf8

def Frame.isPong (f : Frame) : Bool := f.header.opcode == .control .pong
def Frame.isClose (f : Frame) : Bool := f.header.opcode == .control .close

end WsModel
