import WsModel.Utf8

/-! `StringCollector` and `IncompleteMessage` (src/protocol/message.rs). -/
namespace WsModel

structure Collector where
  data : Bytes := []
  /-- `utf8::Incomplete`: the bytes of an unfinished code point -/
  incomplete : Option Bytes := none
  deriving DecidableEq, Repr, Inhabited

/-- `StringCollector::len` -/
def Collector.len (s : Collector) : Nat :=
  s.data.length + (match s.incomplete with | some b => b.length | none => 0)

/-- second half of `StringCollector::extend`: decode what is left of the input -/
def Collector.decodeRest (s : Collector) (input : Bytes) : Collector × Res Unit :=
  if input.isEmpty then (s, .ok ())
  else
    match utf8Decode input with
    | .ok => ({ s with data := s.data ++ input }, .ok ())
    | .incomplete v suffix => ({ s with data := s.data ++ input.take v, incomplete := some suffix }, .ok ())
    | .invalid v _ => ({ s with data := s.data ++ input.take v }, .err .utf8)

/-- `StringCollector::extend` -/
def Collector.extend (s : Collector) (tail : Bytes) : Collector × Res Unit :=
  match s.incomplete with
  | none => s.decodeRest tail
  | some buf =>
    match utf8TryComplete buf tail with
    | .still buf' => ({ s with incomplete := some buf' }, .ok ())
    | .done true bytes consumed =>
      Collector.decodeRest { s with data := s.data ++ bytes, incomplete := none } (tail.drop consumed)
    | .done false _ _ => ({ s with incomplete := none }, .err .utf8)
    | .panic => ({ s with incomplete := none }, .panic .utf8CheckedSub)

/-- `StringCollector::into_string` -/
def Collector.intoString (s : Collector) : Res Bytes :=
  match s.incomplete with
  | some _ => .err .utf8
  | none => .ok s.data

inductive Incomplete where
  | text (s : Collector)
  | binary (v : Bytes)
  deriving DecidableEq, Repr, Inhabited

def Incomplete.len : Incomplete → Nat
  | .text s => s.len
  | .binary v => v.length

/-- `IncompleteMessage::extend` -/
def Incomplete.extend (m : Incomplete) (tail : Bytes) (sizeLimit : Option Nat) : Incomplete × Res Unit :=
  let maxSize := sizeLimit.getD (2 ^ 64 - 1)
  let mySize := m.len
  let portion := tail.length
  if mySize > maxSize ∨ portion > maxSize - mySize then
    (m, .err (.capacity (mySize + portion) maxSize))
  else
    match m with
    | .binary v => (.binary (v ++ tail), .ok ())
    | .text s =>
      let (s', r) := s.extend tail
      (.text s', r)

/-- `IncompleteMessage::complete` -/
def Incomplete.complete : Incomplete → Res Message
  | .binary v => .ok (.binary v)
  | .text s => (s.intoString).map Message.text

end WsModel
