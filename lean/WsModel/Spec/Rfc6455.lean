import WsModel.Basic
import WsModel.Spec.Utf8Table

/-! A one-shot RFC 6455 decoder for a complete inbound byte stream, written from the RFC as a
specification (arithmetic on byte values, recursion over whole frames). It shares no code with the
incremental reader of the model (`Codec.readFrame`, `World.read`). -/
namespace WsModel.Spec
open WsModel WsModel.Gen

structure Limits where
  maxFrame : Option Nat
  maxMsg : Option Nat
  deriving Repr, Inhabited

inductive ErrClass where
  | protocol | capacity | utf8
  deriving DecidableEq, Repr, Inhabited

/-- how decoding of the stream ends -/
inductive End where
  | needMore              -- the stream stops inside a frame (or between frames): the reader blocks
  | error (c : ErrClass)  -- the first violation
  | closed                -- a Close frame was delivered; nothing is delivered after it
  deriving DecidableEq, Repr, Inhabited

/-- RFC 6455 section 5.2, the fixed part and the lengths -/
structure RawHeader where
  fin : Bool
  rsv : Nat          -- the three reserved bits as a number 0..7
  opcode : Nat       -- 0..15
  mask : Option Mask
  len : Nat          -- payload length
  size : Nat         -- bytes the header occupies
  deriving Repr, Inhabited

def be16 (a b : UInt8) : Nat := a.toNat * 256 + b.toNat

def be64 (bs : Bytes) : Nat := bs.foldl (fun acc b => acc * 256 + b.toNat) 0

/-- the mask key, if the MASK bit is set; `none` = not enough bytes -/
def rawMask (masked : Bool) (rest : Bytes) : Option (Option Mask × Nat) :=
  if masked then
    match rest with
    | a :: b :: c :: d :: _ => some (some ⟨a, b, c, d⟩, 4)
    | _ => none
  else some (none, 0)

/-- `none` = the header is not complete yet -/
def rawHeader (bs : Bytes) : Option RawHeader :=
  match bs with
  | b0 :: b1 :: rest =>
    let fin := b0.toNat ≥ 128
    let rsv := b0.toNat / 16 % 8
    let opcode := b0.toNat % 16
    let masked := b1.toNat ≥ 128
    let l7 := b1.toNat % 128
    if l7 < 126 then
      (rawMask masked rest).map fun (m, k) => ⟨fin, rsv, opcode, m, l7, 2 + k⟩
    else if l7 = 126 then
      match rest with
      | x :: y :: rest2 => (rawMask masked rest2).map fun (m, k) => ⟨fin, rsv, opcode, m, be16 x y, 4 + k⟩
      | _ => none
    else
      if rest.length < 8 then none
      else (rawMask masked (rest.drop 8)).map fun (m, k) => ⟨fin, rsv, opcode, m, be64 (rest.take 8), 10 + k⟩
  | _ => none

def unmaskPayload (m : Option Mask) (p : Bytes) : Bytes :=
  match m with
  | none => p
  | some k => (List.range p.length).zipWith (fun i b => b ^^^ k.get i) p

def isDefinedOpcode (o : Nat) : Bool := o = 0 || o = 1 || o = 2 || o = 8 || o = 9 || o = 10

def overLimit (n : Nat) (lim : Option Nat) : Bool :=
  match lim with
  | some m => n > m
  | none => false

/-- is `tail` a proper, non-empty prefix of one well-formed sequence of Table 3-7? -/
def properPrefixB (tail : Bytes) : Bool :=
  match tail with
  | [a] => 0xC2 ≤ a && a ≤ 0xF4
  | [a, b] =>
    (a = 0xE0 && 0xA0 ≤ b && b ≤ 0xBF) || (0xE1 ≤ a && a ≤ 0xEC && contB b)
    || (a = 0xED && 0x80 ≤ b && b ≤ 0x9F) || (0xEE ≤ a && a ≤ 0xEF && contB b)
    || (a = 0xF0 && 0x90 ≤ b && b ≤ 0xBF) || (0xF1 ≤ a && a ≤ 0xF3 && contB b)
    || (a = 0xF4 && 0x80 ≤ b && b ≤ 0x8F)
  | [a, b, c] =>
    ((a = 0xF0 && 0x90 ≤ b && b ≤ 0xBF) || (0xF1 ≤ a && a ≤ 0xF3 && contB b)
      || (a = 0xF4 && 0x80 ≤ b && b ≤ 0x8F)) && contB c
  | _ => false

/-- can `bs` still be extended to well-formed UTF-8? -/
def viablePrefixB (bs : Bytes) : Bool :=
  wellFormedB bs
  || (1 ≤ bs.length && wellFormedB (bs.take (bs.length - 1)) && properPrefixB (bs.drop (bs.length - 1)))
  || (2 ≤ bs.length && wellFormedB (bs.take (bs.length - 2)) && properPrefixB (bs.drop (bs.length - 2)))
  || (3 ≤ bs.length && wellFormedB (bs.take (bs.length - 3)) && properPrefixB (bs.drop (bs.length - 3)))

/-- the codes that may appear in a Close frame on the wire (RFC 6455 section 7.4) -/
def wireCloseCode (c : Nat) : Bool :=
  (1000 ≤ c && c ≤ 1003) || (1007 ≤ c && c ≤ 1013) || (3000 ≤ c && c ≤ 4999)

/-- an unfinished fragmented message: kind and the bytes so far -/
structure Partial where
  isText : Bool
  acc : Bytes
  deriving Repr, Inhabited

/-- what a complete, individually valid frame means at message level -/
inductive FrameOut where
  | deliver (m : Message) (frag : Option Partial)
  | continue_ (frag : Option Partial)
  | close (m : Message)
  | fail (c : ErrClass)

def closeMessage (payload : Bytes) : FrameOut :=
  match payload with
  | [] => .close (.close none)
  | [_] => .fail .protocol
  | a :: b :: reason =>
    if !wellFormedB reason then .fail .utf8
    else
      let code := be16 a b
      if wireCloseCode code then .close (.close (some ⟨closeCodeOfU16 code, reason⟩))
      else .close (.close (some ⟨.protocol, protocolViolationReason⟩))

/-- message-level rules for one frame (sections 5.4, 5.5, 5.6, 8.1) -/
def frameMeaning (lim : Limits) (frag : Option Partial) (fin : Bool) (opcode : Nat) (p : Bytes) : FrameOut :=
  if opcode ≥ 8 then
    -- control frames: never fragmented, at most 125 bytes, may sit inside a fragmented message
    if !fin then .fail .protocol
    else if p.length > 125 then .fail .protocol
    else if opcode = 8 then closeMessage p
    else if opcode = 9 then .deliver (.ping p) frag
    else .deliver (.pong p) frag
  else if opcode = 0 then
    match frag with
    | none => .fail .protocol
    | some f =>
      if overLimit (f.acc.length + p.length) lim.maxMsg then .fail .capacity
      else
        let acc := f.acc ++ p
        if f.isText then
          if fin then (if wellFormedB acc then .deliver (.text acc) none else .fail .utf8)
          else (if viablePrefixB acc then .continue_ (some ⟨true, acc⟩) else .fail .utf8)
        else
          if fin then .deliver (.binary acc) none else .continue_ (some ⟨false, acc⟩)
  else
    match frag with
    | some _ => .fail .protocol
    | none =>
      if overLimit p.length lim.maxMsg then .fail .capacity
      else if opcode = 1 then
        if fin then (if wellFormedB p then .deliver (.text p) none else .fail .utf8)
        else (if viablePrefixB p then .continue_ (some ⟨true, p⟩) else .fail .utf8)
      else
        if fin then .deliver (.binary p) none else .continue_ (some ⟨false, p⟩)

/-- decode frame after frame; `fuel` bounds the number of frames (each takes ≥ 2 bytes) -/
def decodeFrom (role : Role) (acceptUnmasked : Bool) (lim : Limits) :
    Nat → Option Partial → Bytes → List Message × End
  | 0, _, _ => ([], .needMore)
  | fuel + 1, frag, bs =>
    match rawHeader bs with
    | none => ([], .needMore)
    | some h =>
      if !isDefinedOpcode h.opcode then ([], .error .protocol)
      else if overLimit h.len lim.maxFrame then ([], .error .capacity)
      else if bs.length < h.size + h.len then ([], .needMore)
      else
        let raw := (bs.drop h.size).take h.len
        let rest := (bs.drop h.size).drop h.len
        -- masking rule (section 5.1): client-to-server frames are masked, server-to-client are not
        if role = .server ∧ h.mask.isNone ∧ !acceptUnmasked then ([], .error .protocol)
        else if h.rsv ≠ 0 then ([], .error .protocol)
        else if role = .client ∧ h.mask.isSome then ([], .error .protocol)
        else
          let p := if role = .server then unmaskPayload h.mask raw else raw
          match frameMeaning lim frag h.fin h.opcode p with
          | .fail c => ([], .error c)
          | .close m => ([m], .closed)
          | .deliver m frag' =>
            let (ms, e) := decodeFrom role acceptUnmasked lim fuel frag' rest
            (m :: ms, e)
          | .continue_ frag' => decodeFrom role acceptUnmasked lim fuel frag' rest

/-- the messages an endpoint of the given role that only reads must deliver for the inbound
stream `bs`, and how the stream ends -/
def decode (role : Role) (acceptUnmasked : Bool) (lim : Limits) (bs : Bytes) : List Message × End :=
  decodeFrom role acceptUnmasked lim (bs.length + 1) none bs

end WsModel.Spec
