import WsModel.Basic

/-! Well-formed UTF-8 as defined by the Unicode Standard, Table 3-7, written independently of
the validation code, with the link to Unicode scalar values (RFC 3629). -/
namespace WsModel.Spec

/-- continuation byte 80..BF -/
def cont (b : UInt8) : Prop := 0x80 ≤ b ∧ b ≤ 0xBF

instance (b : UInt8) : Decidable (cont b) := by unfold cont; exact inferInstance

/-- Table 3-7 of the Unicode Standard: the well-formed UTF-8 byte sequences -/
inductive WellFormed : Bytes → Prop where
  | nil : WellFormed []
  | ascii (b : UInt8) (rest : Bytes) : b ≤ 0x7F → WellFormed rest → WellFormed (b :: rest)
  | two (b1 b2 : UInt8) (rest : Bytes) :
      0xC2 ≤ b1 → b1 ≤ 0xDF → cont b2 → WellFormed rest → WellFormed (b1 :: b2 :: rest)
  | threeE0 (b2 b3 : UInt8) (rest : Bytes) :
      0xA0 ≤ b2 → b2 ≤ 0xBF → cont b3 → WellFormed rest → WellFormed (0xE0 :: b2 :: b3 :: rest)
  | threeE1EC (b1 b2 b3 : UInt8) (rest : Bytes) :
      0xE1 ≤ b1 → b1 ≤ 0xEC → cont b2 → cont b3 → WellFormed rest → WellFormed (b1 :: b2 :: b3 :: rest)
  | threeED (b2 b3 : UInt8) (rest : Bytes) :
      0x80 ≤ b2 → b2 ≤ 0x9F → cont b3 → WellFormed rest → WellFormed (0xED :: b2 :: b3 :: rest)
  | threeEEEF (b1 b2 b3 : UInt8) (rest : Bytes) :
      0xEE ≤ b1 → b1 ≤ 0xEF → cont b2 → cont b3 → WellFormed rest → WellFormed (b1 :: b2 :: b3 :: rest)
  | fourF0 (b2 b3 b4 : UInt8) (rest : Bytes) :
      0x90 ≤ b2 → b2 ≤ 0xBF → cont b3 → cont b4 → WellFormed rest →
      WellFormed (0xF0 :: b2 :: b3 :: b4 :: rest)
  | fourF1F3 (b1 b2 b3 b4 : UInt8) (rest : Bytes) :
      0xF1 ≤ b1 → b1 ≤ 0xF3 → cont b2 → cont b3 → cont b4 → WellFormed rest →
      WellFormed (b1 :: b2 :: b3 :: b4 :: rest)
  | fourF4 (b2 b3 b4 : UInt8) (rest : Bytes) :
      0x80 ≤ b2 → b2 ≤ 0x8F → cont b3 → cont b4 → WellFormed rest →
      WellFormed (0xF4 :: b2 :: b3 :: b4 :: rest)

/-- a Unicode scalar value: a code point that is not a surrogate -/
def IsScalar (c : Nat) : Prop := c < 0xD800 ∨ (0xE000 ≤ c ∧ c < 0x110000)

/-- the UTF-8 encoding of a scalar value (RFC 3629 section 3) -/
def encodeScalar (c : Nat) : Bytes :=
  if c < 0x80 then [UInt8.ofNat c]
  else if c < 0x800 then [UInt8.ofNat (0xC0 + c / 64), UInt8.ofNat (0x80 + c % 64)]
  else if c < 0x10000 then
    [UInt8.ofNat (0xE0 + c / 4096), UInt8.ofNat (0x80 + c / 64 % 64), UInt8.ofNat (0x80 + c % 64)]
  else
    [UInt8.ofNat (0xF0 + c / 262144), UInt8.ofNat (0x80 + c / 4096 % 64),
     UInt8.ofNat (0x80 + c / 64 % 64), UInt8.ofNat (0x80 + c % 64)]

/-- the encoding of a string of scalar values -/
def encodeScalars : List Nat → Bytes
  | [] => []
  | c :: cs => encodeScalar c ++ encodeScalars cs

/-- executable version of `WellFormed`, written as a direct transcription of the table
(used by the monitors on implementation traces) -/
def contB (b : UInt8) : Bool := 0x80 ≤ b && b ≤ 0xBF

def wellFormedFuel : Nat → Bytes → Bool
  | _, [] => true
  | 0, _ :: _ => false
  | fuel + 1, b1 :: rest =>
    if b1 ≤ 0x7F then wellFormedFuel fuel rest
    else if 0xC2 ≤ b1 ∧ b1 ≤ 0xDF then
      match rest with
      | b2 :: r => contB b2 && wellFormedFuel fuel r
      | _ => false
    else if 0xE0 ≤ b1 ∧ b1 ≤ 0xEF then
      match rest with
      | b2 :: b3 :: r =>
        (if b1 = 0xE0 then 0xA0 ≤ b2 && b2 ≤ 0xBF
         else if b1 = 0xED then 0x80 ≤ b2 && b2 ≤ 0x9F
         else contB b2) && contB b3 && wellFormedFuel fuel r
      | _ => false
    else if 0xF0 ≤ b1 ∧ b1 ≤ 0xF4 then
      match rest with
      | b2 :: b3 :: b4 :: r =>
        (if b1 = 0xF0 then 0x90 ≤ b2 && b2 ≤ 0xBF
         else if b1 = 0xF4 then 0x80 ≤ b2 && b2 ≤ 0x8F
         else contB b2) && contB b3 && contB b4 && wellFormedFuel fuel r
      | _ => false
    else false

def wellFormedB (bs : Bytes) : Bool := wellFormedFuel bs.length bs

end WsModel.Spec
