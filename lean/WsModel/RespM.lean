import WsModel.Handshake.Model

/-! The monad and the leaves that the machine translation of `write_response`
(`WsModel/Generated/RespGen.lean`, written by `translator/resp2lean.py` on every run) is expressed
in.  The state is the output written so far (`w`).  Leaves: `writeln!` (the formatted text followed
by a line feed; writing into the handshake's `Vec` cannot fail) and `HeaderValue::to_str`. -/
namespace WsModel.GenResp
open WsModel WsModel.Gen

abbrev M (α : Type) := Bytes → Bytes × Res α

@[inline] def M.pure (a : α) : M α := fun s => (s, .ok a)

@[inline] def M.bind (x : M α) (k : α → M β) : M β := fun s =>
  match x s with
  | (s, .ok a) => k a s
  | (s, .err e) => (s, .err e)
  | (s, .panic p) => (s, .panic p)

instance : Monad M where
  pure := M.pure
  bind := M.bind

def liftRes (r : Res α) : M α := fun s => (s, r)

/-- `writeln!(w, ..)`: the text, then `\n` -/
def writeLn (text : Bytes) : M Unit := fun out => (out ++ text ++ [10], .ok ())

/-- `v.to_str()?`: visible ASCII only, otherwise the conversion error (reported as `Error::Utf8`) -/
def toStrR (v : Bytes) : Res Bytes :=
  match Hs.toStr v with
  | some s => .ok s
  | none => .err .utf8

end WsModel.GenResp
