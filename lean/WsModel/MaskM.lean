import WsModel.Mask

/-! The leaf operations that the machine translation of `apply_mask`, `apply_mask_fallback`,
`apply_mask_fast32` (`WsModel/Generated/MaskGen.lean`, written by `translator/mask2lean.py` on
every run) is expressed in.  A `&mut [u8]` is a byte list passed in and returned.  Leaves: the
answer of `align_to_mut::<u32>()` (ANY split into unaligned prefix, whole words, suffix — a
parameter), native-endian conversion on a little-endian target, the two `iter_mut` loops. -/
namespace WsModel.GenMask
open WsModel

/-- what `align_to_mut::<u32>()` answered: the length of the prefix and the number of words -/
structure Split where
  pre : Nat
  words : Nat
  deriving DecidableEq, Repr, Inhabited

/-- the bytes of `n` whole words, little-endian, as `u32`s -/
def wordsOf : Nat → Bytes → List (BitVec 32)
  | n + 1, a :: b :: c :: d :: rest => bytesToWord a b c d :: wordsOf n rest
  | _, _ => []

/-- `buf.align_to_mut::<u32>()` for the given split -/
def alignToMut (sp : Split) (buf : Bytes) : Bytes × List (BitVec 32) × Bytes :=
  (buf.take sp.pre, wordsOf sp.words ((buf.drop sp.pre).take (4 * sp.words)),
   (buf.drop sp.pre).drop (4 * sp.words))

/-- the buffer that the three disjoint views cover, afterwards -/
def joinAligned (p : Bytes) (ws : List (BitVec 32)) (s : Bytes) : Bytes :=
  p ++ ws.flatMap wordToBytes ++ s

/-- `[u8; 4]` → key -/
def keyOfBytes (b : Bytes) : Mask := ⟨b[0]!, b[1]!, b[2]!, b[3]!⟩
/-- `u32::from_ne_bytes` (little-endian target) -/
def u32FromNeBytes (b : Bytes) : BitVec 32 := (keyOfBytes b).toWord
/-- `u32::to_ne_bytes` (little-endian target) -/
def u32ToNeBytes (w : BitVec 32) : Bytes := (wordToMask w).toBytes
/-- `cfg!(target_endian = "big")` -/
def targetEndianBig : Bool := false

/-- `for (i, x) in s.iter_mut().enumerate() { *x = f(i, *x) }` -/
def forEnum (s : Bytes) (f : Nat → UInt8 → UInt8) : Bytes := s.mapIdx f
/-- `for x in s.iter_mut() { *x = f(*x) }` -/
def forEach {α : Type} (s : List α) (f : α → α) : List α := s.map f

end WsModel.GenMask
