import WsModel.Handshake.Sha1
import WsModel.Handshake.Base64

/-!
# `Sec-WebSocket-Accept` (RFC 6455 §1.3, §4.2.2)

`derive_accept_key` of tungstenite:
`base64 (sha1 (key ++ "258EAFA5-E914-47DA-95CA-C5AB0DC85B11"))`,
where `key` is the value of the `Sec-WebSocket-Key` header taken as raw bytes (it is *not*
Base64-decoded first).
-/
namespace WsModel.Hs

/-- The ASCII bytes of the GUID `"258EAFA5-E914-47DA-95CA-C5AB0DC85B11"` (36 bytes), written
out numerically so that the definition reduces in the kernel.  `Tests.lean` checks it against
the string literal. -/
def wsGuid : Bytes :=
  [ 50, 53, 56, 69, 65, 70, 65, 53,                 -- 258EAFA5
    45,                                             -- -
    69, 57, 49, 52,                                 -- E914
    45,                                             -- -
    52, 55, 68, 65,                                 -- 47DA
    45,                                             -- -
    57, 53, 67, 65,                                 -- 95CA
    45,                                             -- -
    67, 53, 65, 66, 48, 68, 67, 56, 53, 66, 49, 49 ] -- C5AB0DC85B11

/-- The `Sec-WebSocket-Accept` value (ASCII bytes, always 28 of them) for a given
`Sec-WebSocket-Key` value. -/
def acceptKey (key : Bytes) : Bytes :=
  base64Encode (sha1 (key ++ wsGuid))

end WsModel.Hs
