import WsModel.Basic

/-!
# Base64 with padding (RFC 4648 §4)

The standard alphabet `A–Z a–z 0–9 + /` with `=` padding.  Input and output are ASCII byte
strings (`Bytes`), never `String`s, so that everything reduces in the kernel.

A 24-bit group is handled as the natural number `a·2^16 + b·2^8 + c`; the four 6-bit digits
are its base-64 digits.  (Division and remainder by powers of two instead of shifts and masks:
same function, and linear arithmetic can reason about it.)

## Decoder strictness

`base64Decode` models `data_encoding::BASE64.decode` (data-encoding 2.x):

* the length must be a multiple of 4;
* every character must be in the alphabet, except for one or two trailing `=` of a 4-character
  block;
* a block with padding must have zero trailing bits (canonical encodings only:
  `"Zg=="` decodes, `"Zh=="` does not);
* `"x==="` and `"===="` are rejected.

Like `data_encoding`, padding is checked *per 4-character block*: a padded block may be
followed by further blocks (`"Zg==Zg=="` decodes to `"ff"`, the concatenation of two padded
encodings).  This was checked against the crate; see `decode_pad_mut` in its `lib.rs`.
-/
namespace WsModel.Hs

/-- ASCII `=` -/
def b64Pad : UInt8 := 61

/-- The Base64 alphabet (RFC 4648 Table 1): the character for the 6-bit value `i < 64`. -/
def b64Char (i : Nat) : UInt8 :=
  if i < 26 then UInt8.ofNat (65 + i)              -- 'A' … 'Z'
  else if i < 52 then UInt8.ofNat (97 + (i - 26))  -- 'a' … 'z'
  else if i < 62 then UInt8.ofNat (48 + (i - 52))  -- '0' … '9'
  else if i = 62 then 43                           -- '+'
  else 47                                          -- '/'

/-- Inverse of the alphabet: the 6-bit value of a character, `none` outside the alphabet
(in particular for `=`). -/
def b64Index (c : UInt8) : Option Nat :=
  let n := c.toNat
  if 65 ≤ n ∧ n ≤ 90 then some (n - 65)
  else if 97 ≤ n ∧ n ≤ 122 then some (n - 97 + 26)
  else if 48 ≤ n ∧ n ≤ 57 then some (n - 48 + 52)
  else if n = 43 then some 62
  else if n = 47 then some 63
  else none

/-! ## Encoding -/

/-- A full group: three bytes, 24 bits, four characters. -/
def encode3 (a b c : UInt8) : Bytes :=
  let n := a.toNat * 65536 + b.toNat * 256 + c.toNat
  [b64Char (n / 262144), b64Char (n / 4096 % 64), b64Char (n / 64 % 64), b64Char (n % 64)]

/-- Final group of two bytes: 16 bits, padded with two zero bits to 18, three characters and
one `=`. -/
def encode2 (a b : UInt8) : Bytes :=
  let n := (a.toNat * 256 + b.toNat) * 4
  [b64Char (n / 4096), b64Char (n / 64 % 64), b64Char (n % 64), b64Pad]

/-- Final group of one byte: 8 bits, padded with four zero bits to 12, two characters and
`==`. -/
def encode1 (a : UInt8) : Bytes :=
  let n := a.toNat * 16
  [b64Char (n / 64), b64Char (n % 64), b64Pad, b64Pad]

/-- `BASE64.encode`: the ASCII bytes of the padded Base64 encoding. -/
def base64Encode : Bytes → Bytes
  | [] => []
  | [a] => encode1 a
  | [a, b] => encode2 a b
  | a :: b :: c :: rest => encode3 a b c ++ base64Encode rest

/-! ## Decoding -/

/-- Four alphabet characters: three bytes. -/
def decode4 (c0 c1 c2 c3 : UInt8) : Option Bytes :=
  match b64Index c0, b64Index c1, b64Index c2, b64Index c3 with
  | some i0, some i1, some i2, some i3 =>
    let n := ((i0 * 64 + i1) * 64 + i2) * 64 + i3
    some [UInt8.ofNat (n / 65536), UInt8.ofNat (n / 256 % 256), UInt8.ofNat (n % 256)]
  | _, _, _, _ => none

/-- Three alphabet characters (followed by `=`): 18 bits, two bytes, and the two trailing bits
must be zero. -/
def decode3 (c0 c1 c2 : UInt8) : Option Bytes :=
  match b64Index c0, b64Index c1, b64Index c2 with
  | some i0, some i1, some i2 =>
    let n := (i0 * 64 + i1) * 64 + i2
    if n % 4 = 0 then some [UInt8.ofNat (n / 1024), UInt8.ofNat (n / 4 % 256)] else none
  | _, _, _ => none

/-- Two alphabet characters (followed by `==`): 12 bits, one byte, and the four trailing bits
must be zero. -/
def decode2 (c0 c1 : UInt8) : Option Bytes :=
  match b64Index c0, b64Index c1 with
  | some i0, some i1 =>
    let n := i0 * 64 + i1
    if n % 16 = 0 then some [UInt8.ofNat (n / 16)] else none
  | _, _ => none

/-- One 4-character block, with zero, one or two trailing `=`.  (`c0 c1 = =` with `c1` itself
`=` falls into `decode2`, which rejects it because `=` is not in the alphabet.) -/
def decodeBlock (c0 c1 c2 c3 : UInt8) : Option Bytes :=
  if c3 = b64Pad then
    if c2 = b64Pad then decode2 c0 c1 else decode3 c0 c1 c2
  else decode4 c0 c1 c2 c3

/-- `BASE64.decode`: `none` on any error (length, symbol, padding, trailing bits). -/
def base64Decode : Bytes → Option Bytes
  | [] => some []
  | c0 :: c1 :: c2 :: c3 :: rest =>
    match decodeBlock c0 c1 c2 c3, base64Decode rest with
    | some g, some r => some (g ++ r)
    | _, _ => none
  | _ => none

end WsModel.Hs
