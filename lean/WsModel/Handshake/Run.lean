import WsModel.Handshake.Model

/-! Driving a handshake to completion across interruptions, and the one-shot specifications the
resumability theorems compare it with. -/
namespace WsModel.Hs
open WsModel WsModel.Gen

/-- keep resuming an interrupted server handshake (`MidHandshake::handshake` again) until it
finishes; every interruption consumed a WouldBlock event, so `n` = number of resumptions allowed -/
def serverRun (parse : Bytes → HeadParse) : Nat → ServerMid → Transport → Transport × ServerMid × Outcome Unit
  | 0, m, t => (t, m, .interrupted)
  | n + 1, m, t =>
    match serverLoop parse (hsFuel m.state t) m t with
    | (t', m', .interrupted) => serverRun parse n m' t'
    | r => r

def clientRun (parse : Bytes → HeadParse) : Nat → ClientMid → Transport → Transport × ClientMid × Outcome Bytes
  | 0, m, t => (t, m, .interrupted)
  | n + 1, m, t =>
    match clientLoop parse (hsFuel m.state t) m t with
    | (t', m', .interrupted) => clientRun parse n m' t'
    | r => r

/-- `httparse` behaves like a parser of a prefix-closed grammar on the head `S`: every proper prefix
is incomplete, `S` itself is complete and consumed entirely -/
def HeadOf (parse : Bytes → HeadParse) (S : Bytes) (h : RawHead) : Prop :=
  parse S = .complete S.length h ∧ ∀ k, k < S.length → parse (S.take k) = .incomplete

/-- inbound events that only cut the stream (chunks of 1..=4096 bytes — the read buffer) or block -/
def rdBenign : RdEv → Bool
  | .data bs => 1 ≤ bs.length && bs.length ≤ readBufferChunkSize
  | .err .wouldBlock => true
  | _ => false

/-- outbound events that only delay: accept at least one byte, or block -/
def wrBenign : WrEv → Bool
  | .accept k => 1 ≤ k
  | .err .wouldBlock => true
  | _ => false

def flBenign : FlEv → Bool
  | .ok => true
  | .err .wouldBlock => true
  | _ => false

def hsData : List RdEv → Bytes
  | [] => []
  | .data bs :: rest => bs ++ hsData rest
  | _ :: rest => hsData rest

/-- a transport that segments and delays but never fails -/
def Transport.Benign (t : Transport) : Prop :=
  (∀ e ∈ t.rd, rdBenign e = true) ∧ (∀ e ∈ t.wr, wrBenign e = true) ∧ (∀ e ∈ t.fl, flBenign e = true) ∧
  t.rdDef = .err .wouldBlock ∧ wrBenign t.wrDef = true ∧ flBenign t.flDef = true

/-- the small-packet guard is not tripped by this read script: the counters stay within bounds
after every delivered chunk -/
def guardOk : AttackCheck → List RdEv → Bool
  | _, [] => true
  | a, .data bs :: rest =>
    let (a', ok) := a.check bs.length
    ok && guardOk a' rest
  | a, _ :: rest => guardOk a rest

/-- what a server handshake must do for the request head `h` arriving alone: the bytes it writes
and how it ends -/
def serverSpec (cb : Callback) (h : RawHead) : Bytes × Outcome Unit :=
  match serverAfterRead { callback := cb } h [] with
  | .error e => ([], .failed e)
  | .ok (role, out) =>
    match role.errorResponse with
    | some (status, body) => (out, .failed (.http status body))
    | none => (out, .done ())

/-- the reads of an attack run: sizes of the delivered chunks, until the guard trips -/
def attackRun : AttackCheck → List Nat → Nat × Nat × Bool
  | a, [] => (a.packets, a.bytes, true)
  | a, s :: rest =>
    let (a', ok) := a.check s
    if ok then attackRun a' rest else (a'.packets, a'.bytes, false)

end WsModel.Hs
