import WsModel.Transport
import WsModel.Handshake.AcceptKey
import WsModel.Generated.Handshake
import WsModel.Generated.Attack

/-! The HTTP upgrade handshake (src/handshake/{machine,mod,server,client}.rs, src/client.rs).
`httparse` and `http::Uri` are external: what they report for given bytes is a parameter
(`HeadParse`, `UriView`); everything tungstenite does with it is modelled. -/
namespace WsModel.Hs
open WsModel WsModel.Gen

inductive SubProtoErr where
  | serverSentSubProtocolNoneRequested | invalidSubProtocol | noSubProtocol
  deriving DecidableEq, Repr, Inhabited

inductive HsErr where
  | wrongHttpMethod | wrongHttpVersion
  | missingConnectionUpgradeHeader | missingUpgradeWebSocketHeader
  | missingSecWebSocketVersionHeader | missingSecWebSocketKey
  | secWebSocketAcceptKeyMismatch
  | subProtocol (e : SubProtoErr)
  | junkAfterRequest | customResponseSuccessful | handshakeIncomplete
  | httparse | tooManyHeaders | httpFormat | attackAttempt | utf8
  | invalidHeader (name : Bytes)
  | urlUnsupportedScheme | urlNoHostName | urlEmptyHostName | urlNoPathOrQuery
  | io (k : IoKind)
  | http (status : Nat) (body : Option Bytes)
  deriving DecidableEq, Repr, Inhabited

/-- what `httparse` extracted from a complete head -/
structure RawHead where
  method : Bytes := []      -- request
  version : Nat := 1
  code : Nat := 0           -- response
  uriOk : Bool := true      -- request: the path parses as `http::Uri`
  headers : List (Bytes × Bytes) := []
  deriving DecidableEq, Repr, Inhabited

/-- the result of `httparse::{Request,Response}::parse` on the bytes received so far -/
inductive HeadParse where
  | incomplete
  | complete (size : Nat) (h : RawHead)
  | tooManyHeaders
  | error
  deriving DecidableEq, Repr, Inhabited

def lower (b : UInt8) : UInt8 := if 65 ≤ b ∧ b ≤ 90 then b + 32 else b

def lowerAll (bs : Bytes) : Bytes := bs.map lower

/-- `eq_ignore_ascii_case` -/
def eqIgnoreCase (a b : Bytes) : Bool := lowerAll a == lowerAll b

/-- `HeaderMap::get`: first value under a case-insensitive name -/
def hget (hs : List (Bytes × Bytes)) (name : Bytes) : Option Bytes :=
  match hs with
  | [] => none
  | (n, v) :: rest => if eqIgnoreCase n name then some v else hget rest name

/-- `http::HeaderMap`: entries in first-insertion order, lower-case names, values in order -/
abbrev HMap := List (Bytes × List Bytes)

def HMap.append : HMap → Bytes → Bytes → HMap
  | [], n, v => [(lowerAll n, [v])]
  | (k, vs) :: rest, n, v =>
    if k == lowerAll n then (k, vs ++ [v]) :: rest else (k, vs) :: HMap.append rest n v

def HMap.ofList (hs : List (Bytes × Bytes)) : HMap :=
  hs.foldl (fun m (n, v) => m.append n v) []

/-- iteration order: entry by entry, all values of an entry together -/
def HMap.iter (m : HMap) : List (Bytes × Bytes) :=
  (m.map fun (k, vs) => vs.map fun v => (k, v)).flatten

/-- `HeaderMap::get`: the first value -/
def HMap.get (m : HMap) (name : Bytes) : Option Bytes :=
  match m.find? fun (k, _) => k == lowerAll name with
  | some (_, v :: _) => some v
  | _ => none

/-- `HeaderMap::remove`: removes every value of the name; the entry is swap-removed (the last
entry takes its place) -/
def HMap.remove (m : HMap) (name : Bytes) : HMap :=
  match m.findIdx? fun (k, _) => k == lowerAll name with
  | none => m
  | some i =>
    if i + 1 = m.length then m.take i
    else match m.getLast? with
      | some last => (m.take i ++ [last] ++ (m.drop (i + 1))).take (m.length - 1)
      | none => m

/-- `HeaderValue::to_str`: visible ASCII and tab only -/
def toStr (v : Bytes) : Option Bytes :=
  if v.all (fun b => b == 9 || (32 ≤ b && b < 127)) then some v else none

/-- `str::split(chars)` -/
def splitOn (seps : Bytes) : Bytes → List Bytes
  | [] => [[]]
  | b :: rest =>
    if seps.contains b then [] :: splitOn seps rest
    else match splitOn seps rest with
      | [] => [[b]]
      | w :: ws => (b :: w) :: ws

def GET : Bytes := [71, 69, 84]

/-- `Request::from_httparse` -/
def requestFromRaw (h : RawHead) : Except HsErr (List (Bytes × Bytes)) :=
  if h.method ≠ GET then .error .wrongHttpMethod
  else if h.version < 1 then .error .wrongHttpVersion
  else if !h.uriOk then .error .httpFormat
  else .ok h.headers

/-- `create_parts`: the accept key of the 101 response, or why the request is refused.
(Method and version are GET / 1.1 by construction after `from_httparse`.) -/
def createParts (headers : List (Bytes × Bytes)) : Except HsErr Bytes :=
  if !(match (hget headers srvConnectionName).bind toStr with
       | some v => (splitOn srvConnectionSplit v).any (eqIgnoreCase · srvConnectionToken)
       | none => false) then .error .missingConnectionUpgradeHeader
  else if !(match (hget headers srvUpgradeName).bind toStr with
            | some v => eqIgnoreCase v srvUpgradeValue
            | none => false) then .error .missingUpgradeWebSocketHeader
  else if !(match hget headers srvVersionName with
            | some v => v == srvVersionValue
            | none => false) then .error .missingSecWebSocketVersionHeader
  else match hget headers srvKeyName with
    | none => .error .missingSecWebSocketKey
    | some key => .ok (base64Encode (sha1 (key ++ wsGuidLit)))

def crlf : Bytes := [13, 10]
def colonSp : Bytes := [58, 32]

def headerLine (name value : Bytes) : Bytes := name ++ colonSp ++ value ++ crlf

/-- "HTTP/1.1 101 Switching Protocols\r\n" -/
def statusLine101 : Bytes :=
  [72, 84, 84, 80, 47, 49, 46, 49, 32, 49, 48, 49, 32, 83, 119, 105, 116, 99, 104, 105, 110, 103, 32, 80, 114, 111,
   116, 111, 99, 111, 108, 115, 13, 10]

/-- what `write_response` prints for a header map built by appending `hs` in order: `http`
keeps one entry per (lower-cased) name in first-insertion order, and every value of an entry is
printed on its own line right after the entry's first value -/
def headerLines (hs : List (Bytes × Bytes)) : Bytes :=
  ((HMap.ofList hs).iter.map fun (n, v) => headerLine n v).flatten

/-- `write_response` for the 101 built by `create_parts` plus headers a callback appended
(`http` prints header names in lower case) -/
def response101 (acceptKey : Bytes) (extra : List (Bytes × Bytes)) : Bytes :=
  statusLine101
    ++ headerLines ([srvRespConnection, srvRespUpgrade, (srvRespAcceptName, acceptKey)] ++ extra)
    ++ crlf

/-- what the user callback does -/
inductive Callback where
  | none_
  | accept (extra : List (Bytes × Bytes))
  | reject (status : Nat) (statusLine : Bytes) (headers : List (Bytes × Bytes)) (body : Option Bytes)
  deriving Repr, Inhabited

def rejectBytes (statusLine : Bytes) (headers : List (Bytes × Bytes)) (body : Option Bytes) : Bytes :=
  statusLine ++ crlf ++ headerLines headers ++ crlf ++ (body.getD [])

/-! ### the handshake machine -/

structure AttackCheck where
  packets : Nat := 0
  bytes : Nat := 0
  deriving DecidableEq, Repr, Inhabited

/-- `check_incoming_packet_size`: counters updated, `false` = AttackAttempt -/
def AttackCheck.check (a : AttackCheck) (size : Nat) : AttackCheck × Bool :=
  let a' : AttackCheck := ⟨a.packets + 1, a.bytes + size⟩
  (a', attackCheckOk a'.packets a'.bytes)

inductive HState where
  | reading (buf : Bytes) (attack : AttackCheck)
  | writing (rem : Bytes)
  | flushing
  deriving Repr, Inhabited

inductive Round where
  | wouldBlock (s : HState)
  | incomplete (s : HState)
  | doneReading (size : Nat) (h : RawHead) (tail : Bytes)
  | doneWriting
  | err (e : HsErr)
  | panic
  deriving Repr, Inhabited

/-- `HandshakeMachine::single_round` -/
def singleRound (parse : Bytes → HeadParse) (s : HState) (t : Transport) : Transport × Round :=
  match s with
  | .reading buf attack =>
    match t.read with
    | (t, .err .wouldBlock) => (t, .wouldBlock s)
    | (t, .err k) => (t, .err (.io k))
    | (t, .eof) => (t, .err .handshakeIncomplete)
    | (t, .data bs) =>
      if bs.isEmpty then (t, .err .handshakeIncomplete)
      else
        let (attack, ok) := attack.check bs.length
        if !ok then (t, .err .attackAttempt)
        else
          let buf := buf ++ bs
          match parse buf with
          | .incomplete => (t, .incomplete (.reading buf attack))
          | .complete size h => (t, .doneReading size h (buf.drop size))
          | .tooManyHeaders => (t, .err .tooManyHeaders)
          | .error => (t, .err .httparse)
  | .writing rem =>
    if rem.isEmpty then (t, .panic)
    else
      match t.write rem with
      | (t, .err .wouldBlock) => (t, .wouldBlock s)
      | (t, .err k) => (t, .err (.io k))
      | (t, .ok n) =>
        if n = 0 then (t, .err (.io .reset))
        else if (rem.drop n).isEmpty then (t, .incomplete .flushing)
        else (t, .incomplete (.writing (rem.drop n)))
  | .flushing =>
    match t.flush with
    | (t, .ok) => (t, .doneWriting)
    | (t, .err .wouldBlock) => (t, .wouldBlock s)
    | (t, .err k) => (t, .err (.io k))

/-! ### server role -/

structure ServerRole where
  callback : Callback := .none_
  errorResponse : Option (Nat × Option Bytes) := none
  deriving Repr, Inhabited

inductive Outcome (α : Type) where
  | done (a : α)
  | interrupted
  | failed (e : HsErr)
  | panic
  deriving Repr, Inhabited

/-- `ServerHandshake::stage_finished`, `DoneReading` arm: the bytes to write next -/
def serverAfterRead (r : ServerRole) (h : RawHead) (tail : Bytes) : Except HsErr (ServerRole × Bytes) :=
  -- `Request::try_parse` (method / version / URI) runs inside the reading round, before the tail is looked at
  match requestFromRaw h with
  | .error e => .error e
  | .ok headers =>
    if !tail.isEmpty then .error .junkAfterRequest
    else
      match createParts headers with
      | .error e => .error e
      | .ok key =>
        match r.callback with
        | .none_ => .ok ({ r with callback := .none_ }, response101 key [])
        | .accept extra => .ok ({ r with callback := .none_ }, response101 key extra)
        | .reject status line hs body =>
          if 200 ≤ status ∧ status < 300 then .error .customResponseSuccessful
          else .ok ({ callback := .none_, errorResponse := some (status, body) }, rejectBytes line hs body)

structure ServerMid where
  role : ServerRole
  state : HState
  deriving Repr, Inhabited

/-- `MidHandshake::handshake` for the server; `done ()` = a server `WebSocket` over the stream -/
def serverLoop (parse : Bytes → HeadParse) : Nat → ServerMid → Transport → Transport × ServerMid × Outcome Unit
  | 0, m, t => (t, m, .panic)
  | fuel + 1, m, t =>
    match singleRound parse m.state t with
    | (t, .wouldBlock s) => (t, { m with state := s }, .interrupted)
    | (t, .incomplete s) => serverLoop parse fuel { m with state := s } t
    | (t, .err e) => (t, m, .failed e)
    | (t, .panic) => (t, m, .panic)
    | (t, .doneReading _ h tail) =>
      match serverAfterRead m.role h tail with
      | .error e => (t, m, .failed e)
      | .ok (role, out) => serverLoop parse fuel { role := role, state := .writing out } t
    | (t, .doneWriting) =>
      match m.role.errorResponse with
      | some (status, body) => (t, m, .failed (.http status body))
      | none => (t, m, .done ())

def serverStart (cb : Callback) : ServerMid := { role := { callback := cb }, state := .reading [] {} }

/-! ### client role -/

/-- what `http::Uri` reports for the target (external) -/
structure UriView where
  scheme : Option Bytes
  authority : Option Bytes
  pathAndQuery : Option Bytes
  deriving DecidableEq, Repr, Inhabited

/-- index just past the chosen '@' -/
def afterAt (lastAt : Bool) (auth : Bytes) : Bytes :=
  let idxs := (List.range auth.length).filter fun i => auth[i]? == some 64
  match (if lastAt then idxs.getLast? else idxs.head?) with
  | some i => auth.drop (i + 1)
  | none => auth

def hostName : Bytes := [72, 111, 115, 116]
def wsScheme : Bytes := [119, 115]
def wssScheme : Bytes := [119, 115, 115]

/-- `impl IntoClientRequest for Uri` (+ `ClientRequestBuilder`): the header map of the request -/
def requestFromUri (u : UriView) (key : Bytes) (extra : List (Bytes × Bytes)) (protocols : List Bytes) :
    Except HsErr HMap :=
  match u.authority with
  | none => .error .urlNoHostName
  | some auth =>
    let host := afterAt uriHostAfterLastAt auth
    if host.isEmpty then .error .urlEmptyHostName
    else
      let base : List (Bytes × Bytes) :=
        [(hostName, host), (reqHeaderNames.getD 1 [], uriReqConnection), (reqHeaderNames.getD 2 [], uriReqUpgrade),
         (reqHeaderNames.getD 3 [], uriReqVersion), (reqKeyName, key)]
      let joined : Bytes := match protocols with
        | [] => []
        | p :: ps => ps.foldl (fun acc q => acc ++ [44, 32] ++ q) p
      .ok (HMap.ofList (base ++ extra ++ (if protocols.isEmpty then [] else [(cliProtocolName, joined)])))

def trimAscii (bs : Bytes) : Bytes :=
  let isWs (b : UInt8) : Bool := b == 32 || b == 9 || b == 10 || b == 13 || b == 12 || b == 11
  ((bs.dropWhile isWs).reverse.dropWhile isWs).reverse

/-- `extract_subprotocols_from_request` -/
def extractSubprotocols (headers : HMap) : Except HsErr (Option (List Bytes)) :=
  match headers.get cliProtocolName with
  | none => .ok none
  | some v =>
    match toStr v with
    | none => .error .utf8
    | some s => .ok (some ((splitOn [44] s).map trimAscii))

def originName : Bytes := [111, 114, 105, 103, 105, 110]
def originCanon : Bytes := [79, 114, 105, 103, 105, 110]

/-- display name of a remaining header in `generate_request` -/
def canonName (n : Bytes) : Bytes :=
  let l := lowerAll n
  if l == lowerAll cliProtocolName then cliProtocolName
  else if l == originName then originCanon
  else l

/-- the five required headers, removed one by one -/
def takeRequired : List Bytes → HMap → Except HsErr (Bytes × HMap)
  | [], hs => .ok ([], hs)
  | name :: names, hs =>
    match hs.get name with
    | none => .error (.invalidHeader (lowerAll name))
    | some v =>
      match toStr v with
      | none => .error .utf8
      | some s =>
        match takeRequired names (hs.remove name) with
        | .error e => .error e
        | .ok (out, rest) => .ok (headerLine name s ++ out, rest)

def otherHeaders : List (Bytes × Bytes) → Except HsErr Bytes
  | [] => .ok []
  | (n, v) :: rest =>
    match toStr v with
    | none => .error .utf8
    | some s =>
      match otherHeaders rest with
      | .error e => .error e
      | .ok out => .ok (headerLine (canonName n) s ++ out)

/-- "GET " … " HTTP/1.1\r\n" -/
def requestLine (path : Bytes) : Bytes :=
  [71, 69, 84, 32] ++ path ++ [32, 72, 84, 84, 80, 47, 49, 46, 49, 13, 10]

/-- `generate_request`: the request bytes and the key -/
def generateRequest (u : UriView) (headers : HMap) : Except HsErr (Bytes × Bytes) :=
  match u.pathAndQuery with
  | none => .error .urlNoPathOrQuery
  | some path =>
    match headers.get reqKeyName with
    | none => .error (.invalidHeader (lowerAll reqKeyName))
    | some kv =>
      match toStr kv with
      | none => .error .utf8
      | some key =>
        match takeRequired reqHeaderNames headers with
        | .error e => .error e
        | .ok (req5, rest) =>
          match otherHeaders rest.iter with
          | .error e => .error e
          | .ok others => .ok (requestLine path ++ req5 ++ others ++ crlf, key)

structure VerifyData where
  acceptKey : Bytes
  subprotocols : Option (List Bytes)
  deriving Repr, Inhabited

/-- `ClientHandshake::start` -/
def clientStart (u : UriView) (headers : HMap) : Except HsErr (VerifyData × Bytes) :=
  if !(u.scheme == some wsScheme || u.scheme == some wssScheme) then .error .urlUnsupportedScheme
  else
    match extractSubprotocols headers with
    | .error e => .error e
    | .ok subs =>
      match generateRequest u headers with
      | .error e => .error e
      | .ok (req, key) => .ok ({ acceptKey := base64Encode (sha1 (key ++ wsGuidLit)), subprotocols := subs }, req)

/-- `ClientHandshake::start` on a request object built by the caller: its method must be GET and
its version at least HTTP/1.1, before anything else is looked at -/
def clientStartChecked (methodIsGet versionAtLeast11 : Bool) (u : UriView) (headers : HMap) :
    Except HsErr (VerifyData × Bytes) :=
  if !methodIsGet then .error .wrongHttpMethod
  else if !versionAtLeast11 then .error .wrongHttpVersion
  else clientStart u hm
where hm := headers

/-- `Response::from_httparse` + `VerifyData::verify_response` -/
def verifyResponse (v : VerifyData) (h : RawHead) (tail : Bytes) : Except HsErr Unit :=
  if h.version < 1 then .error .wrongHttpVersion
  else if h.code < 100 ∨ h.code ≥ 1000 then .error .httpFormat
  else if h.code ≠ cliSwitchingProtocols then .error (.http h.code (some tail))
  else if !(match (hget h.headers cliUpgradeName).bind toStr with
            | some x => eqIgnoreCase x cliUpgradeValue
            | none => false) then .error .missingUpgradeWebSocketHeader
  else if !(match (hget h.headers cliConnectionName).bind toStr with
            | some x => eqIgnoreCase x cliConnectionValue
            | none => false) then .error .missingConnectionUpgradeHeader
  else if !(match hget h.headers cliAcceptName with
            | some x => x == v.acceptKey
            | none => false) then .error .secWebSocketAcceptKeyMismatch
  else
    match hget h.headers cliProtocolName, v.subprotocols with
    | none, some _ => .error (.subProtocol .noSubProtocol)
    | some _, none => .error (.subProtocol .serverSentSubProtocolNoneRequested)
    | none, none => .ok ()
    | some p, some offered =>
      match toStr p with
      | none => .error .utf8
      | some s => if offered.contains s then .ok () else .error (.subProtocol .invalidSubProtocol)

structure ClientMid where
  verify : VerifyData
  state : HState
  deriving Repr, Inhabited

/-- `MidHandshake::handshake` for the client; `done tail` = a client `WebSocket` whose read
buffer starts with `tail` -/
def clientLoop (parse : Bytes → HeadParse) : Nat → ClientMid → Transport → Transport × ClientMid × Outcome Bytes
  | 0, m, t => (t, m, .panic)
  | fuel + 1, m, t =>
    match singleRound parse m.state t with
    | (t, .wouldBlock s) => (t, { m with state := s }, .interrupted)
    | (t, .incomplete s) => clientLoop parse fuel { m with state := s } t
    | (t, .err e) => (t, m, .failed e)
    | (t, .panic) => (t, m, .panic)
    | (t, .doneWriting) => clientLoop parse fuel { m with state := .reading [] {} } t
    | (t, .doneReading _ h tail) =>
      match verifyResponse m.verify h tail with
      | .error e => (t, m, .failed e)
      | .ok () => (t, m, .done tail)

/-- enough rounds: every round that continues consumed a transport event or wrote ≥ 1 byte -/
def hsFuel (s : HState) (t : Transport) : Nat :=
  t.rd.length + t.wr.length + t.fl.length +
    (match s with | .writing rem => rem.length | _ => 0) + 400

end WsModel.Hs
