import WsModel.Handshake.AcceptKey

/-!
# TESTS for SHA-1, Base64 and the accept key

These are *tests*, not proofs: known-answer vectors evaluated by `#guard` (compiled
evaluation), plus a few kernel evaluations (`by decide`) showing that the definitions reduce
inside the kernel.  Nothing here is part of the trusted model; string literals are used only
on the expected-value side.

Sources of the vectors: RFC 3174 §7.3 / FIPS 180 examples (SHA-1), RFC 4648 §10 (Base64),
RFC 6455 §1.3 (accept key).
-/
namespace WsModel.Hs.Tests
open WsModel WsModel.Hs

/-- ASCII bytes of a string (test helper). -/
def ascii (s : String) : Bytes := s.toUTF8.toList

def hexDigit (n : Nat) : Char :=
  if n < 10 then Char.ofNat (48 + n) else Char.ofNat (87 + n)

/-- lower-case hex rendering (test helper). -/
def hex (bs : Bytes) : String :=
  String.ofList (bs.flatMap fun b => [hexDigit (b.toNat / 16), hexDigit (b.toNat % 16)])

/-! ## TEST: the GUID literal -/

#guard wsGuid = ascii "258EAFA5-E914-47DA-95CA-C5AB0DC85B11"
#guard wsGuid.length = 36

/-! ## TEST: SHA-1 known answers -/

#guard hex (sha1 (ascii "")) = "da39a3ee5e6b4b0d3255bfef95601890afd80709"
#guard hex (sha1 (ascii "abc")) = "a9993e364706816aba3e25717850c26c9cd0d89d"
#guard hex (sha1 (ascii "abcdbcdecdefdefgefghfghighijhijkijkljklmklmnlmnomnopnopq"))
  = "84983e441c3bd26ebaae4aa1f95129e5e54670f1"
#guard hex (sha1 (ascii "The quick brown fox jumps over the lazy dog"))
  = "2fd4e1c67a2d28fced849ee1bb76e7391b93eb12"
-- 1,000 and 1,000,000 bytes of 'a' (the latter is RFC 3174 TEST3 / FIPS 180 example 3)
#guard hex (sha1 (List.replicate 1000 97)) = "291e9a6c66994949b57ba5e650361e98fc36b1ba"
#guard hex (sha1 (List.replicate 1000000 97)) = "34aa973cd4c4daa4f61eeb2bdbad27316534016f"
-- RFC 3174 TEST4: 80 repetitions of "01234567" (640 bytes, exactly ten blocks before padding)
#guard hex (sha1 ((List.replicate 80 (ascii "01234567")).flatten))
  = "dea356a2cddd90c7a7ecedc5ebb563934f460452"
#guard (sha1 []).length = 20

/-! ## TEST: SHA-1 padding shape at the block boundaries -/

#guard [0, 1, 54, 55, 56, 57, 63, 64, 65, 119, 120, 121, 1000].all fun n =>
  (sha1Pad (List.replicate n 0)).length % 64 = 0
  && (sha1Pad (List.replicate n 0)).length = (n + 9 + 63) / 64 * 64
#guard (sha1Pad (List.replicate 55 0)).length = 64
#guard (sha1Pad (List.replicate 56 0)).length = 128

/-! ## TEST: Base64, RFC 4648 §10 -/

#guard base64Encode (ascii "") = ascii ""
#guard base64Encode (ascii "f") = ascii "Zg=="
#guard base64Encode (ascii "fo") = ascii "Zm8="
#guard base64Encode (ascii "foo") = ascii "Zm9v"
#guard base64Encode (ascii "foob") = ascii "Zm9vYg=="
#guard base64Encode (ascii "fooba") = ascii "Zm9vYmE="
#guard base64Encode (ascii "foobar") = ascii "Zm9vYmFy"

#guard base64Decode (ascii "") = some (ascii "")
#guard base64Decode (ascii "Zg==") = some (ascii "f")
#guard base64Decode (ascii "Zm8=") = some (ascii "fo")
#guard base64Decode (ascii "Zm9v") = some (ascii "foo")
#guard base64Decode (ascii "Zm9vYg==") = some (ascii "foob")
#guard base64Decode (ascii "Zm9vYmE=") = some (ascii "fooba")
#guard base64Decode (ascii "Zm9vYmFy") = some (ascii "foobar")

/-! ## TEST: the alphabet -/

#guard (List.range 64).map b64Char
  = ascii "ABCDEFGHIJKLMNOPQRSTUVWXYZabcdefghijklmnopqrstuvwxyz0123456789+/"
#guard (List.range 256).all fun n =>
  match b64Index (UInt8.ofNat n) with
  | some i => i < 64 && b64Char i = UInt8.ofNat n
  | none => !((List.range 64).map b64Char).contains (UInt8.ofNat n)
#guard base64Encode [0xfb, 0xff, 0xbf] = ascii "+/+/"
#guard base64Decode (ascii "+/+/") = some [0xfb, 0xff, 0xbf]

/-! ## TEST: decoder strictness (behaviour of `data_encoding::BASE64.decode`) -/

#guard base64Decode (ascii "Z") = none          -- length
#guard base64Decode (ascii "Zg") = none         -- length (padding is mandatory)
#guard base64Decode (ascii "Zg=") = none        -- length
#guard base64Decode (ascii "Zm9vY") = none      -- length
#guard base64Decode (ascii "Zh==") = none       -- non-zero trailing bits
#guard base64Decode (ascii "Zm9=") = none       -- non-zero trailing bits
#guard base64Decode (ascii "Z===") = none       -- bad padding
#guard base64Decode (ascii "====") = none       -- bad padding
#guard base64Decode (ascii "Z=g=") = none       -- `=` inside a block
#guard base64Decode (ascii "=Zg=") = none
#guard base64Decode (ascii "Zm9-") = none       -- URL-safe alphabet is not accepted
#guard base64Decode (ascii "Zm9_") = none
#guard base64Decode (ascii "Zm9v\n") = none     -- no whitespace
#guard base64Decode (ascii "Zm 9v") = none
#guard base64Decode [90, 109, 57, 200] = none   -- non-ASCII byte
-- per-block padding: concatenated padded encodings are accepted, as by data_encoding
#guard base64Decode (ascii "Zg==Zg==") = some (ascii "ff")
#guard base64Decode (ascii "Zm8=Zm9v") = some (ascii "fofoo")

/-! ## TEST: round trip on a few hundred inputs -/

#guard (List.range 300).all fun n =>
  let bs : Bytes := (List.range n).map fun i => UInt8.ofNat (i * 37 + n * 11 + i * i)
  base64Decode (base64Encode bs) = some bs
  && (base64Encode bs).length = 4 * ((n + 2) / 3)

/-! ## TEST: RFC 6455 §1.3 example -/

#guard acceptKey (ascii "dGhlIHNhbXBsZSBub25jZQ==") = ascii "s3pPLMBiTxaQ9kYGzzhZRbK+xOo="
#guard hex (sha1 (ascii "dGhlIHNhbXBsZSBub25jZQ==258EAFA5-E914-47DA-95CA-C5AB0DC85B11"))
  = "b37a4f2cc0624f1690f64606cf385945b2bec4ea"
#guard (acceptKey []).length = 28
-- the example nonce itself
#guard base64Decode (ascii "dGhlIHNhbXBsZSBub25jZQ==") = some (ascii "the sample nonce")

/-! ## TEST: the definitions reduce in the kernel (no compiler involved) -/

/-- SHA-1 of the empty string, evaluated by kernel reduction. -/
example : sha1 [] =
    [0xda, 0x39, 0xa3, 0xee, 0x5e, 0x6b, 0x4b, 0x0d, 0x32, 0x55,
     0xbf, 0xef, 0x95, 0x60, 0x18, 0x90, 0xaf, 0xd8, 0x07, 0x09] := by decide +kernel

/-- SHA-1 of "abc", evaluated by kernel reduction. -/
example : sha1 [97, 98, 99] =
    [0xa9, 0x99, 0x3e, 0x36, 0x47, 0x06, 0x81, 0x6a, 0xba, 0x3e,
     0x25, 0x71, 0x78, 0x50, 0xc2, 0x6c, 0x9c, 0xd0, 0xd8, 0x9d] := by decide +kernel

/-- Base64 of "foobar" and back, evaluated by kernel reduction. -/
example : base64Encode [102, 111, 111, 98, 97, 114] = [90, 109, 57, 118, 89, 109, 70, 121] := by
  decide +kernel
example : base64Decode [90, 109, 57, 118, 89, 109, 70, 121] = some [102, 111, 111, 98, 97, 114] := by
  decide +kernel

/-- The RFC 6455 example, evaluated by kernel reduction: two SHA-1 blocks and a Base64
encoding.  Key = `"dGhlIHNhbXBsZSBub25jZQ=="`, accept = `"s3pPLMBiTxaQ9kYGzzhZRbK+xOo="`. -/
example :
    acceptKey [100, 71, 104, 108, 73, 72, 78, 104, 98, 88, 66, 115, 90, 83, 66, 117, 98, 50,
               53, 106, 90, 81, 61, 61]
    = [115, 51, 112, 80, 76, 77, 66, 105, 84, 120, 97, 81, 57, 107, 89, 71, 122, 122, 104, 90,
       82, 98, 75, 43, 120, 79, 111, 61] := by decide +kernel

end WsModel.Hs.Tests
