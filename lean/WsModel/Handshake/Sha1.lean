import WsModel.Basic

/-!
# SHA-1 (RFC 3174)

A direct, executable transcription of RFC 3174 "method 1" (§6.1).  Everything is
structural recursion or a fold over lists, and all word arithmetic is `UInt32`
(addition wraps modulo 2^32, as the RFC requires), so the definition runs in
compiled code, in the interpreter and in the kernel.

Layout of the computation for a message `M` of `l` bytes:

1. `pad M`       = `M ++ [0x80] ++ 0x00 … 0x00 ++ be64 (8 * l)`, a multiple of 64 bytes (§4);
2. `blocks`      cuts the padded message into 64-byte blocks;
3. `wordsOfBlock` reads a block as sixteen big-endian 32-bit words `W(0)…W(15)`;
4. `schedule`    extends them to `W(0)…W(79)` (§6.1 step b);
5. `compress`    runs the eighty rounds and adds the result to the chaining value (§6.1 c–e);
6. the digest is the big-endian serialisation of the final `H0 … H4`.
-/
namespace WsModel.Hs

/-- `S^n(x)`: circular left shift of a 32-bit word by `n` bits, `0 < n < 32` (RFC 3174 §3.c). -/
def rotl (x : UInt32) (n : UInt32) : UInt32 :=
  (x <<< n) ||| (x >>> (32 - n))

/-- The five chaining words `H0 … H4` (also used for the working variables `A … E`). -/
structure Sha1State where
  a : UInt32
  b : UInt32
  c : UInt32
  d : UInt32
  e : UInt32
  deriving DecidableEq, Repr, Inhabited

/-- Initial chaining value (RFC 3174 §6.1). -/
def sha1Init : Sha1State :=
  { a := 0x67452301, b := 0xEFCDAB89, c := 0x98BADCFE, d := 0x10325476, e := 0xC3D2E1F0 }

/-- The round function `f(t; B, C, D)` (RFC 3174 §5). -/
def sha1F (t : Nat) (b c d : UInt32) : UInt32 :=
  if t < 20 then (b &&& c) ||| (~~~b &&& d)
  else if t < 40 then b ^^^ c ^^^ d
  else if t < 60 then (b &&& c) ||| (b &&& d) ||| (c &&& d)
  else b ^^^ c ^^^ d

/-- The round constant `K(t)` (RFC 3174 §5). -/
def sha1K (t : Nat) : UInt32 :=
  if t < 20 then 0x5A827999
  else if t < 40 then 0x6ED9EBA1
  else if t < 60 then 0x8F1BBCDC
  else 0xCA62C1D6

/-! ## Padding (RFC 3174 §4) -/

/-- Number of zero bytes between the `0x80` marker and the 8-byte length field, chosen so
that `len + 1 + zeroPadLen len + 8` is a multiple of 64. -/
def zeroPadLen (len : Nat) : Nat :=
  (119 - len % 64) % 64

/-- The padded message: `msg`, a single `1` bit (byte `0x80`), zeros, and the message length
in *bits* as a 64-bit big-endian integer. -/
def sha1Pad (msg : Bytes) : Bytes :=
  msg ++ [0x80] ++ List.replicate (zeroPadLen msg.length) 0 ++ beBytes 8 (8 * msg.length)

/-- The first `n` consecutive 64-byte blocks of `bs`. -/
def blocks : Nat → Bytes → List Bytes
  | 0, _ => []
  | n + 1, bs => bs.take 64 :: blocks n (bs.drop 64)

/-! ## Message schedule -/

/-- Four bytes, most significant first, as one word. -/
def be32 (b0 b1 b2 b3 : UInt8) : UInt32 :=
  (b0.toUInt32 <<< 24) ||| (b1.toUInt32 <<< 16) ||| (b2.toUInt32 <<< 8) ||| b3.toUInt32

/-- A byte string as big-endian 32-bit words (a trailing partial word is dropped; blocks are
always 64 bytes so this does not happen). -/
def wordsOfBlock : Bytes → List UInt32
  | b0 :: b1 :: b2 :: b3 :: rest => be32 b0 b1 b2 b3 :: wordsOfBlock rest
  | _ => []

/-- One step of §6.1(b).  `rev` holds the schedule so far, most recent word first, i.e.
`rev = [W(t-1), W(t-2), …, W(0)]`; the result is `W(t) :: rev` with
`W(t) = S^1(W(t-3) XOR W(t-8) XOR W(t-14) XOR W(t-16))`. -/
def scheduleStep (rev : List UInt32) : List UInt32 :=
  rotl (rev.getD 2 0 ^^^ rev.getD 7 0 ^^^ rev.getD 13 0 ^^^ rev.getD 15 0) 1 :: rev

/-- `W(0) … W(79)` from `W(0) … W(15)`. -/
def schedule (w16 : List UInt32) : List UInt32 :=
  (Nat.repeat scheduleStep 64 w16.reverse).reverse

/-! ## Compression -/

/-- Round `t` of §6.1(d):
`TEMP = S^5(A) + f(t;B,C,D) + E + W(t) + K(t); E = D; D = C; C = S^30(B); B = A; A = TEMP`. -/
def sha1Round (t : Nat) (s : Sha1State) (w : UInt32) : Sha1State :=
  { a := rotl s.a 5 + sha1F t s.b s.c s.d + s.e + w + sha1K t
    b := s.a
    c := rotl s.b 30
    d := s.c
    e := s.d }

/-- Rounds `t, t+1, …` over the remaining schedule words. -/
def sha1Rounds : Nat → Sha1State → List UInt32 → Sha1State
  | _, s, [] => s
  | t, s, w :: ws => sha1Rounds (t + 1) (sha1Round t s w) ws

/-- Process one 64-byte block (§6.1 a–e): run the eighty rounds from the current chaining
value and add the result back into it, word by word. -/
def compress (h : Sha1State) (block : Bytes) : Sha1State :=
  let r := sha1Rounds 0 h (schedule (wordsOfBlock block))
  { a := h.a + r.a, b := h.b + r.b, c := h.c + r.c, d := h.d + r.d, e := h.e + r.e }

/-! ## Digest -/

/-- A word as four bytes, most significant first. -/
def be32Bytes (w : UInt32) : Bytes :=
  [(w >>> 24).toUInt8, (w >>> 16).toUInt8, (w >>> 8).toUInt8, w.toUInt8]

/-- `H0 H1 H2 H3 H4` serialised big-endian: the 160-bit message digest. -/
def Sha1State.toBytes (s : Sha1State) : Bytes :=
  be32Bytes s.a ++ be32Bytes s.b ++ be32Bytes s.c ++ be32Bytes s.d ++ be32Bytes s.e

/-- SHA-1 of a byte string: the 20-byte digest. -/
def sha1 (msg : Bytes) : Bytes :=
  let padded := sha1Pad msg
  ((blocks (padded.length / 64) padded).foldl compress sha1Init).toBytes

end WsModel.Hs
