import WsModel.Handshake.Model

/-! The monad and the leaf operations that the machine translation of
`HandshakeMachine::single_round` (`WsModel/Generated/HsGen.lean`, written by
`translator/hs2lean.py` on every run) is expressed in.  The state is the transport (`stream`);
the machine state is passed by value and returned inside the round result, as in the Rust code.
Leaves: the read buffer (modelled as the bytes received and not yet consumed), the transport
calls followed by `no_block()`, the attack counters (their arithmetic is generated into
`Generated/Attack.lean`), and the external parser. -/
namespace WsModel.GenHs
open WsModel WsModel.Gen WsModel.Hs

/-- panic sites of `single_round` -/
inductive HPanic where
  | writingEmpty      -- `assert!(buf.has_remaining())`
  | fuel              -- unreachable fall-through of an exhaustive `match`
  deriving DecidableEq, Repr, Inhabited

inductive HR (α : Type) where
  | ok (a : α)
  | err (e : HsErr)
  | panic (p : HPanic)
  deriving Repr, Inhabited

abbrev M (α : Type) := Transport → Transport × HR α

@[inline] def M.pure (a : α) : M α := fun t => (t, .ok a)

@[inline] def M.bind (x : M α) (k : α → M β) : M β := fun t =>
  match x t with
  | (t, .ok a) => k a t
  | (t, .err e) => (t, .err e)
  | (t, .panic p) => (t, .panic p)

instance : Monad M where
  pure := M.pure
  bind := M.bind

def throwE (e : HsErr) : M α := fun t => (t, .err e)
def panicAt (p : HPanic) : M α := fun t => (t, .panic p)
def liftRes (r : HR α) : M α := fun t => (t, r)

/-- `StageResult` without the stream -/
inductive GStage where
  | doneReading (h : RawHead) (tail : Bytes)
  | doneWriting
  deriving Repr, Inhabited

/-- `RoundResult` without the stream: a `HandshakeMachine` is its state -/
inductive GRound where
  | wouldBlock (s : HState)
  | incomplete (s : HState)
  | stageFinished (s : GStage)
  deriving Repr, Inhabited

/-- `ProcessingResult`: carry on with a machine, or done -/
inductive GProc (φ : Type) where
  | continue_ (s : HState)
  | done (r : φ)
  deriving Repr, Inhabited

/-- what `MidHandshake::handshake` returns besides a failure: the final result, or
`HandshakeError::Interrupted` with the role and the machine to resume from -/
inductive GHs (ρ φ : Type) where
  | done (r : φ)
  | interrupted (role : ρ) (s : HState)
  deriving Repr, Inhabited

/-- `buf.read_from(&mut stream).no_block()?`: the buffer afterwards and the byte count
(`None` = the read would block) -/
def readFromNoBlock (buf : Bytes) : M (Bytes × Option Nat) := fun t =>
  match t.read with
  | (t, .err .wouldBlock) => (t, .ok (buf, none))
  | (t, .err k) => (t, .err (.io k))
  | (t, .eof) => (t, .ok (buf, some 0))
  | (t, .data bs) => (t, .ok (buf ++ bs, some bs.length))

/-- `attack_check.check_incoming_packet_size(size)`: the counters afterwards and the result -/
def attackCheck (a : AttackCheck) (size : Nat) : AttackCheck × HR Unit :=
  ((a.check size).1, if (a.check size).2 then .ok () else .err .attackAttempt)

/-- `Obj::try_parse(chunk)`: what the external parser says about the bytes received so far -/
def tryParse (parse : Bytes → HeadParse) (buf : Bytes) : HR (Option (Nat × RawHead)) :=
  match parse buf with
  | .incomplete => .ok none
  | .complete size h => .ok (some (size, h))
  | .tooManyHeaders => .err .tooManyHeaders
  | .error => .err .httparse

/-- `stream.write(chunk).no_block()?` -/
def streamWriteNoBlock (buf : Bytes) : M (Option Nat) := fun t =>
  match t.write buf with
  | (t, .err .wouldBlock) => (t, .ok none)
  | (t, .err k) => (t, .err (.io k))
  | (t, .ok n) => (t, .ok (some n))

/-- `stream.flush().no_block()?` -/
def streamFlushNoBlock : M (Option Unit) := fun t =>
  match t.flush with
  | (t, .ok) => (t, .ok (some ()))
  | (t, .err .wouldBlock) => (t, .ok none)
  | (t, .err k) => (t, .err (.io k))

/-- the hand model's round result in the vocabulary of the generated code -/
def ofRound : Round → HR GRound
  | .wouldBlock s => .ok (.wouldBlock s)
  | .incomplete s => .ok (.incomplete s)
  | .doneReading _ h tail => .ok (.stageFinished (.doneReading h tail))
  | .doneWriting => .ok (.stageFinished .doneWriting)
  | .err e => .err e
  | .panic => .panic .writingEmpty

end WsModel.GenHs
