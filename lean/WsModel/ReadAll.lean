import WsModel.Endpoint
import WsModel.Spec.Rfc6455

/-! Reading a whole inbound stream: the definitions the segmentation-independence and
RFC-refinement theorems are stated with. -/
namespace WsModel
open WsModel.Gen

/-- inbound events that only cut the stream: non-empty data and WouldBlock -/
def RdEv.benign : RdEv → Bool
  | .data bs => !bs.isEmpty
  | .err .wouldBlock => true
  | _ => false

/-- the bytes a read script delivers -/
def dataOf : List RdEv → Bytes
  | [] => []
  | .data bs :: rest => bs ++ dataOf rest
  | _ :: rest => dataOf rest

/-- the outbound side accepts whatever it is offered -/
def Transport.acceptsAll (t : Transport) : Prop :=
  t.wr = [] ∧ t.fl = [] ∧ t.wrDef = .accept (2 ^ 64) ∧ t.flDef = .ok

/-- how reading the stream ended -/
inductive Final where
  | pending                -- every byte was delivered and `read` blocks
  | error (e : Err)        -- the first error other than WouldBlock
  | panicked (s : PanicSite)
  deriving Repr, Inhabited

/-- call `read` again and again: collect the messages, stop at the first error other than
WouldBlock, or when the read script is used up and `read` blocks -/
def readAll : Nat → World → List Message × Final
  | 0, _ => ([], .pending)
  | fuel + 1, w =>
    match w.read with
    | (w', .ok m) =>
      let (ms, f) := readAll fuel w'
      (m :: ms, f)
    | (w', .err (.io .wouldBlock)) =>
      if w'.t.rd.isEmpty then ([], .pending) else readAll fuel w'
    | (_, .err e) => ([], .error e)
    | (_, .panic s) => ([], .panicked s)

/-- enough calls: every call returns a message (≥ 2 bytes consumed) or consumes a read event -/
def readAllFuel (w : World) : Nat :=
  w.c.codec.inBuf.length + rdBytes w.t.rd + w.t.rd.length + 2

def errClassOf : Err → Option Spec.ErrClass
  | .protocol _ => some .protocol
  | .capacity _ _ => some .capacity
  | .utf8 => some .utf8
  | _ => none

/-- the end of the implementation's reading agrees with the end the specification computes -/
def finalMatches (role : Role) (f : Final) (e : Spec.End) : Prop :=
  match e with
  | .needMore => f = .pending
  | .error c => ∃ err, f = .error err ∧ errClassOf err = some c
  | .closed =>
    -- after the Close message nothing more is delivered; a server ends the connection
    match role with
    | .server => f = .error .connectionClosed
    | .client => ∀ s, f ≠ .panicked s

end WsModel
