import WsModel.Endpoint
import WsModel.ReadAll

/-! Two endpoints of the library — a client and a server — joined by a reliable ordered transport:
what one side's transport accepts travels through a pipe and is what the other side's transport
later delivers. A scheduler decides who acts, which operation, how many bytes of the pipe the
acting side's transport delivers during the call, and how its writes and flushes behave. -/
namespace WsModel
open WsModel.Gen

inductive Side where
  | c | s
  deriving DecidableEq, Repr, Inhabited

structure Pair where
  c : World            -- role client
  s : World            -- role server
  c2s : Bytes := []    -- accepted by the client's transport, not yet delivered to the server
  s2c : Bytes := []
  cDropped : Bool := false   -- the client dropped its transport (after it was told ConnectionClosed)
  sDropped : Bool := false
  deriving Inhabited

/-- one scheduled action -/
structure Action where
  who : Side
  op : Op
  /-- at most this many bytes of the inbound pipe are delivered during the call (0 = none) -/
  deliver : Nat
  wr : List WrEv
  fl : List FlEv
  /-- behaviour of writes / flushes once the scripts are used up -/
  wrDef : WrEv := .accept (2 ^ 64)
  flDef : FlEv := .ok
  deriving Inhabited

def Pair.me (p : Pair) : Side → World
  | .c => p.c
  | .s => p.s

def Pair.inbound (p : Pair) : Side → Bytes
  | .c => p.s2c
  | .s => p.c2s

def Pair.peerDropped (p : Pair) : Side → Bool
  | .c => p.sDropped
  | .s => p.cDropped

/-- the transport the acting side sees during this call -/
def Pair.transportFor (p : Pair) (a : Action) : Transport :=
  let w := p.me a.who
  let inb := p.inbound a.who
  let chunk := inb.take a.deliver
  { w.t with
    rd := if chunk.isEmpty then [] else [.data chunk]
    -- nothing (more) to deliver: the call blocks — or sees EOF once the peer is gone and the pipe is empty
    rdDef := if p.peerDropped a.who ∧ inb.isEmpty then .eof else .err .wouldBlock
    wr := a.wr, fl := a.fl, wrDef := a.wrDef, flDef := a.flDef }

def Out.isConnectionClosed (o : Out) : Bool := o.err? == some .connectionClosed

/-- perform one action: run the call, move what was accepted into the outbound pipe, remove what was
delivered from the inbound pipe, drop the transport when told the connection is closed -/
def Pair.step (p : Pair) (a : Action) : Pair × Out :=
  let w := p.me a.who
  let before := w.t.accepted.length
  let t0 := p.transportFor a
  let offered := t0.rd
  let (w', out) := ({ w with t := t0 } : World).step a.op
  -- the read event was consumed iff it is no longer in the script
  let consumed : Nat := if offered.isEmpty then 0 else if w'.t.rd.isEmpty then (p.inbound a.who).take a.deliver |>.length else 0
  let sent := w'.t.accepted.drop before
  let dropNow := out.isConnectionClosed
  match a.who with
  | .c => ({ p with c := w', s2c := p.s2c.drop consumed,
                    c2s := if p.sDropped then p.c2s else p.c2s ++ sent,
                    cDropped := p.cDropped || dropNow }, out)
  | .s => ({ p with s := w', c2s := p.c2s.drop consumed,
                    s2c := if p.cDropped then p.s2c else p.s2c ++ sent,
                    sDropped := p.sDropped || dropNow }, out)

def Pair.run (p : Pair) : List Action → Pair × List (Side × Out)
  | [] => (p, [])
  | a :: as =>
    let (p1, o) := p.step a
    let (p2, os) := p1.run as
    (p2, (a.who, o) :: os)

/-- a fresh connection: both endpoints just created, nothing in flight -/
def Pair.Init (p : Pair) : Prop :=
  p.c.Init ∧ p.s.Init ∧ p.c.c.role = .client ∧ p.s.c.role = .server ∧
  p.c2s = [] ∧ p.s2c = [] ∧ p.cDropped = false ∧ p.sDropped = false

/-- the scheduler only segments and delays: writes accept at least one byte or block, flushes
succeed or block; user calls are the ordinary ones -/
def Action.Benign (a : Action) : Prop :=
  Op.noRaw a.op ∧
  (∀ e ∈ a.wr, (∃ k, e = .accept k ∧ 1 ≤ k) ∨ e = .err .wouldBlock) ∧
  (∀ e ∈ a.fl, e = .ok ∨ e = .err .wouldBlock) ∧
  ((∃ k, a.wrDef = .accept k ∧ 1 ≤ k) ∨ a.wrDef = .err .wouldBlock) ∧
  (a.flDef = .ok ∨ a.flDef = .err .wouldBlock)

/-- the user respects the documented preconditions: text is UTF-8, control payloads ≤ 125 bytes -/
def Op.Sendable : Op → Prop
  | .write (.text b) => Spec.WellFormed b ∧ b.length < 2 ^ 62
  | .write (.binary b) => b.length < 2 ^ 62
  | .write (.ping b) => b.length ≤ 125
  | .write (.pong b) => b.length ≤ 125
  | .write (.close (some cf)) => Spec.WellFormed cf.reason ∧ cf.reason.length ≤ 123 ∧ closeCodeToU16 cf.code < 65536
  | _ => True

def Pair.Reachable (p : Pair) : Prop :=
  ∃ (p0 : Pair) (as : List Action), p0.Init ∧ (∀ a ∈ as, a.Benign ∧ a.op.Sendable) ∧ (p0.run as).1 = p

/-- the fair driver: the transport works (everything is delivered, every write and flush succeeds)
and each side that has not been told ConnectionClosed flushes and then reads -/
def fullAction (who : Side) (op : Op) : Action :=
  { who := who, op := op, deliver := 2 ^ 64, wr := [], fl := [] }

def Pair.driveSide (p : Pair) (who : Side) (reads : Nat) : Pair × List (Side × Out) :=
  if (match who with | .c => p.cDropped | .s => p.sDropped) then (p, [])
  else p.run (fullAction who .flush :: List.replicate reads (fullAction who .read))

/-- `n` rounds: server then client, each flushing once and reading `reads` times -/
def Pair.drive (p : Pair) (reads : Nat) : Nat → Pair × List (Side × Out)
  | 0 => (p, [])
  | n + 1 =>
    let (p1, o1) := p.driveSide .s reads
    let (p2, o2) := p1.driveSide .c reads
    let (p3, o3) := p2.drive reads n
    (p3, o1 ++ o2 ++ o3)

end WsModel
