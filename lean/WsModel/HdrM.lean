import WsModel.Header

/-! The monad and the leaf operations that the machine translation of
`FrameHeader::{parse, parse_internal, format}` (`WsModel/Generated/HdrGen.lean`, written by
`translator/hdr2lean.py` on every run) is expressed in.  The state is a byte cursor (the decoder
reads from `data` at `pos`, as `std::io::Cursor` does) and the output written so far (the encoder
appends to `out`; writing to a `Vec` cannot fail).  Leaves: `Read::read` / `read_exact` of a
cursor over a byte slice, the generated opcode and length-form tables, big-endian conversion. -/
namespace WsModel.GenHdr
open WsModel WsModel.Gen

structure St where
  data : Bytes
  pos : Nat
  out : Bytes
  deriving DecidableEq, Repr, Inhabited

abbrev M (α : Type) := St → St × Res α

@[inline] def M.pure (a : α) : M α := fun s => (s, .ok a)

@[inline] def M.bind (x : M α) (k : α → M β) : M β := fun s =>
  match x s with
  | (s, .ok a) => k a s
  | (s, .err e) => (s, .err e)
  | (s, .panic p) => (s, .panic p)

instance : Monad M where
  pure := M.pure
  bind := M.bind

def throwE (e : Err) : M α := fun s => (s, .err e)
def panicAt (p : PanicSite) : M α := fun s => (s, .panic p)
def liftRes (r : Res α) : M α := fun s => (s, r)
/-- a `Result` kept as a value -/
def attempt (x : M α) : M (Res α) := fun s => ((x s).1, .ok (x s).2)

/-- the unread part of the cursor -/
def St.rest (s : St) : Bytes := s.data.drop s.pos

/-- `[0u8; n]` -/
def zeros (n : Nat) : Bytes := List.replicate n 0
/-- `mem::size_of::<u64>()` -/
def sizeOfU64 : Nat := 8

/-- `cursor.position()` -/
def getPos : M Nat := fun s => (s, .ok s.pos)
/-- `cursor.set_position(p)` -/
def setPos (p : Nat) : M Unit := fun s => ({ s with pos := p }, .ok ())

/-- `cursor.read(&mut buf)?` on a cursor over a slice: copies `min(buf.len(), unread)` bytes to the
front of `buf`, advances by that many, returns the count; never fails. -/
def cursorRead (buf : Bytes) : M (Bytes × Nat) := fun s =>
  let n := min buf.length s.rest.length
  ({ s with pos := s.pos + n }, .ok (s.rest.take n ++ buf.drop n, n))

/-- what `cursor.read_exact(&mut buf)` can answer -/
inductive ReadExact where
  | eof                      -- `Err(e)` with `e.kind() == UnexpectedEof`
  | failed (e : Err)         -- any other `Err(e)` (a cursor over a slice never produces one)
  | done (bs : Bytes)        -- `Ok(())`, with the bytes now in the buffer
  deriving Repr, Inhabited

/-- `cursor.read_exact(&mut buf)`: all of `buf` or `UnexpectedEof` (the cursor then stands at the
end of the data) -/
def cursorReadExact (buf : Bytes) : M ReadExact := fun s =>
  if s.rest.length < buf.length then ({ s with pos := s.data.length }, .ok .eof)
  else ({ s with pos := s.pos + buf.length }, .ok (.done (s.rest.take buf.length)))

/-- `OpCode::from(nibble)` (generated table; outside 0..15 it panics) -/
def opCodeFromByte (b : UInt8) : M OpCode :=
  match opCodeOfU8 b.toNat with
  | some o => pure o
  | none => panicAt .opcodeOutOfRange

/-- `[u8; 4]` as a mask key -/
def maskOfBytes (b : Bytes) : Mask := ⟨b[0]!, b[1]!, b[2]!, b[3]!⟩

/-- `output.write_all(bytes)?` -/
def appendOut (bs : Bytes) : M Unit := fun s => ({ s with out := s.out ++ bs }, .ok ())

end WsModel.GenHdr
