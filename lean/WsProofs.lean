import WsProofs.Props.C20
import WsProofs.Props.C19
import WsProofs.Props.C18
import WsProofs.Props.C08
import WsProofs.Props.C06
import WsProofs.Props.C11
import WsProofs.Props.C12
import WsProofs.Props.C14
