import WsProofs.Props.C20
import WsProofs.Props.C19
import WsProofs.Props.C18
import WsProofs.Props.C08
