import WsProofs.Props.C20
