//! Handshake cases: server (`accept_hdr_with_config`) and client (`client_with_config`) over the
//! scripted transport, resumable after `Interrupted`, followed by ordinary socket ops.

use crate::endpoint::{parse_cfg, parse_kv, parse_masks, parse_message, parse_close, show_err, show_msg};
use crate::transport::Mock;
use crate::util::{hex, unhex};
use std::cell::RefCell;
use std::io::{self, Read, Write};
use std::panic::{catch_unwind, AssertUnwindSafe};
use std::rc::Rc;
use tungstenite::client::IntoClientRequest;
use tungstenite::handshake::client::{ClientHandshake, Request as ClientRequest};
use tungstenite::handshake::headers::MAX_HEADERS;
use tungstenite::handshake::server::{ErrorResponse, Request, Response, ServerHandshake};
use tungstenite::handshake::{HandshakeError, MidHandshake};
use tungstenite::http;
use tungstenite::protocol::frame::verif_hook;
use tungstenite::protocol::{WebSocket, WebSocketConfig};
use tungstenite::ClientRequestBuilder;

#[derive(Clone, Debug)]
pub struct Shared(pub Rc<RefCell<Mock>>);

impl Read for Shared {
    fn read(&mut self, buf: &mut [u8]) -> io::Result<usize> {
        self.0.borrow_mut().read(buf)
    }
}
impl Write for Shared {
    fn write(&mut self, buf: &[u8]) -> io::Result<usize> {
        self.0.borrow_mut().write(buf)
    }
    fn flush(&mut self) -> io::Result<()> {
        self.0.borrow_mut().flush()
    }
}

type Cb = Box<dyn FnOnce(&Request, Response) -> Result<Response, ErrorResponse>>;

enum Stage {
    Fresh,
    ServerMid(MidHandshake<ServerHandshake<Shared, Cb>>),
    ClientMid(MidHandshake<ClientHandshake<Shared>>),
    Socket(WebSocket<Shared>),
    Dead,
}

fn kvlist(s: &str) -> Vec<(String, Vec<u8>)> {
    // name=valuehex,name=valuehex
    if s == "-" || s.is_empty() {
        return vec![];
    }
    s.split(',')
        .filter(|x| !x.is_empty())
        .map(|p| {
            let (n, v) = p.split_once('=').expect("name=valuehex");
            (String::from_utf8(unhex(n)).unwrap(), unhex(v))
        })
        .collect()
}

fn show_headers<'a>(it: impl Iterator<Item = (&'a [u8], &'a [u8])>) -> String {
    let v: Vec<String> = it.map(|(n, v)| format!("{}={}", hex(n), hex(v))).collect();
    if v.is_empty() {
        "-".into()
    } else {
        v.join(",")
    }
}

/// what httparse says about the bytes received so far (request head)
pub fn parsed_request(buf: &[u8]) -> String {
    let mut hbuf = [httparse::EMPTY_HEADER; MAX_HEADERS];
    let mut req = httparse::Request::new(&mut hbuf);
    match req.parse(buf) {
        Ok(httparse::Status::Partial) => "partial".into(),
        Ok(httparse::Status::Complete(size)) => {
            let uriok = req.path.map(|p| p.parse::<http::Uri>().is_ok()).unwrap_or(false);
            format!(
                "complete size={} method={} version={} code=0 uriok={} headers={}",
                size,
                hex(req.method.unwrap_or("").as_bytes()),
                req.version.unwrap_or(9),
                uriok as u8,
                show_headers(req.headers.iter().map(|h| (h.name.as_bytes(), h.value)))
            )
        }
        Err(httparse::Error::TooManyHeaders) => "toomany".into(),
        Err(_) => "err".into(),
    }
}

pub fn parsed_response(buf: &[u8]) -> String {
    let mut hbuf = [httparse::EMPTY_HEADER; MAX_HEADERS];
    let mut resp = httparse::Response::new(&mut hbuf);
    match resp.parse(buf) {
        Ok(httparse::Status::Partial) => "partial".into(),
        Ok(httparse::Status::Complete(size)) => format!(
            "complete size={} method=- version={} code={} uriok=1 headers={}",
            size,
            resp.version.unwrap_or(9),
            resp.code.unwrap_or(0),
            show_headers(resp.headers.iter().map(|h| (h.name.as_bytes(), h.value)))
        ),
        Err(httparse::Error::TooManyHeaders) => "toomany".into(),
        Err(_) => "err".into(),
    }
}

fn panic_text(p: Box<dyn std::any::Any + Send>) -> String {
    let s = if let Some(s) = p.downcast_ref::<&str>() {
        s.to_string()
    } else if let Some(s) = p.downcast_ref::<String>() {
        s.clone()
    } else {
        "?".to_string()
    };
    s.replace(' ', "_").chars().take(80).collect()
}

fn make_callback(spec: &str) -> (Option<Cb>, String) {
    // none | accept:<headers> | reject:<status>:<bodyhex|none>:<headers>
    let parts: Vec<&str> = spec.split(':').collect();
    match parts[0] {
        "none" => (None, "-".into()),
        "accept" => {
            let hs = kvlist(parts.get(1).copied().unwrap_or("-"));
            let cb: Cb = Box::new(move |_req, mut resp| {
                for (n, v) in &hs {
                    resp.headers_mut().append(
                        http::HeaderName::from_bytes(n.as_bytes()).unwrap(),
                        http::HeaderValue::from_bytes(v).unwrap(),
                    );
                }
                Ok(resp)
            });
            (Some(cb), "-".into())
        }
        "reject" => {
            let status: u16 = parts[1].parse().unwrap();
            let body: Option<String> = match parts[2] {
                "none" => None,
                h => Some(String::from_utf8(unhex(h)).unwrap()),
            };
            let hs = kvlist(parts.get(3).copied().unwrap_or("-"));
            let mut b = http::Response::builder().status(status);
            for (n, v) in &hs {
                b = b.header(n.as_str(), http::HeaderValue::from_bytes(v).unwrap());
            }
            let resp: ErrorResponse = b.body(body).unwrap();
            let line = format!("{:?} {}", resp.version(), resp.status());
            let cb: Cb = Box::new(move |_req, _resp| Err(resp));
            (Some(cb), hex(line.as_bytes()))
        }
        x => panic!("bad callback {x}"),
    }
}

/// base64(sha1(key ++ GUID)) with the sha1 / data-encoding crates directly
fn accept_for(key: &[u8]) -> String {
    use sha1::{Digest, Sha1};
    let mut h = Sha1::new();
    h.update(key);
    h.update(b"258EAFA5-E914-47DA-95CA-C5AB0DC85B11");
    data_encoding::BASE64.encode(&h.finalize())
}

fn show_hs_err(e: &tungstenite::Error) -> String {
    show_err(e)
}

pub fn run_case(lines: &[String], out: &mut String) {
    let shared = Shared(Rc::new(RefCell::new(Mock::default())));
    let mut stage = Stage::Fresh;
    let mut hcfg = String::new();
    let mut cfgline: Option<String> = None;
    let is_server = lines[0].contains("hs-server");
    // cumulative bytes delivered during the current reading stage (for the `parsed` oracle lines)
    let mut cum: Vec<u8> = Vec::new();
    // response template whose accept value is filled in once the key is known
    let mut peerkey: Option<String> = None;

    for line in lines {
        out.push_str(line);
        out.push('\n');
        let toks: Vec<&str> = line.split_whitespace().collect();
        if toks.is_empty() {
            continue;
        }
        match toks[0] {
            "case" | "end" | "#" => {}
            "hcfg" => {
                hcfg = line.clone();
                if let Some(cb) = parse_kv(line, "callback") {
                    if cb.starts_with("reject") {
                        let (_, l) = make_callback(cb);
                        out.push_str(&format!("statusline {l}\n"));
                    }
                }
            }
            "cfg" => cfgline = Some(line.clone()),
            "peer" => shared.0.borrow_mut().inbound.extend_from_slice(&unhex(toks[1])),
            "peerkey" => peerkey = Some(line.clone()),
            "script" => shared.0.borrow_mut().set_script(line),
            "op" => {
                let masks = parse_masks(line);
                let body: Vec<&str> =
                    toks[1..].iter().copied().filter(|t| !t.starts_with("m=")).collect();
                let config: Option<WebSocketConfig> =
                    cfgline.as_ref().map(|l| parse_cfg(l).config);
                verif_hook::set_masks(&masks);
                let mut extra_lines: Vec<String> = Vec::new();
                let taken = std::mem::replace(&mut stage, Stage::Dead);
                let res: Result<(Stage, String), Box<dyn std::any::Any + Send>> =
                    catch_unwind(AssertUnwindSafe(|| match (body[0], taken) {
                        ("accept", Stage::Fresh) => {
                            let (cb, _) = make_callback(parse_kv(&hcfg, "callback").unwrap_or("none"));
                            let cb: Cb = cb.unwrap_or_else(|| Box::new(|_r, resp| Ok(resp)));
                            match tungstenite::accept_hdr_with_config(shared.clone(), cb, config) {
                                Ok(ws) => (Stage::Socket(ws), "hs ok".to_string()),
                                Err(HandshakeError::Interrupted(mid)) => {
                                    (Stage::ServerMid(mid), "hs interrupted".into())
                                }
                                Err(HandshakeError::Failure(e)) => {
                                    (Stage::Dead, format!("hs err {}", show_hs_err(&e)))
                                }
                            }
                        }
                        ("resume", Stage::ServerMid(mid)) => match mid.handshake() {
                            Ok(ws) => (Stage::Socket(ws), "hs ok".to_string()),
                            Err(HandshakeError::Interrupted(mid)) => {
                                (Stage::ServerMid(mid), "hs interrupted".into())
                            }
                            Err(HandshakeError::Failure(e)) => {
                                (Stage::Dead, format!("hs err {}", show_hs_err(&e)))
                            }
                        },
                        ("client", Stage::Fresh) => {
                            // build the request exactly as a user would
                            let uri_s = String::from_utf8(unhex(parse_kv(&hcfg, "uri").unwrap())).unwrap();
                            let parsed_uri = uri_s.parse::<http::Uri>();
                            match &parsed_uri {
                                Ok(u) => extra_lines.push(format!(
                                    "uriview scheme={} authority={} path={}",
                                    u.scheme_str().map(|s| hex(s.as_bytes())).unwrap_or("none".into()),
                                    u.authority().map(|s| hex(s.as_str().as_bytes())).unwrap_or("none".into()),
                                    u.path_and_query().map(|s| hex(s.as_str().as_bytes())).unwrap_or("none".into()),
                                )),
                                Err(_) => extra_lines.push("uriview invalid".into()),
                            }
                            let req: Result<ClientRequest, tungstenite::Error> =
                                if let Some(custom) = parse_kv(&hcfg, "custom") {
                                    // a request object built by the caller: its method and version are the caller's too
                                    let ver = match parse_kv(&hcfg, "cversion").unwrap_or("11") {
                                        "10" => http::Version::HTTP_10,
                                        "20" => http::Version::HTTP_2,
                                        _ => http::Version::HTTP_11,
                                    };
                                    let mut b = http::Request::builder()
                                        .method(parse_kv(&hcfg, "cmethod").unwrap_or("GET"))
                                        .version(ver)
                                        .uri(uri_s.clone());
                                    for (n, v) in kvlist(custom) {
                                        b = b.header(n.as_str(), http::HeaderValue::from_bytes(&v).unwrap());
                                    }
                                    b.body(()).map_err(|e| tungstenite::Error::HttpFormat(e))
                                } else {
                                    match parsed_uri {
                                        Err(e) => Err(tungstenite::Error::HttpFormat(e.into())),
                                        Ok(u) => {
                                            let mut b = ClientRequestBuilder::new(u);
                                            for (n, v) in kvlist(parse_kv(&hcfg, "extra").unwrap_or("-")) {
                                                b = b.with_header(n, String::from_utf8(v).unwrap());
                                            }
                                            for p in parse_kv(&hcfg, "protos").unwrap_or("-").split(',') {
                                                if p != "-" && !p.is_empty() {
                                                    b = b.with_sub_protocol(String::from_utf8(unhex(p)).unwrap());
                                                }
                                            }
                                            b.into_client_request()
                                        }
                                    }
                                };
                            match req {
                                Err(e) => (Stage::Dead, format!("hs err {}", show_hs_err(&e))),
                                Ok(req) => {
                                    let hl: Vec<String> = req
                                        .headers()
                                        .iter()
                                        .map(|(n, v)| format!("{}={}", hex(n.as_str().as_bytes()), hex(v.as_bytes())))
                                        .collect();
                                    extra_lines.push(format!(
                                        "reqheaders {}",
                                        if hl.is_empty() { "-".into() } else { hl.join(",") }
                                    ));
                                    if let Some(pk) = &peerkey {
                                        // fill in the accept value for the key just generated,
                                        // computed independently of the crate under test
                                        let t: Vec<&str> = pk.split_whitespace().collect();
                                        let key = req.headers().get("Sec-WebSocket-Key").map(|k| k.as_bytes().to_vec()).unwrap_or_default();
                                        let mut acc = accept_for(&key).into_bytes();
                                        if let Some(m) = parse_kv(pk, "mutcase") {
                                            // the accept value with the ASCII case of one letter flipped
                                            // (first letter at or after position i, cyclically)
                                            let i: usize = m.parse().unwrap();
                                            let n = acc.len();
                                            if let Some(j) = (0..n).map(|d| (i + d) % n).find(|&j| acc[j].is_ascii_alphabetic()) {
                                                acc[j] ^= 0x20;
                                            }
                                        }
                                        if let Some(m) = parse_kv(pk, "mut") {
                                            let i: usize = m.parse().unwrap();
                                            if i < acc.len() {
                                                acc[i] = if acc[i] == b'A' { b'B' } else { b'A' };
                                            }
                                        }
                                        let mut bytes = unhex(t[1]);
                                        if parse_kv(pk, "accept") == Some("1") {
                                            bytes.extend_from_slice(&acc);
                                        }
                                        bytes.extend_from_slice(&unhex(t[2]));
                                        shared.0.borrow_mut().inbound.extend_from_slice(&bytes);
                                    }
                                    match tungstenite::client::client_with_config(req, shared.clone(), config) {
                                        Ok((ws, _resp)) => (Stage::Socket(ws), "hs ok".to_string()),
                                        Err(HandshakeError::Interrupted(mid)) => {
                                            (Stage::ClientMid(mid), "hs interrupted".into())
                                        }
                                        Err(HandshakeError::Failure(e)) => {
                                            (Stage::Dead, format!("hs err {}", show_hs_err(&e)))
                                        }
                                    }
                                }
                            }
                        }
                        ("resume", Stage::ClientMid(mid)) => match mid.handshake() {
                            Ok((ws, _resp)) => (Stage::Socket(ws), "hs ok".to_string()),
                            Err(HandshakeError::Interrupted(mid)) => {
                                (Stage::ClientMid(mid), "hs interrupted".into())
                            }
                            Err(HandshakeError::Failure(e)) => {
                                (Stage::Dead, format!("hs err {}", show_hs_err(&e)))
                            }
                        },
                        (op, Stage::Socket(mut ws)) if op != "resume" => {
                            let r = match op {
                                "read" => match ws.read() {
                                    Ok(m) => format!("ok {}", show_msg(&m)),
                                    Err(e) => format!("err {}", show_err(&e)),
                                },
                                "write" => match ws.write(parse_message(&body[1..])) {
                                    Ok(()) => "ok unit".into(),
                                    Err(e) => format!("err {}", show_err(&e)),
                                },
                                "flush" => match ws.flush() {
                                    Ok(()) => "ok unit".into(),
                                    Err(e) => format!("err {}", show_err(&e)),
                                },
                                "close" => match ws.close(parse_close(&body[1..])) {
                                    Ok(()) => "ok unit".into(),
                                    Err(e) => format!("err {}", show_err(&e)),
                                },
                                x => panic!("bad op {x}"),
                            };
                            let can = format!(
                                "{r}\ncan r={} w={}",
                                ws.can_read() as u8,
                                ws.can_write() as u8
                            );
                            (Stage::Socket(ws), can)
                        }
                        ("resume", Stage::Socket(ws)) => (Stage::Socket(ws), "nosocket".to_string()),
                        (_, st) => (st, "nosocket".to_string()),
                    }));
                verif_hook::set_masks(&[]);
                let (io, wire) = shared.0.borrow_mut().take_log();
                out.push_str(&format!("io {io}\n"));
                // the parse oracle: what httparse reports after each delivered chunk
                let in_handshake_op = matches!(body[0], "accept" | "resume" | "client");
                if in_handshake_op {
                    let reading_request = is_server;
                    for tok in io.split_whitespace() {
                        if let Some(h) = tok.strip_prefix("r:") {
                            if h != "b" && h != "e" && !h.starts_with('x') {
                                cum.extend_from_slice(&unhex(h));
                                let p = if reading_request {
                                    parsed_request(&cum)
                                } else {
                                    parsed_response(&cum)
                                };
                                out.push_str(&format!("parsed {} {}\n", cum.len(), p));
                            }
                        }
                    }
                }
                for l in extra_lines {
                    out.push_str(&l);
                    out.push('\n');
                }
                match res {
                    Ok((st, s)) => {
                        stage = st;
                        let mut parts = s.split('\n');
                        out.push_str(&format!("res {}\n", parts.next().unwrap()));
                        out.push_str(&format!("wire {wire}\n"));
                        if let Some(c) = parts.next() {
                            out.push_str(&format!("{c}\n"));
                        }
                    }
                    Err(p) => {
                        stage = Stage::Dead;
                        out.push_str(&format!("res panic {}\n", panic_text(p)));
                        out.push_str(&format!("wire {wire}\n"));
                    }
                }
            }
            x => panic!("bad hs case line tag {x:?}"),
        }
    }
}
