//! `FrameSocket` (the public wrapper around `FrameCodec`) over the scripted transport: ties the
//! codec model to the real codec directly, without `WebSocketContext` in between.

use crate::endpoint::{parse_kv, parse_message, show_err, show_frame};
use crate::gen::payload;
use crate::transport::Mock;
use crate::util::{enc_frame, hex, unhex, LenForm, Rng};
use std::panic::{catch_unwind, AssertUnwindSafe};
use tungstenite::protocol::frame::FrameSocket;
use tungstenite::Message;

pub fn run_case(lines: &[String], out: &mut String) {
    let mut fs: Option<FrameSocket<Mock>> = None;
    let mut pending = Mock::default();
    let mut pre: Option<Vec<u8>> = None;
    for line in lines {
        out.push_str(line);
        out.push('\n');
        let toks: Vec<&str> = line.split_whitespace().collect();
        if toks.is_empty() {
            continue;
        }
        match toks[0] {
            "case" | "end" | "#" => {}
            "fcfg" => {
                pre = match parse_kv(line, "pre").unwrap_or("none") {
                    "none" => None,
                    h => Some(unhex(h)),
                };
            }
            "peer" => {
                let b = unhex(toks[1]);
                match fs.as_mut() {
                    Some(s) => s.get_mut().inbound.extend_from_slice(&b),
                    None => pending.inbound.extend_from_slice(&b),
                }
            }
            "script" => match fs.as_mut() {
                Some(s) => s.get_mut().set_script(line),
                None => pending.set_script(line),
            },
            "op" => {
                if fs.is_none() {
                    let m = std::mem::take(&mut pending);
                    fs = Some(match pre.take() {
                        Some(p) => FrameSocket::from_partially_read(m, p),
                        None => FrameSocket::new(m),
                    });
                }
                let s = fs.as_mut().unwrap();
                let frame_of = |t: &[&str]| match parse_message(t) {
                    Message::Frame(f) => f,
                    _ => panic!("frame expected"),
                };
                let res = catch_unwind(AssertUnwindSafe(|| match toks[1] {
                    "fread" => {
                        let max = match parse_kv(line, "max").unwrap_or("none") {
                            "none" => None,
                            n => Some(n.parse::<usize>().unwrap()),
                        };
                        match s.read(max) {
                            Ok(Some(f)) => format!("ok frame {}", show_frame(&f)),
                            Ok(None) => "ok none".into(),
                            Err(e) => format!("err {}", show_err(&e)),
                        }
                    }
                    "fwrite" => match s.write(frame_of(&toks[2..])) {
                        Ok(()) => "ok unit".into(),
                        Err(e) => format!("err {}", show_err(&e)),
                    },
                    "fsend" => match s.send(frame_of(&toks[2..])) {
                        Ok(()) => "ok unit".into(),
                        Err(e) => format!("err {}", show_err(&e)),
                    },
                    "fflush" => match s.flush() {
                        Ok(()) => "ok unit".into(),
                        Err(e) => format!("err {}", show_err(&e)),
                    },
                    x => panic!("bad framesocket op {x}"),
                }));
                let (io, wire) = s.get_mut().take_log();
                out.push_str(&format!("io {io}\n"));
                match res {
                    Ok(r) => out.push_str(&format!("res {r}\n")),
                    Err(_) => out.push_str("res panic\n"),
                }
                out.push_str(&format!("wire {wire}\n"));
            }
            x => panic!("bad framesocket line {x:?}"),
        }
    }
}

/// one random `FrameSocket` case
pub fn gen_case(rng: &mut Rng, id: usize) -> Vec<String> {
    let mut lines = vec![format!("case framesocket fs{id}")];
    let inf = 1usize << 40;
    let mut stream: Vec<u8> = Vec::new();
    let mut garbage = false;
    for _ in 0..rng.range(1, 5) {
        let n = *rng.pick(&[0usize, 1, 2, 5, 125, 126, 127, 300, 70000]);
        let mask = if rng.chance(1, 2) { Some(rng.mask()) } else { None };
        let opc = *rng.pick(&[0u8, 1, 2, 8, 9, 10, 2, 1]);
        let p = payload(rng, n);
        let form = if rng.chance(1, 8) {
            // a forced 16-bit length truncates long payloads: what follows is then arbitrary bytes
            garbage = garbage || n > 65535;
            LenForm::Force16
        } else {
            LenForm::Minimal
        };
        stream.extend(enc_frame(rng.chance(3, 4), if rng.chance(1, 10) { rng.below(8) as u8 } else { 0 }, opc, mask, &p, form));
    }
    // `read(None)` means "no limit": a header that announces 2^63 bytes is then the caller's
    // problem (the properties quantify over finite limits), so unlimited reads are only issued on
    // streams without garbage
    match rng.below(8) {
        0 => {
            let n = rng.below(stream.len() + 1);
            stream.truncate(n);
        }
        1 => {
            stream.extend(rng.bytes(3));
            garbage = true;
        }
        2 => stream.extend([0x83u8, 0x00]), // reserved opcode
        _ => {}
    }
    let k = if rng.chance(1, 4) { rng.below(stream.len() + 1) } else { 0 };
    if k > 0 {
        lines.push(format!("fcfg pre={}", hex(&stream[..k])));
    } else {
        lines.push("fcfg pre=none".into());
    }
    if k < stream.len() {
        lines.push(format!("peer {}", hex(&stream[k..])));
    }
    // a large stream is not delivered byte by byte (the transport-call watchdog of the harness)
    let big = stream.len() > 4000;
    let ev = |rng: &mut Rng| -> String {
        let mut rd: Vec<String> = Vec::new();
        for _ in 0..rng.range(0, 6) {
            rd.push(match rng.below(8) {
                0..=3 => format!("d{}", if big { *rng.pick(&[100usize, 999, 4096, 4097]) } else { *rng.pick(&[1usize, 2, 3, 7, 100, 4096]) }),
                4 | 5 => "b".into(),
                6 => format!("d{inf}"),
                _ => (*rng.pick(&["e", "xreset", "xother"])).into(),
            });
        }
        let mut wr: Vec<String> = Vec::new();
        for _ in 0..rng.range(0, 4) {
            wr.push(match rng.below(8) {
                0..=2 => format!("a{}", *rng.pick(&[1usize, 2, 5, 50])),
                3 | 4 => "b".into(),
                5 => "z".into(),
                6 => "xreset".into(),
                _ => format!("a{inf}"),
            });
        }
        let j = |v: &Vec<String>| if v.is_empty() { "-".to_string() } else { v.join(",") };
        format!(
            "script rd={} rddef={} wr={} wrdef={} fl={} fldef=o",
            j(&rd),
            if rng.chance(1, 3) { format!("d{}", if big { *rng.pick(&[64usize, 1000]) } else { *rng.pick(&[1usize, 5, 64]) }) } else { format!("d{inf}") },
            j(&wr),
            if rng.chance(1, 5) { "b".to_string() } else { format!("a{inf}") },
            if rng.chance(1, 4) { "b" } else { "-" }
        )
    };
    for _ in 0..rng.range(2, 12) {
        if rng.chance(1, 3) {
            lines.push(ev(rng));
        }
        let frame = |rng: &mut Rng| -> String {
            let n = *rng.pick(&[0usize, 1, 5, 125, 126, 300]);
            let mask = if rng.chance(1, 2) { hex(&rng.mask()) } else { "-".into() };
            let bits = *rng.pick(&["1000", "0000", "1100", "1000"]);
            let opc = *rng.pick(&[0u8, 1, 2, 8, 9, 10]);
            format!("{bits} {opc} {mask} {}", hex(&payload(rng, n)))
        };
        let l = match rng.below(10) {
            0..=4 => format!(
                "op fread max={}",
                if garbage || rng.chance(1, 3) { format!("{}", *rng.pick(&[0usize, 1, 125, 126, 300, 65536, 1 << 20])) } else { "none".into() }
            ),
            5 | 6 => format!("op fwrite frame {}", frame(rng)),
            7 => format!("op fsend frame {}", frame(rng)),
            _ => "op fflush".into(),
        };
        lines.push(l);
    }
    lines.push("end".into());
    lines
}
