//! wsharness: drives the real tungstenite crate over scripted transports and prints
//! transcripts that the Lean driver replays through the model.
//!
//!   wsharness run <casefile>...          replay input blocks (corpus, replays)
//!   wsharness gen <family> <tier> <seed> generate cases of a family and run them

mod endpoint;
mod fsock;
mod gen;
mod genhs;
mod hs;
mod pipe;
mod pure;
mod transport;
mod twoparty;
mod util;

use std::io::Write;

/// Counting allocator: live and peak bytes, so that a `read` that allocates what a peer merely
/// announces is visible (C06; memory is runtime behaviour the Lean model cannot exhibit).
pub mod mem {
    use std::alloc::{GlobalAlloc, Layout, System};
    use std::sync::atomic::{AtomicUsize, Ordering};
    pub static LIVE: AtomicUsize = AtomicUsize::new(0);
    pub static PEAK: AtomicUsize = AtomicUsize::new(0);
    pub struct Counting;
    unsafe impl GlobalAlloc for Counting {
        unsafe fn alloc(&self, l: Layout) -> *mut u8 {
            let p = System.alloc(l);
            if !p.is_null() {
                let live = LIVE.fetch_add(l.size(), Ordering::Relaxed) + l.size();
                PEAK.fetch_max(live, Ordering::Relaxed);
            }
            p
        }
        unsafe fn dealloc(&self, p: *mut u8, l: Layout) {
            LIVE.fetch_sub(l.size(), Ordering::Relaxed);
            System.dealloc(p, l)
        }
        unsafe fn realloc(&self, p: *mut u8, l: Layout, new: usize) -> *mut u8 {
            let q = System.realloc(p, l, new);
            if !q.is_null() {
                if new >= l.size() {
                    let live = LIVE.fetch_add(new - l.size(), Ordering::Relaxed) + (new - l.size());
                    PEAK.fetch_max(live, Ordering::Relaxed);
                } else {
                    LIVE.fetch_sub(l.size() - new, Ordering::Relaxed);
                }
            }
            q
        }
    }
    /// start measuring: returns the baseline
    pub fn start() -> usize {
        let live = LIVE.load(Ordering::Relaxed);
        PEAK.store(live, Ordering::Relaxed);
        live
    }
    /// peak growth since `start`
    pub fn peak_since(base: usize) -> usize {
        PEAK.load(Ordering::Relaxed).saturating_sub(base)
    }
}

#[global_allocator]
static ALLOC: mem::Counting = mem::Counting;

/// Split a text into case blocks (each ends with a line `end`).
fn split_cases(text: &str) -> Vec<Vec<String>> {
    let mut cases = Vec::new();
    let mut cur: Vec<String> = Vec::new();
    for l in text.lines() {
        let t = l.trim();
        if t.is_empty() || t.starts_with('#') {
            continue;
        }
        // keep only input lines, so that a transcript can be fed back as a replay
        let tag = t.split_whitespace().next().unwrap_or("");
        match tag {
            "io" | "res" | "wire" | "can" | "new" | "mon" | "out" | "parsed" | "uriview" | "reqheaders"
            | "statusline" | "memviol" => continue,
            _ => {}
        }
        if cur.is_empty() && pure::PURE_TAGS.contains(&tag) {
            cases.push(vec![t.to_string()]);
            continue;
        }
        cur.push(t.to_string());
        if t == "end" {
            cases.push(std::mem::take(&mut cur));
        }
    }
    if !cur.is_empty() {
        cur.push("end".into());
        cases.push(cur);
    }
    cases
}

/// The case in progress, for post-mortems: its number (for the hang watchdog) and, when
/// `WSH_PENDING` names a file, its input lines (so that a process that dies inside the crate —
/// allocation failure, stack overflow, endless loop — leaves the input it died on behind).
pub mod pending {
    use std::io::Write;
    use std::sync::atomic::{AtomicU64, Ordering};
    pub static CASE_NO: AtomicU64 = AtomicU64::new(0);
    fn path() -> Option<String> {
        std::env::var("WSH_PENDING").ok()
    }
    pub fn begin(lines: &[String]) {
        CASE_NO.fetch_add(1, Ordering::Relaxed);
        if let Some(p) = path() {
            if let Ok(mut f) = std::fs::File::create(&p) {
                let _ = f.write_all(lines.join("\n").as_bytes());
                let _ = f.write_all(b"\n");
            }
        }
    }
    /// adaptive families learn their input as they go
    pub fn append(line: &str) {
        CASE_NO.fetch_add(1, Ordering::Relaxed);
        if let Some(p) = path() {
            if let Ok(mut f) = std::fs::OpenOptions::new().append(true).create(true).open(&p) {
                let _ = writeln!(f, "{line}");
            }
        }
    }
    /// a case (or one operation of an adaptive case) that runs longer than this is a hang
    pub fn start_watchdog() {
        let secs: u64 = std::env::var("WSH_HANG_SECS").ok().and_then(|s| s.parse().ok()).unwrap_or(60);
        std::thread::spawn(move || {
            let mut last = CASE_NO.load(Ordering::Relaxed);
            let mut since = std::time::Instant::now();
            loop {
                std::thread::sleep(std::time::Duration::from_millis(500));
                let now = CASE_NO.load(Ordering::Relaxed);
                if now != last {
                    last = now;
                    since = std::time::Instant::now();
                } else if now > 0 && since.elapsed().as_secs() >= secs {
                    eprintln!("WATCHDOG: no progress for {secs} s inside one case: the crate hangs on this input");
                    std::process::exit(97);
                }
            }
        });
    }
}

fn run_block(lines: &[String], out: &mut String) {
    pending::begin(lines);
    let fam = lines
        .first()
        .and_then(|l| l.split_whitespace().nth(1))
        .unwrap_or("endpoint")
        .to_string();
    let tag = lines.first().and_then(|l| l.split_whitespace().next()).unwrap_or("");
    if pure::PURE_TAGS.contains(&tag) {
        out.push_str(&lines[0]);
        out.push('\n');
        out.push_str(&pure::eval(&lines[0]));
        out.push('\n');
        return;
    }
    match fam.as_str() {
        "hs-server" | "hs-client" => hs::run_case(lines, out),
        "twoparty" => twoparty::run_case(lines, out),
        "framesocket" => fsock::run_case(lines, out),
        _ => endpoint::run_case(lines, out),
    }
}

fn main() {
    if std::env::var("WSH_PANIC_TRACE").is_err() {
        std::panic::set_hook(Box::new(|_| {}));
    }
    let args: Vec<String> = std::env::args().collect();
    pending::start_watchdog();
    let stdout = std::io::stdout();
    let mut so = std::io::BufWriter::new(stdout.lock());
    match args.get(1).map(|s| s.as_str()) {
        Some("run") => {
            for f in &args[2..] {
                let text = std::fs::read_to_string(f).expect("read case file");
                for c in split_cases(&text) {
                    let mut out = String::new();
                    run_block(&c, &mut out);
                    so.write_all(out.as_bytes()).unwrap();
                }
            }
        }
        Some("gen") => {
            // gen <family> <count> <seed>
            let fam = args[2].clone();
            let count: usize = args[3].parse().expect("count");
            let seed: u64 = args[4].parse().expect("seed");
            let mut rng = util::Rng::new(seed);
            if fam == "ep:slotrace" {
                for c in gen::gen_slotrace() {
                    let mut out = String::new();
                    run_block(&c, &mut out);
                    so.write_all(out.as_bytes()).unwrap();
                }
            } else if fam == "ep:exhaustive" {
                // `count` is the depth
                for c in gen::gen_exhaustive(count) {
                    let mut out = String::new();
                    run_block(&c, &mut out);
                    so.write_all(out.as_bytes()).unwrap();
                }
            } else if fam == "ep:wbound" {
                for c in gen::gen_wbound(&mut rng) {
                    let mut out = String::new();
                    run_block(&c, &mut out);
                    so.write_all(out.as_bytes()).unwrap();
                }
            } else if fam == "ep:cfglive" {
                for c in gen::gen_cfglive(&mut rng, count) {
                    let mut out = String::new();
                    run_block(&c, &mut out);
                    so.write_all(out.as_bytes()).unwrap();
                }
            } else if fam == "hs:cuts" {
                for c in genhs::gen_cuts(&mut rng) {
                    let mut out = String::new();
                    run_block(&c, &mut out);
                    so.write_all(out.as_bytes()).unwrap();
                }
            } else if fam == "ep:utf8cuts" {
                for c in gen::gen_utf8cuts(&mut rng) {
                    let mut out = String::new();
                    run_block(&c, &mut out);
                    so.write_all(out.as_bytes()).unwrap();
                }
            } else if fam == "ep:maskpaths" {
                for c in gen::gen_maskpaths(&mut rng) {
                    let mut out = String::new();
                    run_block(&c, &mut out);
                    so.write_all(out.as_bytes()).unwrap();
                }
            } else if let (Some(prof), false) = (fam.strip_prefix("ep:"), fam == "ep:pipe" || fam == "ep:exhaustive" || fam == "ep:maskpaths" || fam == "ep:slotrace" || fam == "ep:utf8cuts" || fam == "ep:wbound" || fam == "ep:cfglive") {
                let prof = gen::profile_of(prof);
                for i in 0..count {
                    let mut r = rng.fork();
                    let c = gen::gen_endpoint(&mut r, prof, i);
                    let mut out = String::new();
                    run_block(&c, &mut out);
                    so.write_all(out.as_bytes()).unwrap();
                }
            } else if fam == "fs" {
                for i in 0..count {
                    let mut r = rng.fork();
                    let c = fsock::gen_case(&mut r, i);
                    let mut out = String::new();
                    run_block(&c, &mut out);
                    so.write_all(out.as_bytes()).unwrap();
                }
            } else if fam == "tp" {
                for i in 0..count {
                    let mut r = rng.fork();
                    let mut out = String::new();
                    twoparty::gen_and_run(&mut r, i, &mut out);
                    so.write_all(out.as_bytes()).unwrap();
                }
            } else if fam == "ep:pipe" {
                for i in 0..count {
                    let mut r = rng.fork();
                    let (a, b) = pipe::gen_pipe(&mut r, i);
                    for c in [a, b] {
                        let mut out = String::new();
                        run_block(&c, &mut out);
                        so.write_all(out.as_bytes()).unwrap();
                    }
                }
            } else if fam == "hs:server" || fam == "hs:client" {
                for i in 0..count {
                    let mut r = rng.fork();
                    let c = if fam == "hs:server" { genhs::gen_server(&mut r, i) } else { genhs::gen_client(&mut r, i) };
                    let mut out = String::new();
                    run_block(&c, &mut out);
                    so.write_all(out.as_bytes()).unwrap();
                }
            } else if let Some(pf) = fam.strip_prefix("pure:") {
                for l in pure::generate(pf, count, &mut rng) {
                    let mut out = String::new();
                    run_block(&[l], &mut out);
                    so.write_all(out.as_bytes()).unwrap();
                }
            } else {
                eprintln!("unknown family {fam}");
                std::process::exit(2);
            }
        }
        _ => {
            eprintln!("usage: wsharness run <file>... | gen <family> <tier> <seed>");
            std::process::exit(2);
        }
    }
}
