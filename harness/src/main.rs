//! wsharness: drives the real tungstenite crate over scripted transports and prints
//! transcripts that the Lean driver replays through the model.
//!
//!   wsharness run <casefile>...          replay input blocks (corpus, replays)
//!   wsharness gen <family> <tier> <seed> generate cases of a family and run them

mod endpoint;
mod transport;
mod util;

use std::io::Write;

/// Split a text into case blocks (each ends with a line `end`).
fn split_cases(text: &str) -> Vec<Vec<String>> {
    let mut cases = Vec::new();
    let mut cur: Vec<String> = Vec::new();
    for l in text.lines() {
        let t = l.trim();
        if t.is_empty() || t.starts_with('#') {
            continue;
        }
        // keep only input lines, so that a transcript can be fed back as a replay
        let tag = t.split_whitespace().next().unwrap_or("");
        match tag {
            "io" | "res" | "wire" | "can" | "new" | "mon" | "out" => continue,
            _ => {}
        }
        cur.push(t.to_string());
        if t == "end" {
            cases.push(std::mem::take(&mut cur));
        }
    }
    if !cur.is_empty() {
        cur.push("end".into());
        cases.push(cur);
    }
    cases
}

fn run_block(lines: &[String], out: &mut String) {
    let fam = lines
        .first()
        .and_then(|l| l.split_whitespace().nth(1))
        .unwrap_or("endpoint")
        .to_string();
    match fam.as_str() {
        _ => endpoint::run_case(lines, out),
    }
}

fn main() {
    std::panic::set_hook(Box::new(|_| {}));
    let args: Vec<String> = std::env::args().collect();
    let stdout = std::io::stdout();
    let mut so = std::io::BufWriter::new(stdout.lock());
    match args.get(1).map(|s| s.as_str()) {
        Some("run") => {
            for f in &args[2..] {
                let text = std::fs::read_to_string(f).expect("read case file");
                for c in split_cases(&text) {
                    let mut out = String::new();
                    run_block(&c, &mut out);
                    so.write_all(out.as_bytes()).unwrap();
                }
            }
        }
        _ => {
            eprintln!("usage: wsharness run <file>... | gen <family> <tier> <seed>");
            std::process::exit(2);
        }
    }
}
