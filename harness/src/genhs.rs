//! Generators for handshake cases (server and client).

use crate::util::{enc_frame, hex, LenForm, Rng};

fn hx(s: &str) -> String {
    hex(s.as_bytes())
}

fn rand_case(rng: &mut Rng, s: &str) -> String {
    s.chars()
        .map(|c| if rng.chance(1, 2) { c.to_ascii_uppercase() } else { c.to_ascii_lowercase() })
        .collect()
}

const KEYS: &[&str] = &["dGhlIHNhbXBsZSBub25jZQ==", "", "x", "AAAAAAAAAAAAAAAAAAAAAA==", "not base64 at all!", "dGhlIHNhbXBsZSBub25jZQ"];

fn scripts(rng: &mut Rng, total: usize) -> String {
    let mut rd: Vec<String> = Vec::new();
    match rng.below(5) {
        0 => {}
        1 => {
            // 1-byte drip for a while
            for _ in 0..rng.range(1, 70) {
                rd.push("d1".into());
                if rng.chance(1, 10) {
                    rd.push("b".into());
                }
            }
        }
        _ => {
            let mut left = total;
            while left > 0 && rd.len() < 64 {
                let k = rng.range(1, left.min(80));
                rd.push(format!("d{k}"));
                left -= k;
                if rng.chance(1, 4) {
                    rd.push("b".into());
                }
            }
        }
    }
    let mut wr: Vec<String> = Vec::new();
    let many = rng.chance(1, 4);
    for _ in 0..(if many { rng.range(8, 40) } else { rng.range(0, 4) }) {
        wr.push(match rng.below(8) {
            0..=2 => format!("a{}", rng.range(1, 40)),
            3 | 4 => "b".into(),
            5 => "z".into(),
            6 => "xreset".into(),
            _ => format!("a{}", 1usize << 40),
        });
    }
    let mut fl: Vec<String> = Vec::new();
    for _ in 0..rng.range(0, 2) {
        fl.push(if rng.chance(3, 4) { "b" } else { "xother" }.into());
    }
    let j = |v: &Vec<String>| if v.is_empty() { "-".to_string() } else { v.join(",") };
    let rddef = if rng.chance(1, 8) { "e".to_string() } else { format!("d{}", 1usize << 40) };
    // sometimes every write is short
    let wrdef = if rng.chance(1, 4) { format!("a{}", rng.range(1, 90)) } else if rng.chance(1, 12) { "z".to_string() } else { format!("a{}", 1usize << 40) };
    // sometimes the transport never gets flushed
    let fldef = if rng.chance(1, 12) { "b" } else { "o" };
    format!("script rd={} rddef={} wr={} wrdef={} fl={} fldef={fldef}", j(&rd), rddef, j(&wr), wrdef, j(&fl))
}

pub fn gen_server(rng: &mut Rng, id: usize) -> Vec<String> {
    let mut lines = vec![format!("case hs-server s{id}")];
    // headers a callback adds: sometimes several values under one name, sometimes a name the
    // library's own response already carries
    let multi = |rng: &mut Rng| -> String {
        let names = ["Sec-WebSocket-Protocol", "X-Tag", "x-tag", "Set-Cookie", "Connection", "Vary"];
        let n = rng.range(2, 5);
        let mut v = Vec::new();
        for i in 0..n {
            let name = *rng.pick(&names[..]);
            v.push(format!("{}={}", hx(name), hx(&format!("v{i}"))));
        }
        v.join(",")
    };
    let cb = match rng.below(14) {
        0 => format!("accept:{}={}", hx("Sec-WebSocket-Protocol"), hx("chat")),
        1 => format!("reject:{}:{}:{}={}", *rng.pick(&[400u16, 403, 404, 500]), hx("nope"), hx("x-why"), hx("because")),
        2 => format!("reject:{}:none:-", *rng.pick(&[200u16, 204, 301, 404])),
        3 => format!("accept:{}", multi(rng)),
        4 => format!("reject:{}:{}:{}", *rng.pick(&[300u16, 302, 307, 401, 403, 503]), if rng.chance(1, 2) { hx("body") } else { "none".into() }, multi(rng)),
        _ => "none".into(),
    };
    lines.push(format!("hcfg callback={cb}"));
    // the head
    let method = match rng.below(12) {
        0 => "POST",
        1 => "get",
        2 => "GETX",
        _ => "GET",
    };
    let version = match rng.below(12) {
        0 => "HTTP/1.0",
        1 => "HTTP/2.0",
        2 => "HTTP/1.2",
        _ => "HTTP/1.1",
    };
    let path = *rng.pick(&["/", "/chat", "/a?b=c", "*", "http://x/y", "/sp%20ace"]);
    let conn = match rng.below(14) {
        0 => "upgrade",
        1 => "keep-alive, Upgrade",
        2 => "UPGRADE",
        3 => "Upgrade, foo",
        4 => "Upgrad",
        5 => "keep-alive",
        6 => "Upgrade2",
        7 => "foo,upgrade,bar",
        8 => "",
        _ => "Upgrade",
    };
    let upg = match rng.below(12) {
        0 => "WebSocket",
        1 => "WEBSOCKET",
        2 => "websocket2",
        3 => "web socket",
        4 => "websocke",
        5 => "",
        _ => "websocket",
    };
    let ver = match rng.below(12) {
        0 => "12",
        1 => "13 ",
        2 => "013",
        3 => "13,8",
        4 => "",
        _ => "13",
    };
    let key = if rng.chance(1, 4) { *rng.pick(KEYS) } else { "dGhlIHNhbXBsZSBub25jZQ==" };
    let mut hs: Vec<(String, String)> = vec![
        ("Host".into(), "example.com".into()),
        ("Connection".into(), conn.into()),
        ("Upgrade".into(), upg.into()),
        ("Sec-WebSocket-Version".into(), ver.into()),
        ("Sec-WebSocket-Key".into(), key.into()),
    ];
    // drop one
    if rng.chance(1, 6) {
        let k = rng.below(hs.len());
        hs.remove(k);
    }
    // duplicate one with another value (the first one counts)
    if rng.chance(1, 6) && !hs.is_empty() {
        let k = rng.below(hs.len());
        let (n, _) = hs[k].clone();
        let at = rng.below(hs.len() + 1);
        hs.insert(at, (n, "other".into()));
    }
    // extra headers
    let nextra = match rng.below(12) {
        0 => 125,
        1 => 119,
        2 | 3 => rng.range(1, 3),
        _ => 0,
    };
    for i in 0..nextra {
        let at = rng.below(hs.len() + 1);
        hs.insert(at, (format!("X-Extra-{i}"), format!("v{i}")));
    }
    // shuffle and random case
    if rng.chance(1, 2) {
        for i in (1..hs.len()).rev() {
            let j = rng.below(i + 1);
            hs.swap(i, j);
        }
    }
    let eol = if rng.chance(1, 10) { "\n" } else { "\r\n" };
    let mut head = format!("{method} {path} {version}{eol}");
    for (n, v) in &hs {
        let n = if rng.chance(1, 2) { rand_case(rng, n) } else { n.clone() };
        let sep = if rng.chance(1, 8) { ":" } else { ": " };
        head.push_str(&format!("{n}{sep}{v}{eol}"));
    }
    head.push_str(eol);
    let mut bytes = head.into_bytes();
    // byte-level mutation
    if rng.chance(1, 8) && !bytes.is_empty() {
        let at = rng.below(bytes.len());
        match rng.below(3) {
            0 => bytes[at] ^= 1 << rng.below(8),
            1 => {
                bytes.remove(at);
            }
            _ => bytes.insert(at, rng.next() as u8),
        }
    }
    // truncated or endless heads
    let mut boundary_script: Option<String> = None;
    match rng.below(16) {
        0 => {
            let n = rng.below(bytes.len());
            bytes.truncate(n);
        }
        1 => {
            bytes = b"GET / HTTP/1.1\r\nX: ".to_vec();
            bytes.extend(std::iter::repeat(b'a').take(70000));
            // reads at the boundary of the small-packet rule: 128-byte reads never trip it,
            // 127-byte reads trip it at the 65th read, a mix decides by the average
            if rng.chance(1, 2) {
                // one case in three reads exactly 128 bytes every time (the average sits on the bound),
                // one in three alternates 129 / 127 (on the bound after every second read)
                let mode = rng.below(3);
                let rd: Vec<String> = (0..rng.range(60, 90))
                    .map(|i| match if mode == 0 { 0 } else if mode == 1 { 2 } else { rng.below(3) } {
                        0 => "d128".to_string(),
                        1 => "d127".to_string(),
                        _ => if i % 2 == 0 { "d129".to_string() } else { "d127".to_string() },
                    })
                    .collect();
                if mode <= 1 {
                    // keep these cases short: the stream ends soon after the scripted reads
                    bytes.truncate(128 * rd.len() + 300);
                }
                boundary_script = Some(format!(
                    "script rd={} rddef=d{} wr=- wrdef=a{} fl=- fldef=o",
                    rd.join(","),
                    if mode == 0 { 4096 } else { *rng.pick(&[127usize, 128, 4096]) },
                    1usize << 40
                ));
            }
        }
        _ => {}
    }
    // bytes following the head
    if rng.chance(1, 5) {
        bytes.extend(enc_frame(true, 0, 1, Some(rng.mask()), b"hi", LenForm::Minimal));
    }
    lines.push(format!("peer {}", hex(&bytes)));
    if let Some(b) = boundary_script {
        lines.push(b);
    } else if rng.chance(2, 3) {
        lines.push(scripts(rng, bytes.len()));
    }
    lines.push("op accept m=-".into());
    for _ in 0..rng.range(2, 14) {
        lines.push("op resume m=-".into());
    }
    // frames in a later segment reach the socket
    if rng.chance(1, 3) {
        lines.push(format!("peer {}", hex(&enc_frame(true, 0, 2, Some(rng.mask()), &[1, 2, 3], LenForm::Minimal))));
        lines.push("script rd=- rddef=d1099511627776".into());
        lines.push("op read m=-".into());
    }
    lines.push("end".into());
    lines
}

pub fn gen_client(rng: &mut Rng, id: usize) -> Vec<String> {
    let mut lines = vec![format!("case hs-client c{id}")];
    let uri = *rng.pick(&[
        "ws://example.com/",
        "ws://example.com:8080/a?b=c",
        "ws://user:pw@example.com/x",
        "ws://user:p@ss@example.com:80/x",
        "ws://a@b@c@host.example/",
        "wss://secure.example/chat",
        "http://example.com/",
        "ws://example.com",
        "/relative/only",
        "ws://[::1]:9001/v6",
        "ws://user@/x",
        "ws://@example.com/",
        "not a uri at all",
    ]);
    let protos: Vec<&str> = match rng.below(5) {
        0 => vec!["chat"],
        1 => vec!["chat", "superchat"],
        _ => vec![],
    };
    if rng.chance(1, 6) {
        // a hand-made request: subsets and duplicates of the required headers
        let mut hs: Vec<(&str, &str)> = vec![
            ("Host", "example.com"),
            ("Connection", "Upgrade"),
            ("Upgrade", "websocket"),
            ("Sec-WebSocket-Version", "13"),
            ("Sec-WebSocket-Key", "dGhlIHNhbXBsZSBub25jZQ=="),
        ];
        if rng.chance(1, 3) {
            let k = rng.below(hs.len());
            hs.remove(k);
        }
        if rng.chance(1, 2) {
            let k = rng.below(hs.len());
            let dup = (hs[k].0, "dup");
            let at = rng.below(hs.len() + 1);
            hs.insert(at, dup);
        }
        for e in [("Origin", "http://o"), ("X-A", "1"), ("X-B", "2"), ("Sec-WebSocket-Protocol", "chat, other")] {
            if rng.chance(1, 3) {
                let at = rng.below(hs.len() + 1);
                hs.insert(at, e);
            }
        }
        let l: Vec<String> = hs.iter().map(|(n, v)| format!("{}={}", hx(n), hx(v))).collect();
        // the caller's request object may carry another method or HTTP version
        let cm = if rng.chance(1, 8) { " cmethod=POST" } else { "" };
        let cv = match rng.below(8) {
            0 => " cversion=10",
            1 => " cversion=20",
            _ => "",
        };
        lines.push(format!("hcfg uri={} custom={}{cm}{cv}", hx("ws://example.com/custom"), l.join(",")));
    } else {
        let mut extra: Vec<String> = Vec::new();
        for e in [("Origin", "http://o"), ("X-Foo", "bar"), ("x-lower", "1"), ("Authorization", "Basic abc")] {
            if rng.chance(1, 4) {
                extra.push(format!("{}={}", hx(e.0), hx(e.1)));
            }
        }
        // extra headers named like the ones the library generates itself
        for e in [
            ("Host", "evil.example"),
            ("sec-websocket-key", "AAAAAAAAAAAAAAAAAAAAAA=="),
            ("Connection", "keep-alive"),
            ("UPGRADE", "h2c"),
            ("Sec-WebSocket-Version", "8"),
        ] {
            if rng.chance(1, 12) {
                extra.push(format!("{}={}", hx(e.0), hx(e.1)));
            }
        }
        lines.push(format!(
            "hcfg uri={} extra={} protos={}",
            hx(uri),
            if extra.is_empty() { "-".into() } else { extra.join(",") },
            if protos.is_empty() { "-".into() } else { protos.iter().map(|p| hx(p)).collect::<Vec<_>>().join(",") }
        ));
    }
    // now and then a configuration whose read buffer is smaller than what arrives with the head
    if rng.chance(1, 5) {
        lines.push(format!(
            "cfg role=client rbuf={} wbuf=0 maxw=inf maxmsg=1048576 maxframe=1048576 unmasked=0 pre=none",
            *rng.pick(&[1usize, 7, 50, 300, 4096])
        ));
    }
    // the response: prefix ++ accept ++ suffix
    let status = match rng.below(10) {
        0 => "HTTP/1.1 200 OK",
        1 => "HTTP/1.1 404 Not Found",
        2 => "HTTP/1.0 101 Switching Protocols",
        3 => "HTTP/1.1 302 Found",
        _ => "HTTP/1.1 101 Switching Protocols",
    };
    let upg = match rng.below(10) {
        0 => None,
        1 => Some("WebSocket"),
        2 => Some("websocket2"),
        _ => Some("websocket"),
    };
    let conn = match rng.below(10) {
        0 => None,
        1 => Some("upgrade"),
        2 => Some("keep-alive, Upgrade"),
        _ => Some("Upgrade"),
    };
    let proto = match rng.below(8) {
        0 => Some("chat"),
        1 => Some("superchat"),
        2 => Some(*rng.pick(&["unknown", "hat", "super", "chat, superchat", ","])),
        _ => {
            if protos.is_empty() || rng.chance(1, 5) {
                None
            } else {
                Some(protos[0])
            }
        }
    };
    let mut pre = format!("{status}\r\n");
    if let Some(u) = upg {
        pre.push_str(&format!("Upgrade: {u}\r\n"));
    }
    if let Some(c) = conn {
        pre.push_str(&format!("Connection: {c}\r\n"));
    }
    if let Some(p) = proto {
        pre.push_str(&format!("Sec-WebSocket-Protocol: {p}\r\n"));
    }
    let with_accept = !rng.chance(1, 12);
    let mut suf = String::new();
    if with_accept {
        pre.push_str("Sec-WebSocket-Accept: ");
        suf.push_str("\r\n");
    }
    suf.push_str("\r\n");
    let mut suffix = suf.into_bytes();
    // frame bytes arriving together with the head
    let ntail = rng.below(3);
    for _ in 0..ntail {
        // now and then the frames that arrive with the head are longer than the head itself
        let n = if rng.chance(1, 3) { rng.range(100, 400) } else { rng.below(6) };
        suffix.extend(enc_frame(true, 0, 2, None, &rng.bytes(n), LenForm::Minimal));
    }
    let mutate = match rng.below(12) {
        0 | 1 => format!(" mut={}", rng.below(28)),
        // differs from the expected value only in the case of one letter (the comparison is exact)
        2 | 3 => format!(" mutcase={}", rng.below(28)),
        _ => String::new(),
    };
    lines.push(format!(
        "peerkey {} {} accept={}{}",
        hex(pre.as_bytes()),
        hex(&suffix),
        with_accept as u8,
        mutate
    ));
    if rng.chance(2, 3) {
        lines.push(scripts(rng, pre.len() + 28 + suffix.len()));
    }
    let m = format!("m={},{},{}", hex(&rng.mask()), hex(&rng.mask()), hex(&rng.mask()));
    lines.push("op client m=-".into());
    for _ in 0..rng.range(2, 10) {
        lines.push("op resume m=-".into());
    }
    lines.push("script rd=- rddef=d1099511627776 wr=- wrdef=a1099511627776 fl=- fldef=o".into());
    for _ in 0..ntail + 1 {
        lines.push(format!("op read {m}"));
    }
    lines.push("end".into());
    lines
}

/// Every two-way cut (with and without a WouldBlock in between) of one valid request and of one
/// valid response followed by frame bytes, plus three-way cuts around the empty line.
pub fn gen_cuts(rng: &mut Rng) -> Vec<Vec<String>> {
    let mut cases = Vec::new();
    let inf = 1usize << 40;
    // ---- server
    let head = "GET /chat HTTP/1.1\r\nHost: example.com\r\nUpgrade: websocket\r\nConnection: Upgrade\r\nSec-WebSocket-Key: dGhlIHNhbXBsZSBub25jZQ==\r\nSec-WebSocket-Version: 13\r\n\r\n";
    let hb = head.as_bytes().to_vec();
    let mut id = 0;
    let mut server_case = |rd: String, cases: &mut Vec<Vec<String>>, rng: &mut Rng, id: &mut usize| {
        let mut lines = vec![format!("case hs-server cut{}", *id)];
        *id += 1;
        lines.push("hcfg callback=none".into());
        lines.push(format!("peer {}", hex(&hb)));
        lines.push(format!("script rd={rd} rddef=d{inf} wr=- wrdef=a{inf} fl=- fldef=o"));
        lines.push("op accept m=-".into());
        for _ in 0..4 {
            lines.push("op resume m=-".into());
        }
        lines.push(format!("peer {}", hex(&enc_frame(true, 0, 2, Some(rng.mask()), &[1, 2, 3], LenForm::Minimal))));
        lines.push("op read m=-".into());
        lines.push("end".into());
        cases.push(lines);
    };
    for k in 1..hb.len() {
        server_case(format!("d{k}"), &mut cases, rng, &mut id);
        if k % 3 == 0 || k < 8 || k + 8 > hb.len() {
            server_case(format!("d{k},b"), &mut cases, rng, &mut id);
        }
    }
    for a in (hb.len() - 6)..hb.len() {
        for b in 1..(hb.len() - a) {
            server_case(format!("d{a},d{b}"), &mut cases, rng, &mut id);
            server_case(format!("d{a},b,d{b},b"), &mut cases, rng, &mut id);
        }
    }
    // one byte at a time until the end of the first line, then the rest
    server_case(format!("{}", vec!["d1"; 20].join(",")), &mut cases, rng, &mut id);
    // ---- client: the head is followed by frames in the same segment
    let pre = "HTTP/1.1 101 Switching Protocols\r\nUpgrade: websocket\r\nConnection: Upgrade\r\nSec-WebSocket-Accept: ";
    for tail_len in [3usize, 10] {
        let mut suffix = b"\r\n\r\n".to_vec();
        suffix.extend(enc_frame(true, 0, 2, None, &rng.bytes(tail_len), LenForm::Minimal));
        suffix.extend(enc_frame(true, 0, 1, None, b"ok", LenForm::Minimal));
        let total = pre.len() + 28 + suffix.len();
        let m = format!("m={},{},{}", hex(&rng.mask()), hex(&rng.mask()), hex(&rng.mask()));
        for k in 1..total {
            for with_block in [false, true] {
                if with_block && !(k % 4 == 0 || k + 24 > total) {
                    continue;
                }
                let mut lines = vec![format!("case hs-client cut{id}")];
                id += 1;
                lines.push(format!("hcfg uri={} extra=- protos=-", hx("ws://example.com/")));
                lines.push(format!("peerkey {} {} accept=1", hex(pre.as_bytes()), hex(&suffix)));
                lines.push(format!(
                    "script rd=d{k}{} rddef=d{inf} wr=- wrdef=a{inf} fl=- fldef=o",
                    if with_block { ",b" } else { "" }
                ));
                lines.push("op client m=-".into());
                for _ in 0..3 {
                    lines.push("op resume m=-".into());
                }
                lines.push(format!("op read {m}"));
                lines.push(format!("op read {m}"));
                lines.push(format!("op read {m}"));
                lines.push("end".into());
                cases.push(lines);
            }
        }
    }
    cases
}
