//! Small helpers: hex, a deterministic PRNG, an independent frame encoder.

pub fn hex(b: &[u8]) -> String {
    if b.is_empty() {
        return "-".to_string();
    }
    const D: &[u8; 16] = b"0123456789abcdef";
    let mut s = String::with_capacity(b.len() * 2);
    for &x in b {
        s.push(D[(x >> 4) as usize] as char);
        s.push(D[(x & 15) as usize] as char);
    }
    s
}

pub fn unhex(s: &str) -> Vec<u8> {
    if s == "-" {
        return Vec::new();
    }
    let b = s.as_bytes();
    assert!(b.len() % 2 == 0, "odd hex string {s:?}");
    let v = |c: u8| -> u8 {
        match c {
            b'0'..=b'9' => c - b'0',
            b'a'..=b'f' => c - b'a' + 10,
            b'A'..=b'F' => c - b'A' + 10,
            _ => panic!("bad hex digit in {s:?}"),
        }
    };
    b.chunks(2).map(|p| (v(p[0]) << 4) | v(p[1])).collect()
}

/// splitmix64: every random choice of the harness derives from one of these.
#[derive(Clone)]
pub struct Rng(pub u64);

impl Rng {
    pub fn new(seed: u64) -> Self {
        Rng(seed ^ 0x9E37_79B9_7F4A_7C15)
    }
    pub fn next(&mut self) -> u64 {
        self.0 = self.0.wrapping_add(0x9E37_79B9_7F4A_7C15);
        let mut z = self.0;
        z = (z ^ (z >> 30)).wrapping_mul(0xBF58_476D_1CE4_E5B9);
        z = (z ^ (z >> 27)).wrapping_mul(0x94D0_49BB_1331_11EB);
        z ^ (z >> 31)
    }
    /// uniform in 0..n (n > 0)
    pub fn below(&mut self, n: usize) -> usize {
        (self.next() % (n as u64)) as usize
    }
    pub fn range(&mut self, lo: usize, hi_incl: usize) -> usize {
        lo + self.below(hi_incl - lo + 1)
    }
    pub fn chance(&mut self, num: usize, den: usize) -> bool {
        self.below(den) < num
    }
    pub fn pick<'a, T>(&mut self, xs: &'a [T]) -> &'a T {
        &xs[self.below(xs.len())]
    }
    pub fn bytes(&mut self, n: usize) -> Vec<u8> {
        (0..n).map(|_| self.next() as u8).collect()
    }
    pub fn mask(&mut self) -> [u8; 4] {
        let x = self.next();
        // now and then the all-zero key, or a key with zero bytes (valid keys like any other)
        match (x >> 32) % 24 {
            0 => [0, 0, 0, 0],
            1 => [x as u8, 0, 0, (x >> 24) as u8],
            2 => [0, (x >> 8) as u8, 0, 0],
            _ => [x as u8, (x >> 8) as u8, (x >> 16) as u8, (x >> 24) as u8],
        }
    }
    pub fn fork(&mut self) -> Rng {
        Rng(self.next())
    }
}

#[derive(Clone, Copy, PartialEq, Debug)]
pub enum LenForm {
    Minimal,
    Force16,
    Force64,
}

/// Independent RFC 6455 frame encoder (shares nothing with the crate under test).
pub fn enc_frame(
    fin: bool,
    rsv: u8,
    opcode: u8,
    mask: Option<[u8; 4]>,
    payload: &[u8],
    form: LenForm,
) -> Vec<u8> {
    let mut out = Vec::with_capacity(payload.len() + 14);
    out.push((if fin { 0x80 } else { 0 }) | ((rsv & 7) << 4) | (opcode & 15));
    let m = if mask.is_some() { 0x80u8 } else { 0 };
    let n = payload.len();
    let form = match form {
        LenForm::Minimal => {
            if n < 126 {
                LenForm::Minimal
            } else if n < 65536 {
                LenForm::Force16
            } else {
                LenForm::Force64
            }
        }
        f => f,
    };
    match form {
        LenForm::Minimal => out.push(m | n as u8),
        LenForm::Force16 => {
            out.push(m | 126);
            out.extend_from_slice(&(n as u16).to_be_bytes());
        }
        LenForm::Force64 => {
            out.push(m | 127);
            out.extend_from_slice(&(n as u64).to_be_bytes());
        }
    }
    if let Some(k) = mask {
        out.extend_from_slice(&k);
        out.extend(payload.iter().enumerate().map(|(i, b)| b ^ k[i & 3]));
    } else {
        out.extend_from_slice(payload);
    }
    out
}

/// Header only, announcing `len` without payload.
pub fn enc_header(fin: bool, rsv: u8, opcode: u8, mask: Option<[u8; 4]>, len: u64) -> Vec<u8> {
    let mut out = Vec::new();
    out.push((if fin { 0x80 } else { 0 }) | ((rsv & 7) << 4) | (opcode & 15));
    let m = if mask.is_some() { 0x80u8 } else { 0 };
    if len < 126 {
        out.push(m | len as u8);
    } else if len < 65536 {
        out.push(m | 126);
        out.extend_from_slice(&(len as u16).to_be_bytes());
    } else {
        out.push(m | 127);
        out.extend_from_slice(&len.to_be_bytes());
    }
    if let Some(k) = mask {
        out.extend_from_slice(&k);
    }
    out
}
