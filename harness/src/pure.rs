//! Pure families: one evaluation per line, `out ...` lines carry what the real crate computed.

use crate::endpoint::show_err;
use crate::transport::Mock;
use crate::util::{hex, unhex, Rng};
use bytes::Bytes;
use std::io::Cursor;
use std::panic::{catch_unwind, AssertUnwindSafe};
use tungstenite::protocol::frame::coding::{CloseCode, OpCode};
use tungstenite::protocol::frame::{verif_hook, Frame, FrameHeader, FrameSocket};

fn parse_header_toks(bits: &str, opcode: &str, mask: &str) -> Option<FrameHeader> {
    let b = bits.as_bytes();
    let op: u8 = opcode.parse().ok()?;
    let opcode = catch_unwind(|| OpCode::from(op)).ok()?;
    let mask = match mask {
        "-" => None,
        h => {
            let m = unhex(h);
            Some([m[0], m[1], m[2], m[3]])
        }
    };
    Some(FrameHeader {
        is_final: b[0] == b'1',
        rsv1: b[1] == b'1',
        rsv2: b[2] == b'1',
        rsv3: b[3] == b'1',
        opcode,
        mask,
    })
}

pub fn show_header(h: &FrameHeader) -> String {
    format!(
        "{}{}{}{} {} {}",
        h.is_final as u8,
        h.rsv1 as u8,
        h.rsv2 as u8,
        h.rsv3 as u8,
        u8::from(h.opcode),
        match h.mask {
            Some(m) => hex(&m),
            None => "-".into(),
        }
    )
}

/// Evaluate one pure line; returns the `out ...` line.
pub fn eval(line: &str) -> String {
    let t: Vec<&str> = line.split_whitespace().collect();
    match t[0] {
        "closecode" => {
            let n: u16 = t[1].parse().unwrap();
            let c = CloseCode::from(n);
            let back: u16 = c.into();
            let again = CloseCode::from(back);
            format!(
                "out {} {} {} {}",
                format!("{c:?}").replace(' ', ""),
                back,
                c.is_allowed() as u8,
                (again == c) as u8
            )
        }
        "opcode" => {
            let n: u8 = t[1].parse().unwrap();
            match catch_unwind(|| OpCode::from(n)) {
                Ok(op) => format!("out {} {}", format!("{op:?}").replace(' ', ""), u8::from(op)),
                Err(_) => "out panic".into(),
            }
        }
        "hparse" => {
            let bytes = unhex(t[1]);
            let mut cur = Cursor::new(&bytes);
            let r = catch_unwind(AssertUnwindSafe(|| FrameHeader::parse(&mut cur)));
            match r {
                Ok(Ok(Some((h, len)))) => {
                    format!("out hdr {} {} {}", show_header(&h), len, cur.position())
                }
                Ok(Ok(None)) => format!("out incomplete {}", cur.position()),
                Ok(Err(e)) => format!("out err {}", show_err(&e)),
                Err(_) => "out panic".into(),
            }
        }
        "hparseat" => {
            // hparseat <k> <hex>: the cursor stands at position k when parse is called
            let k: u64 = t[1].parse().unwrap();
            let bytes = unhex(t[2]);
            let mut cur = Cursor::new(&bytes);
            cur.set_position(k);
            let r = catch_unwind(AssertUnwindSafe(|| FrameHeader::parse(&mut cur)));
            match r {
                Ok(Ok(Some((h, len)))) => {
                    format!("out hdr {} {} {}", show_header(&h), len, cur.position())
                }
                Ok(Ok(None)) => format!("out incomplete {}", cur.position()),
                Ok(Err(e)) => format!("out err {}", show_err(&e)),
                Err(_) => "out panic".into(),
            }
        }
        "hformat" => {
            // hformat <bits> <opcode> <mask|-> <len>
            let len: u64 = t[4].parse().unwrap();
            match parse_header_toks(t[1], t[2], t[3]) {
                None => "out badheader".into(),
                Some(h) => {
                    let mut out = Vec::new();
                    h.format(len, &mut out).unwrap();
                    format!("out {} {}", hex(&out), h.len(len))
                }
            }
        }
        "fformat" => {
            // fformat <bits> <opcode> <mask|-> <payload> <bits2> <opcode2> <mask2|-> <payload2>
            // first frame is written while the transport blocks, so the second one is
            // encoded (and masked in place) behind it in the shared write buffer
            let h1 = parse_header_toks(t[1], t[2], t[3]);
            let h2 = parse_header_toks(t[5], t[6], t[7]);
            match (h1, h2) {
                (Some(h1), Some(h2)) => {
                    let f1 = Frame::from_payload(h1, Bytes::from(unhex(t[4])));
                    let f2 = Frame::from_payload(h2, Bytes::from(unhex(t[8])));
                    let (l1, l2) = (f1.len(), f2.len());
                    let mut a = Vec::new();
                    f1.clone().format(&mut a).unwrap();
                    let mut b = Vec::new();
                    f2.clone().format(&mut b).unwrap();
                    let mut mock = Mock::default();
                    mock.set_script("script wr=b");
                    let mut fs = FrameSocket::new(mock);
                    let r1 = fs.write(f1).is_err();
                    let r2 = fs.write(f2).is_ok();
                    let _ = fs.flush();
                    let wire = fs.get_ref().all_wire.clone();
                    format!("out {} {} {} {} {} {}{}", hex(&a), l1, hex(&b), l2, hex(&wire), r1 as u8, r2 as u8)
                }
                _ => "out badheader".into(),
            }
        }
        "mask" => {
            // mask <key> <align> <hex>: payload placed at offset `align` of an 8-aligned buffer
            let k = unhex(t[1]);
            let key = [k[0], k[1], k[2], k[3]];
            let align: usize = t[2].parse().unwrap();
            let data = unhex(t[3]);
            let mut store = vec![0u64; (data.len() + 32) / 8 + 2];
            let base = store.as_mut_ptr() as *mut u8;
            let total = store.len() * 8;
            // SAFETY: viewing the u64 buffer as bytes
            let buf: &mut [u8] = unsafe { std::slice::from_raw_parts_mut(base, total) };
            for b in buf.iter_mut() {
                *b = 0xA5;
            }
            let start = 8 + align;
            buf[start..start + data.len()].copy_from_slice(&data);
            verif_hook::apply_mask(&mut buf[start..start + data.len()], key);
            let out = buf[start..start + data.len()].to_vec();
            let canary = buf[..start].iter().all(|&b| b == 0xA5)
                && buf[start + data.len()..].iter().all(|&b| b == 0xA5);
            format!("out {} canary={}", hex(&out), if canary { "ok" } else { "BAD" })
        }
        "utf8" => {
            let b = unhex(t[1]);
            let std_s = match std::str::from_utf8(&b) {
                Ok(_) => "ok".to_string(),
                Err(e) => format!(
                    "err {} {}",
                    e.valid_up_to(),
                    e.error_len().map(|x| x.to_string()).unwrap_or("none".into())
                ),
            };
            let dec = match utf8::decode(&b) {
                Ok(_) => "ok".to_string(),
                Err(utf8::DecodeError::Invalid { valid_prefix, invalid_sequence, .. }) => {
                    format!("invalid {} {}", valid_prefix.len(), invalid_sequence.len())
                }
                Err(utf8::DecodeError::Incomplete { valid_prefix, incomplete_suffix }) => format!(
                    "incomplete {} {}",
                    valid_prefix.len(),
                    hex(&incomplete_suffix.buffer[..incomplete_suffix.buffer_len as usize])
                ),
            };
            format!("out std {std_s} dec {dec}")
        }
        "utf8c" => {
            // utf8c <buffer> <input>: Incomplete::new(buffer).try_complete(input)
            let buf = unhex(t[1]);
            let input = unhex(t[2]);
            let r = catch_unwind(AssertUnwindSafe(|| {
                let mut inc = utf8::Incomplete::new(&buf);
                match inc.try_complete(&input) {
                    None => format!("out still {}", hex(&inc.buffer[..inc.buffer_len as usize])),
                    Some((Ok(s), rest)) => {
                        format!("out done ok {} {}", hex(s.as_bytes()), input.len() - rest.len())
                    }
                    Some((Err(b), rest)) => {
                        format!("out done err {} {}", hex(b), input.len() - rest.len())
                    }
                }
            }));
            r.unwrap_or_else(|_| "out panic".into())
        }
        x => panic!("unknown pure line {x}"),
    }
}

pub const PURE_TAGS: &[&str] =
    &["closecode", "opcode", "hparse", "hparseat", "hformat", "fformat", "mask", "utf8", "utf8c"];

fn bits(rng: &mut Rng) -> String {
    format!("{}{}{}{}", rng.below(2), rng.below(2), rng.below(2), rng.below(2))
}

pub const LEN_BOUNDARIES: &[u64] = &[
    0, 1, 124, 125, 126, 127, 128, 255, 256, 65534, 65535, 65536, 65537, 1 << 32, (1 << 32) + 1,
    (1 << 63) - 1, 1 << 63, u64::MAX - 1, u64::MAX,
];

/// Generate the input lines of a pure family.
pub fn generate(family: &str, count: usize, rng: &mut Rng) -> Vec<String> {
    let mut v = Vec::new();
    match family {
        "closecode" => {
            for n in 0..65536u32 {
                v.push(format!("closecode {n}"));
            }
        }
        "opcode" => {
            for n in 0..256u32 {
                v.push(format!("opcode {n}"));
            }
        }
        "hparse" => {
            // every value of the first two bytes, with a boundary extended length, a mask,
            // a little payload, and every truncation point for a sample of them
            for first in 0..256u32 {
                for second in 0..256u32 {
                    let lb = second & 0x7f;
                    let ext: Vec<u8> = if lb == 126 {
                        let x = *rng.pick(&[0u16, 125, 126, 127, 255, 256, 65535]);
                        x.to_be_bytes().to_vec()
                    } else if lb == 127 {
                        let x = *rng.pick(LEN_BOUNDARIES);
                        x.to_be_bytes().to_vec()
                    } else {
                        vec![]
                    };
                    let mut b = vec![first as u8, second as u8];
                    b.extend(ext);
                    if second & 0x80 != 0 {
                        b.extend(rng.mask());
                    }
                    b.extend(rng.bytes(rng.clone().below(3)));
                    v.push(format!("hparse {}", hex(&b)));
                    if (first * 256 + second) % 7 == 0 {
                        for cut in 0..b.len() {
                            v.push(format!("hparse {}", hex(&b[..cut])));
                        }
                    }
                }
            }
        }
        "hparseat" => {
            // several headers in one buffer, parsed with the cursor standing at each frame start
            // (and at a few positions inside frames)
            for _ in 0..count.max(200) {
                let mut buf: Vec<u8> = Vec::new();
                let mut starts: Vec<usize> = Vec::new();
                for _ in 0..rng.range(1, 4) {
                    starts.push(buf.len());
                    let op = *rng.pick(&[0u8, 1, 2, 8, 9, 10, 3, 11]);
                    let len = *rng.pick(&[0u64, 1, 125, 126, 300, 65535, 65536, 1 << 33]);
                    let m = if rng.chance(1, 2) { Some(rng.mask()) } else { None };
                    buf.extend(crate::util::enc_header(rng.chance(1, 2), rng.below(8) as u8, op, m, len));
                    buf.extend(rng.bytes(rng.clone().below(4)));
                }
                if rng.chance(1, 3) {
                    let n = rng.below(buf.len() + 1);
                    buf.truncate(n);
                }
                for st in starts {
                    if st <= buf.len() {
                        v.push(format!("hparseat {} {}", st, hex(&buf)));
                    }
                }
                let k = rng.below(buf.len() + 2);
                v.push(format!("hparseat {} {}", k, hex(&buf)));
            }
        }
        "hformat" => {
            for op in [0u8, 1, 2, 8, 9, 10, 3, 7, 11, 15] {
                for len in LEN_BOUNDARIES {
                    for masked in [false, true] {
                        let m = if masked { hex(&rng.mask()) } else { "-".into() };
                        v.push(format!("hformat {} {} {} {}", bits(rng), op, m, len));
                    }
                }
            }
            for _ in 0..count {
                let op = *rng.pick(&[0u8, 1, 2, 8, 9, 10]);
                let len = match rng.below(4) {
                    0 => rng.below(300) as u64,
                    1 => 65000 + rng.below(1100) as u64,
                    2 => rng.next(),
                    _ => *rng.pick(LEN_BOUNDARIES),
                };
                let m = if rng.chance(1, 2) { hex(&rng.mask()) } else { "-".into() };
                v.push(format!("hformat {} {} {} {}", bits(rng), op, m, len));
            }
        }
        "fformat" => {
            let sizes = [0usize, 1, 2, 3, 4, 5, 7, 8, 9, 125, 126, 127, 300, 65535, 65536, 65537];
            for i in 0..count.max(sizes.len() * 4) {
                let n1 = if i < sizes.len() * 4 { sizes[i % sizes.len()] } else { rng.below(40) };
                let n2 = if i < sizes.len() * 4 { sizes[(i / sizes.len() + i) % sizes.len()] } else { rng.below(70) };
                let op1 = *rng.pick(&[0u8, 1, 2, 8, 9, 10]);
                let op2 = *rng.pick(&[0u8, 1, 2, 8, 9, 10]);
                let m1 = if rng.chance(1, 2) { hex(&rng.mask()) } else { "-".into() };
                let m2 = if rng.chance(3, 4) { hex(&rng.mask()) } else { "-".into() };
                v.push(format!(
                    "fformat {} {} {} {} {} {} {} {}",
                    bits(rng),
                    op1,
                    m1,
                    hex(&rng.bytes(n1)),
                    bits(rng),
                    op2,
                    m2,
                    hex(&rng.bytes(n2))
                ));
            }
        }
        "mask" => {
            // lengths 0..=67 x 8 alignments, keys covering every value of every key byte
            let mut kb: u32 = 0;
            for len in 0..=67usize {
                for align in 0..8usize {
                    for _ in 0..(count.max(1)) {
                        let mut key = rng.mask();
                        key[(kb % 4) as usize] = (kb / 4 % 256) as u8;
                        kb += 1;
                        v.push(format!("mask {} {} {}", hex(&key), align, hex(&rng.bytes(len))));
                    }
                }
            }
        }
        "utf8" => {
            // exhaustive 1- and 2-byte strings, 3-byte strings with a lead byte, structured rest
            for a in 0..256u32 {
                v.push(format!("utf8 {}", hex(&[a as u8])));
            }
            for a in 0..256u32 {
                for b in 0..256u32 {
                    v.push(format!("utf8 {}", hex(&[a as u8, b as u8])));
                }
            }
            for a in 0xC0..=0xFFu32 {
                for b in (0x70..=0xC8u32).chain([0u32, 0x20, 0xff]) {
                    for c in [0x00u32, 0x7f, 0x80, 0x8f, 0x90, 0x9f, 0xa0, 0xbf, 0xc0, 0xff] {
                        v.push(format!("utf8 {}", hex(&[a as u8, b as u8, c as u8])));
                        for d in [0x7fu32, 0x80, 0xbf, 0xc0] {
                            if a >= 0xF0 {
                                v.push(format!("utf8 {}", hex(&[a as u8, b as u8, c as u8, d as u8])));
                            }
                        }
                    }
                }
            }
            for _ in 0..count {
                v.push(format!("utf8 {}", hex(&crate::gen::utf8_maybe(rng))));
            }
        }
        "utf8c" => {
            // every incomplete prefix shape x inputs
            let prefixes: Vec<Vec<u8>> = vec![
                vec![0xc3], vec![0xe2], vec![0xe2, 0x82], vec![0xf0], vec![0xf0, 0x9f],
                vec![0xf0, 0x9f, 0x98], vec![0xe0], vec![0xe0, 0xa0], vec![0xed], vec![0xed, 0x9f],
                vec![0xf4], vec![0xf4, 0x8f], vec![0xf4, 0x8f, 0xbf], vec![0xdf], vec![0xef, 0xbf],
            ];
            for p in &prefixes {
                v.push(format!("utf8c {} -", hex(p)));
                for b in 0..256u32 {
                    v.push(format!("utf8c {} {}", hex(p), hex(&[b as u8])));
                }
                for _ in 0..count.max(8) {
                    let mut inp: Vec<u8> = Vec::new();
                    for _ in 0..rng.range(1, 5) {
                        inp.push(*rng.pick(&[0x80u8, 0xbf, 0x98, 0x82, 0xac, 0x41, 0xc3, 0xe2, 0xf0, 0xff, 0x9f, 0x90, 0x8f, 0xa0]));
                    }
                    v.push(format!("utf8c {} {}", hex(p), hex(&inp)));
                }
            }
        }
        x => panic!("unknown pure family {x}"),
    }
    v
}
