//! C19 under Miri: the real masking routine at every length 0..=67 and every alignment inside a
//! canary-filled buffer; Miri checks the `unsafe` `align_to_mut` reinterpretation for out-of-bounds
//! or misaligned accesses, the assertions check the XOR and the neighbouring bytes.
use tungstenite::protocol::frame::verif_hook;

fn main() {
    let mut checked = 0u32;
    for len in 0..=67usize {
        for align in 0..8usize {
            let key = [
                (len as u8).wrapping_mul(37).wrapping_add(align as u8),
                0xA7 ^ len as u8,
                (align as u8) << 5 | 1,
                0xFF - len as u8,
            ];
            let mut store = vec![0u64; (len + 32) / 8 + 2];
            let total = store.len() * 8;
            // SAFETY: a u64 buffer viewed as bytes
            let buf: &mut [u8] = unsafe { std::slice::from_raw_parts_mut(store.as_mut_ptr() as *mut u8, total) };
            for b in buf.iter_mut() {
                *b = 0xA5;
            }
            let start = 8 + align;
            let data: Vec<u8> = (0..len).map(|i| (i * 7 + align) as u8).collect();
            buf[start..start + len].copy_from_slice(&data);
            verif_hook::apply_mask(&mut buf[start..start + len], key);
            for i in 0..len {
                assert_eq!(buf[start + i], data[i] ^ key[i & 3], "len {len} align {align} byte {i}");
            }
            assert!(buf[..start].iter().all(|&b| b == 0xA5), "prefix touched: len {len} align {align}");
            assert!(buf[start + len..].iter().all(|&b| b == 0xA5), "suffix touched: len {len} align {align}");
            checked += 1;
        }
    }
    println!("mirimask ok {checked}");
}
