//! Runs one endpoint case (a block of input lines) against the real `WebSocket` over the
//! scripted transport and appends the observed output lines.

use crate::transport::{kind_name, Mock};
use crate::util::{hex, unhex};
use bytes::Bytes;
use std::panic::{catch_unwind, AssertUnwindSafe};
use tungstenite::error::{CapacityError, Error};
use tungstenite::protocol::frame::coding::{CloseCode, OpCode};
use tungstenite::protocol::frame::{verif_hook, CloseFrame, Frame, FrameHeader, Utf8Bytes};
use tungstenite::protocol::{Role, WebSocket, WebSocketConfig};
use tungstenite::Message;

pub fn parse_kv<'a>(line: &'a str, key: &str) -> Option<&'a str> {
    for tok in line.split_whitespace() {
        if let Some((k, v)) = tok.split_once('=') {
            if k == key {
                return Some(v);
            }
        }
    }
    None
}

pub fn parse_opt_usize(s: &str) -> Option<usize> {
    match s {
        "inf" | "none" => None,
        _ => Some(s.parse().expect("number")),
    }
}

pub struct Cfg {
    pub role: Role,
    pub config: WebSocketConfig,
    pub pre: Option<Vec<u8>>,
}

pub fn parse_cfg(line: &str) -> Cfg {
    let role = match parse_kv(line, "role").expect("role") {
        "server" => Role::Server,
        "client" => Role::Client,
        x => panic!("bad role {x}"),
    };
    let mut config = WebSocketConfig::default();
    config.read_buffer_size = parse_kv(line, "rbuf").unwrap_or("4096").parse().unwrap();
    config.write_buffer_size = parse_kv(line, "wbuf").unwrap_or("0").parse().unwrap();
    config.max_write_buffer_size =
        parse_opt_usize(parse_kv(line, "maxw").unwrap_or("inf")).unwrap_or(usize::MAX);
    config.max_message_size = parse_opt_usize(parse_kv(line, "maxmsg").unwrap_or("none"));
    config.max_frame_size = parse_opt_usize(parse_kv(line, "maxframe").unwrap_or("none"));
    // `default`: leave the field as `WebSocketConfig::default()` sets it
    if parse_kv(line, "unmasked") != Some("default") {
        config.accept_unmasked_frames = parse_kv(line, "unmasked").unwrap_or("0") == "1";
    }
    let pre = match parse_kv(line, "pre").unwrap_or("none") {
        "none" => None,
        h => Some(unhex(h)),
    };
    Cfg { role, config, pre }
}

pub fn parse_masks(line: &str) -> Vec<[u8; 4]> {
    match parse_kv(line, "m") {
        None | Some("-") => Vec::new(),
        Some(v) => v
            .split(',')
            .filter(|s| !s.is_empty())
            .map(|s| {
                let b = unhex(s);
                [b[0], b[1], b[2], b[3]]
            })
            .collect(),
    }
}

pub fn opcode_num(op: OpCode) -> u8 {
    op.into()
}

pub fn show_frame(f: &Frame) -> String {
    let h = f.header();
    format!(
        "{}{}{}{} {} {} {}",
        h.is_final as u8,
        h.rsv1 as u8,
        h.rsv2 as u8,
        h.rsv3 as u8,
        opcode_num(h.opcode),
        match h.mask {
            Some(m) => hex(&m),
            None => "-".into(),
        },
        hex(f.payload())
    )
}

pub fn show_msg(m: &Message) -> String {
    match m {
        Message::Text(t) => format!("text {}", hex(t.as_ref())),
        Message::Binary(b) => format!("binary {}", hex(b)),
        Message::Ping(b) => format!("ping {}", hex(b)),
        Message::Pong(b) => format!("pong {}", hex(b)),
        Message::Close(None) => "close none".into(),
        Message::Close(Some(cf)) => {
            format!("close {} {}", u16::from(cf.code), hex(cf.reason.as_bytes()))
        }
        Message::Frame(f) => format!("frame {}", show_frame(f)),
    }
}

pub fn show_err(e: &Error) -> String {
    match e {
        Error::ConnectionClosed => "ConnectionClosed".into(),
        Error::AlreadyClosed => "AlreadyClosed".into(),
        Error::Io(e) => format!("Io.{}", kind_name(e.kind())),
        Error::Capacity(CapacityError::MessageTooLong { size, max_size }) => {
            format!("Capacity.MessageTooLong({size},{max_size})")
        }
        Error::Capacity(CapacityError::TooManyHeaders) => "Capacity.TooManyHeaders".into(),
        Error::Protocol(tungstenite::error::ProtocolError::HttparseError(_)) => "Protocol.HttparseError".into(),
        Error::Protocol(p) => format!("Protocol.{p:?}").replace(' ', ""),
        Error::WriteBufferFull(m) => format!("WriteBufferFull({})", show_msg(m)),
        Error::Utf8(_) => "Utf8".into(),
        Error::AttackAttempt => "AttackAttempt".into(),
        Error::Url(u) => format!("Url.{u:?}").replace(' ', "_"),
        Error::Http(r) => format!(
            "Http({},{})",
            r.status().as_u16(),
            match r.body() {
                Some(b) => hex(b),
                None => "none".into(),
            }
        ),
        Error::HttpFormat(_) => "HttpFormat".into(),
        Error::Tls(_) => "Tls".into(),
    }
}

fn panic_text(p: Box<dyn std::any::Any + Send>) -> String {
    let s = if let Some(s) = p.downcast_ref::<&str>() {
        s.to_string()
    } else if let Some(s) = p.downcast_ref::<String>() {
        s.clone()
    } else {
        "?".to_string()
    };
    s.replace(' ', "_").chars().take(80).collect()
}

pub fn parse_message(toks: &[&str]) -> Message {
    // text <hex> | binary <hex> | ping <hex> | pong <hex> | close none | close <code> <hex>
    // | frame <fin r1 r2 r3> <opcode> <mask|-> <hex>
    match toks[0] {
        "text" => Message::Text(Utf8Bytes::try_from(unhex(toks[1])).expect("text must be utf8")),
        "binary" => Message::Binary(Bytes::from(unhex(toks[1]))),
        "ping" => Message::Ping(Bytes::from(unhex(toks[1]))),
        "pong" => Message::Pong(Bytes::from(unhex(toks[1]))),
        "close" => Message::Close(parse_close(&toks[1..])),
        "frame" => {
            let bits = toks[1].as_bytes();
            let opcode: u8 = toks[2].parse().unwrap();
            let mask = match toks[3] {
                "-" => None,
                h => {
                    let b = unhex(h);
                    Some([b[0], b[1], b[2], b[3]])
                }
            };
            let header = FrameHeader {
                is_final: bits[0] == b'1',
                rsv1: bits[1] == b'1',
                rsv2: bits[2] == b'1',
                rsv3: bits[3] == b'1',
                opcode: OpCode::from(opcode),
                mask,
            };
            Message::Frame(Frame::from_payload(header, Bytes::from(unhex(toks[4]))))
        }
        x => panic!("bad message kind {x}"),
    }
}

pub fn parse_close(toks: &[&str]) -> Option<CloseFrame> {
    if toks[0] == "none" {
        None
    } else {
        let code: u16 = toks[0].parse().unwrap();
        Some(CloseFrame {
            code: CloseCode::from(code),
            reason: Utf8Bytes::try_from(unhex(toks[1])).expect("reason must be utf8"),
        })
    }
}

/// Runs the case; `out` receives every input line followed by the observed lines.
pub fn run_case(lines: &[String], out: &mut String) {
    let mut ws: Option<WebSocket<Mock>> = None;
    let mut pending_mock = Mock::default();
    let mut cfg: Option<Cfg> = None;
    let mut cfg_changed = false;

    macro_rules! sock {
        () => {{
            if ws.is_none() {
                let c = cfg.as_ref().expect("cfg line before ops");
                let mock = std::mem::take(&mut pending_mock);
                let conf = c.config;
                let role = c.role;
                let pre = c.pre.clone();
                let r = catch_unwind(AssertUnwindSafe(move || match pre {
                    None => WebSocket::from_raw_socket(mock, role, Some(conf)),
                    Some(p) => WebSocket::from_partially_read(mock, p, role, Some(conf)),
                }));
                match r {
                    Ok(w) => {
                        out.push_str("new ok\n");
                        ws = Some(w);
                    }
                    Err(p) => {
                        out.push_str(&format!("new panic {}\n", panic_text(p)));
                    }
                }
            }
            ws.as_mut()
        }};
    }

    for line in lines {
        out.push_str(line);
        out.push('\n');
        let toks: Vec<&str> = line.split_whitespace().collect();
        if toks.is_empty() {
            continue;
        }
        match toks[0] {
            "case" | "end" | "#" | "expect" => {}
            "cfg" => cfg = Some(parse_cfg(line)),
            "peer" => {
                let b = unhex(toks[1]);
                match ws.as_mut() {
                    Some(w) => w.get_mut().inbound.extend_from_slice(&b),
                    None => pending_mock.inbound.extend_from_slice(&b),
                }
            }
            "script" => match ws.as_mut() {
                Some(w) => w.get_mut().set_script(line),
                None => pending_mock.set_script(line),
            },
            "op" => {
                let masks = parse_masks(line);
                let body: Vec<&str> =
                    toks[1..].iter().copied().filter(|t| !t.starts_with("m=")).collect();
                let w = match sock!() {
                    Some(w) => w,
                    None => {
                        out.push_str("res nosocket\n");
                        continue;
                    }
                };
                verif_hook::set_masks(&masks);
                let mem_base = crate::mem::start();
                let res: Result<String, Box<dyn std::any::Any + Send>> =
                    catch_unwind(AssertUnwindSafe(|| match body[0] {
                        "read" => match w.read() {
                            Ok(m) => format!("ok {}", show_msg(&m)),
                            Err(e) => format!("err {}", show_err(&e)),
                        },
                        "write" => match w.write(parse_message(&body[1..])) {
                            Ok(()) => "ok unit".into(),
                            Err(e) => format!("err {}", show_err(&e)),
                        },
                        "send" => match w.send(parse_message(&body[1..])) {
                            Ok(()) => "ok unit".into(),
                            Err(e) => format!("err {}", show_err(&e)),
                        },
                        "flush" => match w.flush() {
                            Ok(()) => "ok unit".into(),
                            Err(e) => format!("err {}", show_err(&e)),
                        },
                        "close" => match w.close(parse_close(&body[1..])) {
                            Ok(()) => "ok unit".into(),
                            Err(e) => format!("err {}", show_err(&e)),
                        },
                        "setcfg" => {
                            // `WebSocket::set_config`: limits and buffer sizes change on a live connection
                            let nc = parse_cfg(line).config;
                            w.set_config(|c| {
                                c.write_buffer_size = nc.write_buffer_size;
                                c.max_write_buffer_size = nc.max_write_buffer_size;
                                c.max_message_size = nc.max_message_size;
                                c.max_frame_size = nc.max_frame_size;
                                c.accept_unmasked_frames = nc.accept_unmasked_frames;
                            });
                            "ok unit".into()
                        }
                        "can" => "ok unit".into(),
                        x => panic!("bad op {x}"),
                    }));
                let used = masks.len() - verif_hook::remaining().min(masks.len());
                verif_hook::set_masks(&[]);
                let mem_peak = crate::mem::peak_since(mem_base);
                let (io, wire) = w.get_mut().take_log();
                // C06: with finite limits a read may not allocate more than a small multiple of the
                // limits plus the read buffer (plus what this harness itself logs for the delivered bytes)
                if body[0] == "setcfg" {
                    cfg_changed = true;
                }
                if body[0] == "read" && !cfg_changed {
                    if let Some(c) = cfg.as_ref() {
                        if let (Some(mf), Some(mm)) = (c.config.max_frame_size, c.config.max_message_size) {
                            if mf <= (1 << 24) && mm <= (1 << 26) {
                                let bound = 4 * (mf + mm) + c.config.read_buffer_size + 65536 + 8 * io.len();
                                if mem_peak > bound {
                                    out.push_str(&format!("memviol peak={mem_peak} bound={bound}\n"));
                                }
                            }
                        }
                    }
                }
                out.push_str(&format!("io {io}\n"));
                match res {
                    Ok(s) => out.push_str(&format!("res {s}\n")),
                    Err(p) => out.push_str(&format!("res panic {}\n", panic_text(p))),
                }
                out.push_str(&format!("wire {wire}\n"));
                out.push_str(&format!(
                    "can r={} w={} mu={}\n",
                    w.can_read() as u8,
                    w.can_write() as u8,
                    used
                ));
            }
            x => panic!("bad case line tag {x:?}"),
        }
    }
}
