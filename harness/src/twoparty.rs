//! C04: a client and a server endpoint joined by two in-memory pipes. A random phase
//! (interleaved user operations, byte-granular delivery, write-side WouldBlock windows,
//! simultaneous close, data and pings in flight) is followed by a fair drain phase: both sides
//! keep flushing and reading and drop the transport when told the connection is closed.

use crate::endpoint::{parse_cfg, parse_close, parse_masks, parse_message, show_err, show_msg};
use crate::gen::{payload, utf8_text};
use crate::hs::Shared;
use crate::transport::{Mock, RdEv};
use crate::util::{hex, Rng};
use std::cell::RefCell;
use std::panic::{catch_unwind, AssertUnwindSafe};
use std::rc::Rc;
use tungstenite::protocol::frame::verif_hook;
use tungstenite::protocol::WebSocket;

pub struct Side {
    pub ws: WebSocket<Shared>,
    pub mock: Shared,
    pub closed_reported: bool,
    pub dropped: bool,
    pub close_called: bool,
    pub dead: bool,
}

pub struct Pair {
    pub c: Option<Side>,
    pub s: Option<Side>,
}

fn side_of<'a>(p: &'a mut Pair, which: &str) -> (&'a mut Side, &'a mut Side) {
    let Pair { c, s } = p;
    let (c, s) = (c.as_mut().unwrap(), s.as_mut().unwrap());
    if which == "c" {
        (c, s)
    } else {
        (s, c)
    }
}

fn mk_side(cfgline: &str) -> Side {
    let c = parse_cfg(cfgline);
    let mock = Shared(Rc::new(RefCell::new(Mock::default())));
    let ws = WebSocket::from_raw_socket(mock.clone(), c.role, Some(c.config));
    Side { ws, mock, closed_reported: false, dropped: false, close_called: false, dead: false }
}

/// execute one input line; appends the line and what was observed
pub fn exec_line(p: &mut Pair, line: &str, out: &mut String) -> Option<String> {
    if line.starts_with("case ") {
        crate::pending::begin(&[line.to_string()]);
    } else {
        crate::pending::append(line);
    }
    out.push_str(line);
    out.push('\n');
    let toks: Vec<&str> = line.split_whitespace().collect();
    if toks.is_empty() {
        return None;
    }
    match toks[0] {
        "case" | "end" | "#" => None,
        "cfg2" => {
            let which = crate::endpoint::parse_kv(line, "side").unwrap();
            let side = mk_side(line);
            if which == "c" {
                p.c = Some(side)
            } else {
                p.s = Some(side)
            }
            None
        }
        "script2" => {
            let which = crate::endpoint::parse_kv(line, "side").unwrap().to_string();
            let (x, _) = side_of(p, &which);
            let rest: Vec<&str> = toks[1..].iter().copied().filter(|t| !t.starts_with("side=")).collect();
            x.mock.0.borrow_mut().set_script(&format!("script {}", rest.join(" ")));
            None
        }
        "drop" => {
            // this side drops its transport: the peer sees EOF once the pipe is drained
            let which = toks[1].to_string();
            let (x, y) = side_of(p, &which);
            x.dropped = true;
            y.mock.0.borrow_mut().eof_when_empty = true;
            None
        }
        "op" => {
            let which = toks[1].to_string();
            let masks = parse_masks(line);
            let body: Vec<&str> = toks[2..].iter().copied().filter(|t| !t.starts_with("m=")).collect();
            let (x, y) = side_of(p, &which);
            verif_hook::set_masks(&masks);
            let r = catch_unwind(AssertUnwindSafe(|| match body[0] {
                "read" => match x.ws.read() {
                    Ok(m) => format!("ok {}", show_msg(&m)),
                    Err(e) => format!("err {}", show_err(&e)),
                },
                "write" => match x.ws.write(parse_message(&body[1..])) {
                    Ok(()) => "ok unit".into(),
                    Err(e) => format!("err {}", show_err(&e)),
                },
                "flush" => match x.ws.flush() {
                    Ok(()) => "ok unit".into(),
                    Err(e) => format!("err {}", show_err(&e)),
                },
                "close" => match x.ws.close(parse_close(&body[1..])) {
                    Ok(()) => "ok unit".into(),
                    Err(e) => format!("err {}", show_err(&e)),
                },
                b => panic!("bad op {b}"),
            }));
            let used = masks.len() - verif_hook::remaining().min(masks.len());
            verif_hook::set_masks(&[]);
            let (io, wire) = x.mock.0.borrow_mut().take_log();
            // what this side's transport accepted travels to the peer (unless the peer is gone)
            if wire != "-" && !y.dropped {
                y.mock.0.borrow_mut().inbound.extend_from_slice(&crate::util::unhex(&wire));
            }
            let res = match r {
                Ok(s) => s,
                Err(_) => {
                    x.dead = true;
                    "panic".into()
                }
            };
            if body[0] == "close" || (body[0] == "write" && body.get(1) == Some(&"close")) {
                x.close_called = true;
            }
            if res == "err ConnectionClosed" {
                x.closed_reported = true;
            }
            out.push_str(&format!("io {io}\n"));
            out.push_str(&format!("res {res}\n"));
            out.push_str(&format!("wire {wire}\n"));
            out.push_str(&format!(
                "can r={} w={} mu={}\n",
                x.ws.can_read() as u8,
                x.ws.can_write() as u8,
                used
            ));
            Some(res)
        }
        x => panic!("bad twoparty line tag {x:?}"),
    }
}

pub fn run_case(lines: &[String], out: &mut String) {
    let mut p = Pair { c: None, s: None };
    for l in lines {
        exec_line(&mut p, l, out);
    }
}

fn masks(rng: &mut Rng, client: bool) -> String {
    if !client {
        return "m=-".into();
    }
    let v: Vec<String> = (0..8).map(|_| hex(&rng.mask())).collect();
    format!("m={}", v.join(","))
}

/// adaptive generation + execution of one two-party case
pub fn gen_and_run(rng: &mut Rng, id: usize, out: &mut String) {
    let mut p = Pair { c: None, s: None };
    let mut ex = |p: &mut Pair, l: String, out: &mut String| -> Option<String> { exec_line(p, &l, out) };
    ex(&mut p, format!("case twoparty tp{id}"), out);
    for (side, role) in [("c", "client"), ("s", "server")] {
        let wbuf = *rng.pick(&[0usize, 0, 1, 50, 131072]);
        // sometimes barely above the largest frame used (300-byte payload): control frames get put back
        let maxw = match rng.below(6) {
            0 => format!("{}", wbuf + 330 + rng.below(100)),
            1 | 2 => format!("{}", wbuf.max(310) + 5 + rng.below(40)),
            _ => "inf".into(),
        };
        ex(
            &mut p,
            format!(
                "cfg2 side={side} role={role} rbuf={} wbuf={wbuf} maxw={maxw} maxmsg=none maxframe=none unmasked=0 pre=none",
                *rng.pick(&[1usize, 7, 4096])
            ),
            out,
        );
    }
    // random phase
    let nsteps = rng.range(2, 14);
    let mut closing_started = false;
    for _ in 0..nsteps {
        let side = if rng.chance(1, 2) { "c" } else { "s" };
        let client = side == "c";
        if rng.chance(1, 4) {
            // delivery granularity and write-side WouldBlock windows
            let rd = match rng.below(3) {
                0 => "d1".to_string(),
                1 => format!("d{}", rng.range(1, 9)),
                _ => format!("d{}", 1usize << 40),
            };
            let wr: Vec<String> = (0..rng.range(0, 3))
                .map(|_| if rng.chance(1, 2) { "b".to_string() } else { format!("a{}", rng.range(1, 20)) })
                .collect();
            let wrdef = if rng.chance(1, 5) { "b".to_string() } else { format!("a{}", 1usize << 40) };
            ex(
                &mut p,
                format!(
                    "script2 side={side} rd=- rddef={rd} wr={} wrdef={wrdef} fl={} fldef=o",
                    if wr.is_empty() { "-".into() } else { wr.join(",") },
                    if rng.chance(1, 4) { "b" } else { "-" }
                ),
                out,
            );
        }
        let (x_closed, x_can_write) = {
            let (x, _) = side_of(&mut p, side);
            (x.closed_reported || x.dead, x.ws.can_write())
        };
        if x_closed {
            continue;
        }
        let m = masks(rng, client);
        let r = rng.below(20);
        let line = if r < 6 {
            format!("op {side} read {m}")
        } else if r < 11 && x_can_write {
            match rng.below(4) {
                0 => format!("op {side} write text {} {m}", hex(&utf8_text(rng))),
                1 => {
                    let n = *rng.pick(&[0usize, 1, 5, 125, 126, 300]);
                    format!("op {side} write binary {} {m}", hex(&payload(rng, n)))
                }
                2 => {
                    let n = *rng.pick(&[0usize, 2, 125]);
                    format!("op {side} write ping {} {m}", hex(&payload(rng, n)))
                }
                _ => format!("op {side} write pong {} {m}", hex(&payload(rng, 2))),
            }
        } else if r < 15 {
            format!("op {side} flush {m}")
        } else if r < 18 && x_can_write {
            closing_started = true;
            if rng.chance(1, 2) {
                format!("op {side} close none {m}")
            } else {
                format!("op {side} close {} {} {m}", *rng.pick(&[1000u16, 1001, 3000]), hex(b"bye"))
            }
        } else {
            format!("op {side} read {m}")
        };
        let res = ex(&mut p, line, out);
        if res.as_deref() == Some("err ConnectionClosed") {
            ex(&mut p, format!("drop {side}"), out);
        }
    }
    // make sure closing starts in most cases
    if !closing_started && rng.chance(4, 5) {
        let both = rng.chance(1, 4);
        let first = if rng.chance(1, 2) { "c" } else { "s" };
        for side in [first, if first == "c" { "s" } else { "c" }] {
            let (dead, canw) = {
                let (x, _) = side_of(&mut p, side);
                (x.closed_reported || x.dead, x.ws.can_write())
            };
            if !dead && canw {
                let m = masks(rng, side == "c");
                let res = ex(&mut p, format!("op {side} close none {m}"), out);
                if res.as_deref() == Some("err ConnectionClosed") {
                    ex(&mut p, format!("drop {side}"), out);
                }
            }
            if !both {
                break;
            }
        }
    }
    // fair drain phase: transports work again; both keep flushing and reading
    out.push_str("# drain\n");
    for side in ["c", "s"] {
        ex(
            &mut p,
            format!(
                "script2 side={side} rd=- rddef=d{} wr=- wrdef=a{} fl=- fldef=o",
                1usize << 40,
                1usize << 40
            ),
            out,
        );
    }
    let activity = |p: &mut Pair| -> usize {
        let mut n = 0;
        for s in ["c", "s"] {
            let (x, _) = side_of(p, s);
            let m = x.mock.0.borrow();
            n += m.all_wire.len() + m.rpos;
        }
        n
    };
    for _round in 0..16 {
        let before = activity(&mut p);
        let mut progress = false;
        for side in ["s", "c"] {
            let done = {
                let (x, _) = side_of(&mut p, side);
                x.closed_reported || x.dead
            };
            if done {
                continue;
            }
            let m = masks(rng, side == "c");
            let r = ex(&mut p, format!("op {side} flush {m}"), out);
            if r.as_deref() == Some("err ConnectionClosed") {
                ex(&mut p, format!("drop {side}"), out);
                progress = true;
                continue;
            }
            for _ in 0..8 {
                let m = masks(rng, side == "c");
                let r = ex(&mut p, format!("op {side} read {m}"), out);
                match r.as_deref() {
                    Some("err ConnectionClosed") => {
                        ex(&mut p, format!("drop {side}"), out);
                        progress = true;
                        break;
                    }
                    Some(s) if s.starts_with("ok") => progress = true,
                    _ => break,
                }
            }
        }
        let all_done = ["c", "s"].iter().all(|s| {
            let (x, _) = side_of(&mut p, s);
            x.closed_reported || x.dead
        });
        if activity(&mut p) != before {
            progress = true;
        }
        if all_done || !progress {
            break;
        }
    }
    ex(&mut p, "end".into(), out);
    let _ = RdEv::Block;
}
