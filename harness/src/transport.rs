//! Scripted in-memory transport: every `read`/`write`/`flush` pops the next scripted
//! event (or the default once the script is exhausted) and logs what it resolved to.

use crate::util::hex;
use std::collections::VecDeque;
use std::io::{self, Read, Write};

#[derive(Clone, Copy, Debug, PartialEq, Eq)]
pub enum Kind {
    Reset,
    Intr,
    Other,
}

impl Kind {
    pub fn io(self) -> io::Error {
        match self {
            Kind::Reset => io::Error::new(io::ErrorKind::ConnectionReset, "scripted reset"),
            Kind::Intr => io::Error::new(io::ErrorKind::Interrupted, "scripted interrupt"),
            Kind::Other => io::Error::new(io::ErrorKind::Other, "scripted error"),
        }
    }
    pub fn name(self) -> &'static str {
        match self {
            Kind::Reset => "reset",
            Kind::Intr => "intr",
            Kind::Other => "other",
        }
    }
    pub fn parse(s: &str) -> Kind {
        match s {
            "reset" => Kind::Reset,
            "intr" => Kind::Intr,
            "other" => Kind::Other,
            _ => panic!("bad error kind {s:?}"),
        }
    }
}

pub fn kind_name(k: io::ErrorKind) -> &'static str {
    match k {
        io::ErrorKind::WouldBlock => "WouldBlock",
        io::ErrorKind::ConnectionReset => "reset",
        io::ErrorKind::Interrupted => "intr",
        io::ErrorKind::Other => "other",
        io::ErrorKind::UnexpectedEof => "ueof",
        io::ErrorKind::WriteZero => "writezero",
        _ => "unknown",
    }
}

#[derive(Clone, Copy, Debug, PartialEq, Eq)]
pub enum RdEv {
    Data(usize),
    Block,
    Eof,
    Err(Kind),
}
#[derive(Clone, Copy, Debug, PartialEq, Eq)]
pub enum WrEv {
    Accept(usize),
    Block,
    Zero,
    Err(Kind),
}
#[derive(Clone, Copy, Debug, PartialEq, Eq)]
pub enum FlEv {
    Ok,
    Block,
    Err(Kind),
}

impl RdEv {
    pub fn parse(s: &str) -> RdEv {
        match s {
            "b" => RdEv::Block,
            "e" => RdEv::Eof,
            _ if s.starts_with('d') => RdEv::Data(s[1..].parse().expect("rd d<k>")),
            _ if s.starts_with('x') => RdEv::Err(Kind::parse(&s[1..])),
            _ => panic!("bad rd event {s:?}"),
        }
    }
    pub fn show(self) -> String {
        match self {
            RdEv::Data(k) => format!("d{k}"),
            RdEv::Block => "b".into(),
            RdEv::Eof => "e".into(),
            RdEv::Err(k) => format!("x{}", k.name()),
        }
    }
}
impl WrEv {
    pub fn parse(s: &str) -> WrEv {
        match s {
            "b" => WrEv::Block,
            "z" => WrEv::Zero,
            _ if s.starts_with('a') => WrEv::Accept(s[1..].parse().expect("wr a<k>")),
            _ if s.starts_with('x') => WrEv::Err(Kind::parse(&s[1..])),
            _ => panic!("bad wr event {s:?}"),
        }
    }
    pub fn show(self) -> String {
        match self {
            WrEv::Accept(k) => format!("a{k}"),
            WrEv::Block => "b".into(),
            WrEv::Zero => "z".into(),
            WrEv::Err(k) => format!("x{}", k.name()),
        }
    }
}
impl FlEv {
    pub fn parse(s: &str) -> FlEv {
        match s {
            "o" => FlEv::Ok,
            "b" => FlEv::Block,
            _ if s.starts_with('x') => FlEv::Err(Kind::parse(&s[1..])),
            _ => panic!("bad fl event {s:?}"),
        }
    }
    pub fn show(self) -> String {
        match self {
            FlEv::Ok => "o".into(),
            FlEv::Block => "b".into(),
            FlEv::Err(k) => format!("x{}", k.name()),
        }
    }
}

pub const BIG: usize = 1 << 40;

#[derive(Debug)]
pub struct Mock {
    pub inbound: Vec<u8>,
    pub rpos: usize,
    pub rd: VecDeque<RdEv>,
    pub wr: VecDeque<WrEv>,
    pub fl: VecDeque<FlEv>,
    pub rddef: RdEv,
    pub wrdef: WrEv,
    pub fldef: FlEv,
    /// resolved events since the log was last taken
    pub log: Vec<String>,
    /// bytes accepted since last taken
    pub wire: Vec<u8>,
    /// every byte ever accepted
    pub all_wire: Vec<u8>,
    /// number of transport calls made (for the hang watchdog)
    pub calls: u64,
    pub max_calls: u64,
    /// the peer dropped the transport: once the inbound bytes are used up, reads see EOF
    pub eof_when_empty: bool,
}

impl Default for Mock {
    fn default() -> Self {
        Mock {
            inbound: Vec::new(),
            rpos: 0,
            rd: VecDeque::new(),
            wr: VecDeque::new(),
            fl: VecDeque::new(),
            rddef: RdEv::Data(BIG),
            wrdef: WrEv::Accept(BIG),
            fldef: FlEv::Ok,
            log: Vec::new(),
            wire: Vec::new(),
            all_wire: Vec::new(),
            calls: 0,
            max_calls: 20_000,
            eof_when_empty: false,
        }
    }
}

impl Mock {
    fn tick(&mut self) {
        self.calls += 1;
        // every productive call moves at least one byte: anything far beyond that is a spin
        let allowed = self.max_calls + 4 * (self.inbound.len() as u64 + self.all_wire.len() as u64);
        if self.calls > allowed {
            panic!("WATCHDOG: more than {} transport calls in one case", allowed);
        }
    }
    pub fn set_script(&mut self, line: &str) {
        // script rd=<ev,..> wr=<ev,..> fl=<ev,..> rddef=<ev> wrdef=<ev> fldef=<ev>
        for tok in line.split_whitespace() {
            let (k, v) = match tok.split_once('=') {
                Some(p) => p,
                None => continue,
            };
            let items = || v.split(',').filter(|s| !s.is_empty() && *s != "-");
            match k {
                "rd" => self.rd = items().map(RdEv::parse).collect(),
                "wr" => self.wr = items().map(WrEv::parse).collect(),
                "fl" => self.fl = items().map(FlEv::parse).collect(),
                "rddef" => self.rddef = RdEv::parse(v),
                "wrdef" => self.wrdef = WrEv::parse(v),
                "fldef" => self.fldef = FlEv::parse(v),
                _ => panic!("bad script key {k:?}"),
            }
        }
    }
    pub fn take_log(&mut self) -> (String, String) {
        let io = if self.log.is_empty() { "-".to_string() } else { self.log.join(" ") };
        self.log.clear();
        let w = hex(&self.wire);
        self.wire.clear();
        (io, w)
    }
}

impl Read for Mock {
    fn read(&mut self, buf: &mut [u8]) -> io::Result<usize> {
        self.tick();
        let ev = self.rd.pop_front().unwrap_or(self.rddef);
        match ev {
            RdEv::Data(k) => {
                let avail = self.inbound.len() - self.rpos;
                let n = k.min(buf.len()).min(avail);
                if avail == 0 && self.eof_when_empty {
                    self.log.push("r:e".into());
                    return Ok(0);
                }
                if avail == 0 || k == 0 {
                    self.log.push("r:b".into());
                    return Err(io::Error::new(io::ErrorKind::WouldBlock, "no data"));
                }
                if buf.is_empty() {
                    // the implementation handed the transport a zero-length buffer: it will see
                    // Ok(0) and take it for EOF although the transport has more data
                    self.log.push("r:z".into());
                    return Ok(0);
                }
                buf[..n].copy_from_slice(&self.inbound[self.rpos..self.rpos + n]);
                self.log.push(format!("r:{}", hex(&self.inbound[self.rpos..self.rpos + n])));
                self.rpos += n;
                Ok(n)
            }
            RdEv::Block => {
                self.log.push("r:b".into());
                Err(io::Error::new(io::ErrorKind::WouldBlock, "scripted block"))
            }
            RdEv::Eof => {
                self.log.push("r:e".into());
                Ok(0)
            }
            RdEv::Err(k) => {
                self.log.push(format!("r:x{}", k.name()));
                Err(k.io())
            }
        }
    }
}

impl Write for Mock {
    fn write(&mut self, buf: &[u8]) -> io::Result<usize> {
        self.tick();
        let ev = self.wr.pop_front().unwrap_or(self.wrdef);
        match ev {
            WrEv::Accept(k) => {
                let n = k.min(buf.len());
                self.wire.extend_from_slice(&buf[..n]);
                self.all_wire.extend_from_slice(&buf[..n]);
                self.log.push(format!("w:{}/{}", n, buf.len()));
                Ok(n)
            }
            WrEv::Zero => {
                self.log.push(format!("w:0/{}", buf.len()));
                Ok(0)
            }
            WrEv::Block => {
                self.log.push(format!("w:b/{}", buf.len()));
                Err(io::Error::new(io::ErrorKind::WouldBlock, "scripted block"))
            }
            WrEv::Err(k) => {
                self.log.push(format!("w:x{}/{}", k.name(), buf.len()));
                Err(k.io())
            }
        }
    }
    fn flush(&mut self) -> io::Result<()> {
        self.tick();
        let ev = self.fl.pop_front().unwrap_or(self.fldef);
        match ev {
            FlEv::Ok => {
                self.log.push("f:o".into());
                Ok(())
            }
            FlEv::Block => {
                self.log.push("f:b".into());
                Err(io::Error::new(io::ErrorKind::WouldBlock, "scripted block"))
            }
            FlEv::Err(k) => {
                self.log.push(format!("f:x{}", k.name()));
                Err(k.io())
            }
        }
    }
}
