//! C01 pipe family: a writer endpoint's wire output becomes the reader endpoint's inbound stream.
//! C04 two-party family: a client and a server joined by two in-memory pipes under a
//! deterministic scheduler, then driven fairly until both sides are told the connection is closed.

use crate::endpoint::run_case;
use crate::gen::{payload, utf8_text, BIG_SIZES};
use crate::util::{hex, unhex, Rng};

fn masks(rng: &mut Rng, client: bool, n: usize) -> String {
    if !client {
        return "m=-".into();
    }
    let v: Vec<String> = (0..n).map(|_| hex(&rng.mask())).collect();
    format!("m={}", v.join(","))
}

/// writer case + reader case (with `expect` lines) for one direction
pub fn gen_pipe(rng: &mut Rng, id: usize) -> (Vec<String>, Vec<String>) {
    let writer_client = rng.chance(1, 2);
    let wbuf = *rng.pick(&[0usize, 1, 100, 4096, 131072]);
    let mut a = vec![format!("case endpoint pipe-w-{id}")];
    a.push(format!(
        "cfg role={} rbuf=4096 wbuf={} maxw=inf maxmsg=none maxframe=none unmasked=0 pre=none",
        if writer_client { "client" } else { "server" },
        wbuf
    ));
    let n = rng.range(1, 6);
    let mut msgs: Vec<String> = Vec::new();
    for _ in 0..n {
        if rng.chance(1, 3) {
            let coarse = [1000usize, 4096, 65536, 1 << 40];
            let evs: Vec<String> = (0..rng.range(0, 3))
                .map(|_| if rng.chance(1, 3) { "b".to_string() } else { format!("a{}", *rng.pick(&coarse)) })
                .collect();
            a.push(format!(
                "script wr={} wrdef=a{} fl={} fldef=o",
                if evs.is_empty() { "-".into() } else { evs.join(",") },
                if rng.chance(1, 4) { 4096 } else { 1usize << 40 },
                if rng.chance(1, 4) { "b" } else { "-" }
            ));
        }
        let m = match rng.below(8) {
            0..=2 => {
                let n = *rng.pick(BIG_SIZES);
                format!("binary {}", hex(&payload(rng, n)))
            }
            3 | 4 => {
                let mut t = utf8_text(rng);
                if rng.chance(1, 4) {
                    // a long text: repeat a multi-byte character across the 16-bit boundary
                    t = "\u{20ac}".repeat(*rng.pick(&[42usize, 43, 21845, 21846])).into_bytes();
                }
                format!("text {}", hex(&t))
            }
            5 => {
                let n = *rng.pick(&[0usize, 1, 124, 125]);
                format!("ping {}", hex(&payload(rng, n)))
            }
            _ => {
                let n = *rng.pick(&[0usize, 1, 124, 125]);
                format!("pong {}", hex(&payload(rng, n)))
            }
        };
        a.push(format!("op write {} {}", m, masks(rng, writer_client, 3)));
        msgs.push(m);
    }
    a.push(format!("script wr=- wrdef=a{} fl=- fldef=o", 1usize << 40));
    a.push(format!("op flush {}", masks(rng, writer_client, 3)));
    a.push("end".into());
    // run the writer to learn its wire bytes and which writes were accepted
    let mut out = String::new();
    run_case(&a, &mut out);
    let mut wire: Vec<u8> = Vec::new();
    let mut accepted: Vec<bool> = Vec::new();
    let mut cur_is_write = false;
    for l in out.lines() {
        if let Some(w) = l.strip_prefix("wire ") {
            wire.extend(unhex(w));
        } else if l.starts_with("op ") {
            cur_is_write = l.starts_with("op write ");
        } else if let Some(r) = l.strip_prefix("res ") {
            if cur_is_write {
                accepted.push(r.starts_with("ok") || r.starts_with("err Io."));
            }
        }
    }
    let mut b = vec![format!("case endpoint pipe-r-{id}")];
    let rbuf = *rng.pick(&[0usize, 1, 7, 64, 4096, 131072]);
    let pre_len = if rng.chance(1, 4) { rng.below(wire.len().min(20) + 1) } else { 0 };
    b.push(format!(
        "cfg role={} rbuf={} wbuf=0 maxw=inf maxmsg=none maxframe=none unmasked=0 pre={}",
        if writer_client { "server" } else { "client" },
        rbuf,
        if pre_len == 0 && rng.chance(1, 2) { "none".to_string() } else { hex(&wire[..pre_len]) }
    ));
    for (m, ok) in msgs.iter().zip(accepted.iter()) {
        if *ok {
            b.push(format!("expect {m}"));
        }
    }
    if wire.len() > pre_len {
        b.push(format!("peer {}", hex(&wire[pre_len..])));
    }
    let total = wire.len() - pre_len;
    let chunk: String = match rng.below(4) {
        0 if total < 400 => "d1".into(),
        1 => format!("d{}", rng.range(1, 4096.min(total.max(1)))),
        2 => "d4097".into(),
        _ => format!("d{}", 1usize << 40),
    };
    b.push(format!("script rd={} rddef={}", if rng.chance(1, 3) { "b,d3,b" } else { "-" }, chunk));
    for _ in 0..(msgs.len() + 3) {
        b.push(format!("op read {}", masks(rng, !writer_client, 4)));
    }
    b.push("end".into());
    (a, b)
}
