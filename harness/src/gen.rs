//! Case generators for the endpoint families. Everything derives from one `Rng`.

use crate::util::{enc_frame, enc_header, hex, LenForm, Rng};

#[derive(Clone, Copy, PartialEq, Debug)]
pub enum Profile {
    /// general mix
    Mixed,
    /// close-handshake heavy (C03, C12)
    Close,
    /// write-side back-pressure with small buffers (C10, C13, C14)
    Backpressure,
    /// pings and pongs (C11)
    Ping,
    /// read only, well-formed and malformed streams, many segmentations (C02, C05)
    Codec,
    /// boundary payload sizes, both directions (C01, C09)
    Sizes,
    /// text fragments with every kind of UTF-8 content (C08)
    Utf8,
    /// size limits (C06)
    Limits,
    /// hostile transport: errors, zero writes, EOF anywhere (C07)
    Hostile,
    /// write buffers smaller than the frames that have to go through them (C07, C14)
    Tinybuf,
}

pub fn profile_of(name: &str) -> Profile {
    match name {
        "mixed" => Profile::Mixed,
        "close" => Profile::Close,
        "backpressure" => Profile::Backpressure,
        "ping" => Profile::Ping,
        "codec" => Profile::Codec,
        "sizes" => Profile::Sizes,
        "utf8" => Profile::Utf8,
        "limits" => Profile::Limits,
        "hostile" => Profile::Hostile,
        "tinybuf" => Profile::Tinybuf,
        _ => panic!("unknown profile {name}"),
    }
}

pub const VALID_UTF8: &[&[u8]] = &[
    b"",
    b"a",
    b"hello",
    "\u{e9}".as_bytes(),
    "\u{20ac}".as_bytes(),
    "\u{1F600}".as_bytes(),
    "x\u{7ff}y\u{800}z\u{ffff}".as_bytes(),
    "\u{10000}\u{10ffff}".as_bytes(),
    "\u{d7ff}\u{e000}".as_bytes(),
    "Protocol violation".as_bytes(),
];

pub const INVALID_UTF8: &[&[u8]] = &[
    &[0x80],
    &[0xc0, 0x80],
    &[0xc1, 0xbf],
    &[0xe0, 0x80, 0x80],
    &[0xed, 0xa0, 0x80],
    &[0xf0, 0x80, 0x80, 0x80],
    &[0xf4, 0x90, 0x80, 0x80],
    &[0xf5, 0x80, 0x80, 0x80],
    &[0xff],
    &[0x61, 0xe2, 0x82],
    &[0xe2, 0x82],
    &[0xf0, 0x9f, 0x98],
    &[0xc3],
    &[0x61, 0x80, 0x62],
    &[0xe2, 0x28, 0xa1],
    // a multi-byte character interrupted by text that is valid on its own
    &[0xc3, 0x61, 0xa9],
    &[0xe2, 0x82, 0x6f, 0x6b, 0xac],
    &[0x78, 0xf0, 0x9f, 0xc3, 0xa9, 0x21, 0x98, 0x80, 0x7a],
    &[0xf0, 0x61, 0x9f, 0x62, 0x98, 0x63, 0x80],
];

pub fn utf8_text(rng: &mut Rng) -> Vec<u8> {
    let mut v = Vec::new();
    for _ in 0..rng.range(0, 3) {
        { let s: &[u8] = *rng.pick(VALID_UTF8); v.extend_from_slice(s); }
    }
    v
}

/// a byte string that is mostly valid UTF-8, sometimes broken in a specific way
pub fn utf8_maybe(rng: &mut Rng) -> Vec<u8> {
    let mut v = utf8_text(rng);
    match rng.below(6) {
        0 => { let s: &[u8] = *rng.pick(INVALID_UTF8); v.extend_from_slice(s); }
        1 => {
            let bad = *rng.pick(INVALID_UTF8);
            let at = rng.below(v.len() + 1);
            let tail = v.split_off(at);
            v.extend_from_slice(bad);
            v.extend_from_slice(&tail);
        }
        2 => {
            if !v.is_empty() {
                let n = rng.below(v.len());
                v.truncate(n);
            }
        }
        _ => {}
    }
    v
}

pub const SIZES: &[usize] = &[0, 1, 2, 5, 124, 125, 126, 127, 128, 300];
pub const SMALL_SIZES: &[usize] = &[0, 1, 2, 5, 60, 124, 125, 126, 127];
pub const BIG_SIZES: &[usize] =
    &[0, 1, 125, 126, 127, 4095, 4096, 4097, 65535, 65536, 65537, 70000];

pub fn payload(rng: &mut Rng, n: usize) -> Vec<u8> {
    // cheap but position-dependent content, so that reordering or loss is visible
    let s = rng.next();
    (0..n).map(|i| (s as usize).wrapping_add(i.wrapping_mul(31)) as u8).collect()
}

pub struct PeerGen {
    /// the endpoint under test is a server, so the peer masks
    pub mask_frames: bool,
}

impl PeerGen {
    fn mask(&self, rng: &mut Rng) -> Option<[u8; 4]> {
        if self.mask_frames {
            Some(rng.mask())
        } else {
            None
        }
    }

    pub fn frame(&self, rng: &mut Rng, fin: bool, opcode: u8, payload: &[u8]) -> Vec<u8> {
        enc_frame(fin, 0, opcode, self.mask(rng), payload, LenForm::Minimal)
    }

    pub fn close(&self, rng: &mut Rng) -> Vec<u8> {
        let p: Vec<u8> = match rng.below(10) {
            0 | 1 => vec![],
            2 => vec![0x03],
            3 => {
                let mut v = 1000u16.to_be_bytes().to_vec();
                { let s: &[u8] = *rng.pick(INVALID_UTF8); v.extend_from_slice(s); }
                v
            }
            4 => {
                // any class of code with a reason that is not UTF-8
                let code: u16 = *rng.pick(&[1000u16, 1005, 1006, 1015, 1016, 2999, 999, 0, 3000, 4999, 5000, 65535]);
                let mut v = code.to_be_bytes().to_vec();
                { let s: &[u8] = *rng.pick(INVALID_UTF8); v.extend_from_slice(s); }
                v
            }
            _ => {
                let code: u16 = *rng.pick(&[
                    1000, 1001, 1002, 1003, 1004, 1005, 1006, 1007, 1011, 1013, 1014, 1015, 1016,
                    2999, 3000, 3999, 4000, 4999, 5000, 0, 999, 65535,
                ]);
                let mut v = code.to_be_bytes().to_vec();
                if rng.chance(1, 2) {
                    v.extend_from_slice(&utf8_text(rng));
                }
                if rng.chance(1, 6) {
                    // a reason at or just below the largest size a control frame can carry
                    let n = *rng.pick(&[120usize, 121, 122, 123]);
                    v.truncate(2);
                    v.extend((0..n).map(|i| b'a' + (i % 26) as u8));
                }
                v.truncate(125);
                v
            }
        };
        self.frame(rng, true, 8, &p)
    }

    /// a well-formed message, possibly fragmented, possibly with control frames interleaved
    pub fn message(&self, rng: &mut Rng, sizes: &[usize], text_kind: u8) -> Vec<u8> {
        let text = rng.chance(1, 2);
        let body = if text {
            match text_kind {
                0 => utf8_text(rng),
                _ => utf8_maybe(rng),
            }
        } else {
            let n = *rng.pick(sizes);
            payload(rng, n)
        };
        let opcode = if text { 1 } else { 2 };
        let nfrag = if text && text_kind == 1 {
            if rng.chance(2, 3) { rng.range(2, 6) } else { 1 }
        } else if rng.chance(1, 3) {
            rng.range(2, 4)
        } else {
            1
        };
        if nfrag == 1 {
            return self.frame(rng, true, opcode, &body);
        }
        let mut cuts: Vec<usize> = (0..nfrag - 1).map(|_| rng.below(body.len() + 1)).collect();
        cuts.sort();
        let mut out = Vec::new();
        let mut prev = 0;
        for (i, c) in cuts.iter().chain(std::iter::once(&body.len())).enumerate() {
            let last = i == nfrag - 1;
            out.extend(self.frame(rng, last, if i == 0 { opcode } else { 0 }, &body[prev..*c]));
            prev = *c;
            if !last && rng.chance(1, 4) {
                let n = rng.range(0, 5);
                let p = payload(rng, n);
                let op = if rng.chance(1, 2) { 9 } else { 10 };
                out.extend(self.frame(rng, true, op, &p));
            }
        }
        out
    }

    /// one frame that breaks exactly one rule
    pub fn violation(&self, rng: &mut Rng) -> Vec<u8> {
        let n0 = rng.range(0, 6);
        let p = payload(rng, n0);
        match rng.below(12) {
            0 => { let r = 1u8 << rng.below(3); enc_frame(true, r, 2, self.mask(rng), &p, LenForm::Minimal) }
            1 => { let o = *rng.pick(&[3u8, 4, 5, 6, 7]); self.frame(rng, true, o, &p) }
            2 => { let o = *rng.pick(&[11u8, 12, 13, 14, 15]); self.frame(rng, true, o, &p) }
            3 => { let o = *rng.pick(&[8u8, 9, 10]); self.frame(rng, false, o, &p) }
            4 => {
                let big = payload(rng, 126);
                { let o = *rng.pick(&[8u8, 9, 10]); self.frame(rng, true, o, &big) }
            }
            5 => { let f = rng.chance(1, 2); self.frame(rng, f, 0, &p) }
            6 => {
                let mut v = self.frame(rng, false, 2, &p);
                let o = *rng.pick(&[1u8, 2]);
                v.extend(self.frame(rng, true, o, &p));
                v
            }
            7 => {
                // masked in the wrong direction
                let m = if self.mask_frames { None } else { Some(rng.mask()) };
                enc_frame(true, 0, 2, m, &p, LenForm::Minimal)
            }
            8 => self.frame(rng, true, 8, &[0x03]),
            9 => enc_frame(true, 0, 2, self.mask(rng), &p, LenForm::Force16),
            10 => enc_frame(true, 0, 2, self.mask(rng), &p, LenForm::Force64),
            _ => {
                // header announcing a huge length, nothing following
                let len = *rng.pick(&[
                    1u64 << 32,
                    (1u64 << 63) - 1,
                    1u64 << 63,
                    u64::MAX,
                    70000,
                ]);
                enc_header(true, 0, 2, self.mask(rng), len)
            }
        }
    }
}

fn masks_tok(rng: &mut Rng, client: bool, n: usize) -> String {
    if !client {
        return "m=-".into();
    }
    let v: Vec<String> = (0..n).map(|_| hex(&rng.mask())).collect();
    format!("m={}", v.join(","))
}

pub struct CaseCfg {
    pub client: bool,
    pub line: String,
    pub wbuf: usize,
    pub maxw: Option<usize>,
}

pub fn gen_cfg(rng: &mut Rng, prof: Profile) -> CaseCfg {
    let client = rng.chance(1, 2);
    let rbuf = *rng.pick(&[0usize, 1, 7, 64, 4096, 131072]);
    let (wbuf, maxw): (usize, Option<usize>) = match prof {
        Profile::Backpressure => {
            // the maximum always holds the largest single frame of the profile (125 + 14 bytes)
            let w = *rng.pick(&[0usize, 1, 5, 20, 100]);
            let m = match rng.below(5) {
                0 => None,
                // exactly the largest frame of the profile for this role (127-byte payload, 16-bit length)
                4 => Some(if client { 135 } else { 131 }),
                1 => Some(140 + rng.below(4)),
                2 => Some(150 + rng.below(60)),
                _ => Some(w + 280),
            };
            (w, m)
        }
        Profile::Sizes => (*rng.pick(&[0usize, 1, 4096, 131072]), None),
        Profile::Tinybuf => {
            // the maximum may be smaller than a control frame that has to be sent
            let w = *rng.pick(&[0usize, 0, 1, 5]);
            (w, Some(w + 1 + rng.below(140)))
        }
        _ => {
            let w = *rng.pick(&[0usize, 0, 1, 10, 100, 131072]);
            // at least the largest single frame used by these profiles (300 + 14 bytes)
            let m = if rng.chance(1, 4) { Some(w + 320 + rng.below(200)) } else { None };
            (w, m)
        }
    };
    let (maxmsg, maxframe): (Option<usize>, Option<usize>) = match prof {
        Profile::Limits => (
            Some(*rng.pick(&[0usize, 1, 5, 10, 125, 126, 300])),
            Some(*rng.pick(&[0usize, 1, 5, 10, 125, 126, 300])),
        ),
        Profile::Sizes => (Some(64 << 20), Some(16 << 20)),
        Profile::Hostile => (Some(1 << 20), Some(1 << 16)),
        _ => {
            if rng.chance(1, 5) {
                (Some(*rng.pick(&[4usize, 10, 200])), Some(*rng.pick(&[4usize, 10, 200])))
            } else {
                (Some(64 << 20), Some(16 << 20))
            }
        }
    };
    let unmasked = rng.chance(1, 4);
    // now and then the field is not set at all (the default must not allow unmasked client frames)
    let unmasked_tok = if rng.chance(1, 6) { "default".to_string() } else { format!("{}", unmasked as u8) };
    let show = |o: Option<usize>, inf: &str| o.map(|x| x.to_string()).unwrap_or(inf.into());
    let line = format!(
        "cfg role={} rbuf={} wbuf={} maxw={} maxmsg={} maxframe={} unmasked={} pre=",
        if client { "client" } else { "server" },
        rbuf,
        wbuf,
        show(maxw, "inf"),
        show(maxmsg, "none"),
        show(maxframe, "none"),
        unmasked_tok
    );
    CaseCfg { client, line, wbuf, maxw }
}

fn rd_script(rng: &mut Rng, hostile: bool, coarse: bool) -> String {
    let small: &[usize] = if coarse { &[1000, 4096, 4097, 65536] } else { &[1, 1, 2, 3, 5, 8, 64, 1000] };
    let smalldef: &[usize] = if coarse { &[1000, 4096, 70001] } else { &[1, 2, 7, 100] };
    let n = rng.range(0, 6);
    let mut evs: Vec<String> = Vec::new();
    for _ in 0..n {
        let e = match rng.below(if hostile { 14 } else { 10 }) {
            0..=4 => format!("d{}", *rng.pick(small)),
            5 | 6 => "b".into(),
            7..=9 => format!("d{}", 1usize << 40),
            10 => "e".into(),
            11 => "xreset".into(),
            12 => "xintr".into(),
            _ => "xother".into(),
        };
        evs.push(e);
    }
    let def = if rng.chance(1, 3) {
        format!("d{}", *rng.pick(smalldef))
    } else if hostile && rng.chance(1, 6) {
        "e".into()
    } else {
        format!("d{}", 1usize << 40)
    };
    format!("rd={} rddef={}", if evs.is_empty() { "-".into() } else { evs.join(",") }, def)
}

fn wr_script(rng: &mut Rng, prof: Profile) -> String {
    let hostile = prof == Profile::Hostile;
    let coarse = prof == Profile::Sizes;
    let small: &[usize] = if coarse { &[1000, 4096, 65536] } else { &[1, 1, 2, 3, 5, 10, 100] };
    let smalldef: &[usize] = if coarse { &[1000, 4096, 70001] } else { &[1, 3, 7, 50] };
    let n = rng.range(0, 5);
    let mut evs: Vec<String> = Vec::new();
    for _ in 0..n {
        let e = match rng.below(if hostile { 13 } else { 10 }) {
            0..=2 => format!("a{}", *rng.pick(small)),
            3..=5 => "b".into(),
            6..=9 => format!("a{}", 1usize << 40),
            10 => "z".into(),
            11 => "xreset".into(),
            _ => "xother".into(),
        };
        evs.push(e);
    }
    let def = match rng.below(6) {
        0 if prof != Profile::Sizes => "b".to_string(),
        2 if hostile && rng.chance(1, 3) => "z".to_string(),
        1 => format!("a{}", *rng.pick(smalldef)),
        _ => format!("a{}", 1usize << 40),
    };
    let mut fls: Vec<String> = Vec::new();
    for _ in 0..rng.range(0, 2) {
        fls.push(
            match rng.below(if hostile { 5 } else { 3 }) {
                0 | 1 => "b",
                2 => "o",
                3 => "xreset",
                _ => "xother",
            }
            .to_string(),
        );
    }
    format!(
        "wr={} wrdef={} fl={} fldef=o",
        if evs.is_empty() { "-".into() } else { evs.join(",") },
        def,
        if fls.is_empty() { "-".into() } else { fls.join(",") }
    )
}

/// One random endpoint case.
pub fn gen_endpoint(rng: &mut Rng, prof: Profile, id: usize) -> Vec<String> {
    let cc = gen_cfg(rng, prof);
    let pg = PeerGen { mask_frames: !cc.client };
    let mut lines = vec![format!("case endpoint {prof:?}-{id}")];
    let sizes: &[usize] = match prof {
        Profile::Sizes => BIG_SIZES,
        Profile::Backpressure | Profile::Tinybuf => SMALL_SIZES,
        _ => SIZES,
    };
    let text_kind: u8 = if prof == Profile::Utf8 || prof == Profile::Codec { 1 } else { 0 };

    // possibly start with pre-read bytes
    let mut first_peer: Vec<u8> = Vec::new();
    let with_pre = rng.chance(1, 4);
    if with_pre {
        first_peer = pg.message(rng, sizes, text_kind);
        let k = rng.below(first_peer.len() + 1);
        let (pre, rest) = first_peer.split_at(k);
        lines.push(format!("{}{}", cc.line, hex(pre)));
        if !rest.is_empty() {
            lines.push(format!("peer {}", hex(rest)));
        }
    } else {
        lines.push(format!("{}none", cc.line));
    }
    let _ = first_peer;

    let nsteps = match prof {
        Profile::Sizes => rng.range(1, 5),
        _ => rng.range(1, 14),
    };
    let (w_read, w_write, w_flush, w_close, w_pong): (usize, usize, usize, usize, usize) = match prof
    {
        Profile::Codec | Profile::Utf8 | Profile::Limits => (20, 0, 0, 0, 0),
        Profile::Close => (10, 3, 3, 4, 1),
        Profile::Backpressure => (8, 6, 4, 2, 2),
        Profile::Tinybuf => (8, 5, 5, 2, 2),
        Profile::Ping => (10, 3, 3, 1, 3),
        Profile::Sizes => (4, 8, 3, 0, 0),
        Profile::Hostile => (8, 4, 3, 2, 1),
        Profile::Mixed => (8, 4, 3, 2, 1),
    };
    let total = w_read + w_write + w_flush + w_close + w_pong;
    for _ in 0..nsteps {
        // peer items
        let p_peer = match prof {
            Profile::Sizes => 2,
            _ => 3,
        };
        if rng.chance(p_peer, 5) {
            let mut bytes = Vec::new();
            for _ in 0..rng.range(1, 3) {
                let r = rng.below(100);
                let item = match prof {
                    Profile::Ping | Profile::Tinybuf => match r {
                        0..=59 => {
                            let n = *rng.pick(&[0usize, 1, 2, 10, 125]);
                            let p = payload(rng, n);
                            pg.frame(rng, true, 9, &p)
                        }
                        60..=69 => {
                            let p = payload(rng, 3);
                            pg.frame(rng, true, 10, &p)
                        }
                        70..=89 => pg.message(rng, sizes, 0),
                        _ => pg.close(rng),
                    },
                    Profile::Close => match r {
                        0..=34 => pg.close(rng),
                        35..=54 => {
                            let p = payload(rng, 2);
                            pg.frame(rng, true, 9, &p)
                        }
                        55..=84 => pg.message(rng, sizes, 0),
                        85..=94 => pg.violation(rng),
                        _ => rng.bytes(4),
                    },
                    Profile::Codec | Profile::Hostile => match r {
                        0..=54 => pg.message(rng, sizes, text_kind),
                        55..=64 => {
                            let p = payload(rng, 2);
                            pg.frame(rng, true, 9, &p)
                        }
                        65..=69 => pg.close(rng),
                        70..=89 => pg.violation(rng),
                        _ => { let n = rng.range(1, 12); rng.bytes(n) }
                    },
                    Profile::Limits => match r {
                        0..=79 => pg.message(rng, &[0, 1, 4, 5, 6, 9, 10, 11, 125, 126, 127, 299, 300, 301], 0),
                        80..=89 => pg.violation(rng),
                        _ => {
                            let p = payload(rng, 2);
                            pg.frame(rng, true, 9, &p)
                        }
                    },
                    _ => match r {
                        0..=49 => pg.message(rng, sizes, text_kind),
                        50..=64 => {
                            let n = *rng.pick(&[0usize, 2, 125]);
                            let p = payload(rng, n);
                            pg.frame(rng, true, 9, &p)
                        }
                        65..=69 => {
                            let p = payload(rng, 2);
                            pg.frame(rng, true, 10, &p)
                        }
                        70..=84 => pg.close(rng),
                        85..=94 => pg.violation(rng),
                        _ => { let n = rng.range(1, 6); rng.bytes(n) }
                    },
                };
                bytes.extend(item);
            }
            lines.push(format!("peer {}", hex(&bytes)));
        }
        // script changes
        if rng.chance(2, 5) {
            let hostile = prof == Profile::Hostile;
            let mut s = String::from("script ");
            let both = rng.below(3);
            if both != 1 {
                s.push_str(&rd_script(rng, hostile, prof == Profile::Sizes));
                s.push(' ');
            }
            if both != 0 && !matches!(prof, Profile::Codec | Profile::Utf8 | Profile::Limits) {
                s.push_str(&wr_script(rng, prof));
            }
            lines.push(s.trim_end().to_string());
        }
        // now and then the configuration changes on the live connection (always to a valid one)
        if matches!(prof, Profile::Backpressure | Profile::Hostile | Profile::Limits | Profile::Tinybuf) && rng.chance(1, 14) {
            let w = *rng.pick(&[0usize, 1, 20, 100]);
            let mw = match rng.below(4) {
                0 => "inf".to_string(),
                1 => format!("{}", w + 1 + rng.below(8)),
                2 => format!("{}", w + 100 + rng.below(100)),
                _ => format!("{}", w + 400),
            };
            // the limits stay finite (the quantifier of C06 / C07)
            let lim = |rng: &mut Rng| match rng.below(3) {
                0 => format!("{}", *rng.pick(&[0usize, 1, 5, 125, 126, 300])),
                _ => format!("{}", 1usize << 20),
            };
            lines.push(format!(
                "op setcfg role={} rbuf=4096 wbuf={w} maxw={mw} maxmsg={} maxframe={} unmasked={} m=-",
                if cc.client { "client" } else { "server" },
                lim(rng),
                lim(rng),
                rng.chance(1, 3) as u8
            ));
        }
        // the op
        let r = rng.below(total);
        let m = masks_tok(rng, cc.client, 10);
        let op = if r < w_read {
            format!("op read {m}")
        } else if r < w_read + w_write {
            let n = *rng.pick(sizes);
            let raw = matches!(prof, Profile::Mixed | Profile::Sizes | Profile::Hostile) && rng.chance(1, 8);
            match rng.below(10) {
                _ if raw => {
                    // a raw frame, as handed back by `WriteBufferFull` or built by the user: it may
                    // already carry a masking key (a client must replace it, a server sends it masked)
                    let key = if rng.chance(1, 2) { hex(&rng.mask()) } else { "-".to_string() };
                    let (bits, opc) = *rng.pick(&[("1000", 2u8), ("1000", 1), ("0000", 2), ("1000", 0), ("1000", 9), ("1000", 10)]);
                    let body = if opc == 1 { utf8_text(rng) } else { payload(rng, n.min(125)) };
                    format!("op write frame {bits} {opc} {key} {} {m}", hex(&body))
                }
                0..=3 => format!("op {} binary {} {m}", if rng.chance(1, 5) { "send" } else { "write" }, hex(&payload(rng, n))),
                4..=6 => format!("op {} text {} {m}", if rng.chance(1, 5) { "send" } else { "write" }, hex(&utf8_text(rng))),
                7 | 8 => {
                    let n = *rng.pick(&[0usize, 1, 125]);
                    format!("op write ping {} {m}", hex(&payload(rng, n)))
                }
                _ => {
                    let code = *rng.pick(&[1000u16, 1001, 3000, 4999]);
                    format!("op write close {} {} {m}", code, hex(&utf8_text(rng)))
                }
            }
        } else if r < w_read + w_write + w_flush {
            format!("op flush {m}")
        } else if r < w_read + w_write + w_flush + w_close {
            if rng.chance(1, 2) {
                format!("op close none {m}")
            } else {
                let code = *rng.pick(&[1000u16, 1001, 1002, 1011, 3000, 4000]);
                let mut reason = utf8_text(rng);
                if rng.chance(1, 6) {
                    let n = *rng.pick(&[120usize, 121, 122, 123]);
                    reason = (0..n).map(|i| b'a' + (i % 26) as u8).collect();
                }
                reason.truncate(123);
                while std::str::from_utf8(&reason).is_err() {
                    reason.pop();
                }
                format!("op close {} {} {m}", code, hex(&reason))
            }
        } else {
            let n = *rng.pick(&[0usize, 1, 5, 125]);
            format!("op write pong {} {m}", hex(&payload(rng, n)))
        };
        lines.push(op);
    }
    // drain: let the transport work again and flush / read a few times
    if rng.chance(2, 3) {
        lines.push(format!(
            "script rd=- rddef=d{} wr=- wrdef=a{} fl=- fldef=o",
            1usize << 40,
            1usize << 40
        ));
        for _ in 0..rng.range(1, 3) {
            let m = masks_tok(rng, cc.client, 10);
            if rng.chance(1, 2) {
                lines.push(format!("op flush {m}"));
            } else {
                lines.push(format!("op read {m}"));
            }
        }
    }
    let _ = (cc.wbuf, cc.maxw);
    lines.push("end".into());
    lines
}

/// C19: server reads of masked frames and client writes, payload lengths 0..=67 at every offset
pub fn gen_maskpaths(rng: &mut Rng) -> Vec<Vec<String>> {
    let mut cases = Vec::new();
    let mut id = 0;
    for len in 0..=67usize {
        for pad in 0..8usize {
            // decode in place in the read buffer
            let mut lines = vec![format!("case endpoint maskpaths-r-{id}")];
            lines.push("cfg role=server rbuf=4096 wbuf=0 maxw=inf maxmsg=none maxframe=none unmasked=0 pre=none".into());
            let a = enc_frame(true, 0, 2, Some(rng.mask()), &payload(rng, pad), LenForm::Minimal);
            let b = enc_frame(true, 0, 2, Some(rng.mask()), &payload(rng, len), LenForm::Minimal);
            lines.push(format!("peer {}{}", hex(&a).replace('-', ""), hex(&b)));
            lines.push("op read m=-".into());
            lines.push("op read m=-".into());
            lines.push("end".into());
            cases.push(lines);
            if pad % 2 == 0 {
                // the same with unmasked client frames allowed: a masked frame is still unmasked,
                // an unmasked one is delivered as it is
                let mut lines = vec![format!("case endpoint maskpaths-u-{id}")];
                lines.push("cfg role=server rbuf=4096 wbuf=0 maxw=inf maxmsg=none maxframe=none unmasked=1 pre=none".into());
                let a = enc_frame(true, 0, 2, Some(rng.mask()), &payload(rng, pad), LenForm::Minimal);
                let b = enc_frame(true, 0, 2, None, &payload(rng, len), LenForm::Minimal);
                let c = enc_frame(true, 0, 2, Some(rng.mask()), &payload(rng, len), LenForm::Minimal);
                lines.push(format!("peer {}{}{}", hex(&a).replace('-', ""), hex(&b), hex(&c)));
                lines.push("op read m=-".into());
                lines.push("op read m=-".into());
                lines.push("op read m=-".into());
                lines.push("end".into());
                cases.push(lines);
            }
            // encode into the shared write buffer
            let mut lines = vec![format!("case endpoint maskpaths-w-{id}")];
            lines.push("cfg role=client rbuf=4096 wbuf=4096 maxw=inf maxmsg=none maxframe=none unmasked=0 pre=none".into());
            lines.push(format!("op write binary {} m={}", hex(&payload(rng, pad)), hex(&rng.mask())));
            lines.push(format!("op write binary {} m={}", hex(&payload(rng, len)), hex(&rng.mask())));
            lines.push("op flush m=-".into());
            lines.push("end".into());
            cases.push(lines);
            id += 1;
        }
    }
    cases
}

/// The write-buffer bound at the exact encoded size of a frame, for every header-size class:
/// a small frame stays unsent (the transport refuses), then a frame of `n` bytes is written with
/// `max_write_buffer_size` = unsent + encoded size - delta.
pub fn gen_wbound(rng: &mut Rng) -> Vec<Vec<String>> {
    let mut cases = Vec::new();
    let mut id = 0;
    for (role, client) in [("server", false), ("client", true)] {
        let mask = if client { 4 } else { 0 };
        for n in [0usize, 1, 125, 126, 127, 65535, 65536, 65537] {
            let hdr = 2 + if n < 126 { 0 } else if n < 65536 { 2 } else { 8 } + mask;
            let first = 2 + mask + 3;
            for delta in 0..8usize {
                let maxw = first + hdr + n - delta.min(first + hdr + n - 1);
                let mut lines = vec![format!("case endpoint wbound-{id}")];
                id += 1;
                lines.push(format!(
                    "cfg role={role} rbuf=4096 wbuf=0 maxw={maxw} maxmsg=none maxframe=none unmasked=0 pre=none"
                ));
                lines.push(format!("script rd=- rddef=b wr=- wrdef=b fl=- fldef=o"));
                lines.push(format!("op write binary {} {}", hex(&[1, 2, 3]), masks_tok(rng, client, 2)));
                lines.push(format!("op write binary {} {}", hex(&payload(rng, n)), masks_tok(rng, client, 2)));
                lines.push(format!("script rd=- rddef=b wr=- wrdef=a{} fl=- fldef=o", 1usize << 40));
                lines.push(format!("op flush {}", masks_tok(rng, client, 2)));
                lines.push(format!("op write binary {} {}", hex(&payload(rng, n)), masks_tok(rng, client, 2)));
                lines.push(format!("op flush {}", masks_tok(rng, client, 2)));
                lines.push("end".into());
                cases.push(lines);
            }
        }
    }
    cases
}

/// The configuration is replaced on the live connection (`WebSocket::set_config`).
/// Shape A: the new configuration is installed before anything else happens, so the connection
/// must behave exactly as one created with it (the monitors then judge against the installed
/// configuration). Shape B: `max_write_buffer_size` is lowered below what is already buffered, then
/// another write. Shape C: `max_message_size` is lowered below what a fragmented message has already
/// accumulated, then the rest of the message arrives.
pub fn gen_cfglive(rng: &mut Rng, count: usize) -> Vec<Vec<String>> {
    let mut cases = Vec::new();
    for id in 0..count {
        let mut r = rng.fork();
        let rng = &mut r;
        match id % 4 {
            0 | 1 => {
                let prof = *rng.pick(&[Profile::Mixed, Profile::Close, Profile::Limits, Profile::Hostile, Profile::Backpressure, Profile::Codec]);
                let mut lines = gen_endpoint(rng, prof, id);
                lines[0] = format!("case endpoint cfglive-a{id}");
                if lines.iter().any(|l| l.starts_with("op setcfg")) {
                    continue;
                }
                let Some(cfgline) = lines.iter().find(|l| l.starts_with("cfg ")).cloned() else { continue };
                let client = cfgline.contains("role=client");
                let w = *rng.pick(&[0usize, 1, 20, 100, 131072]);
                let mw = match rng.below(4) {
                    0 => "inf".to_string(),
                    1 => format!("{}", w + 1 + rng.below(8)),
                    2 => format!("{}", w + 100 + rng.below(100)),
                    _ => format!("{}", w + 70000),
                };
                let lim = |rng: &mut Rng| match rng.below(4) {
                    0 => format!("{}", *rng.pick(&[0usize, 1, 5, 125, 126, 127, 300])),
                    1 => format!("{}", 1usize << 16),
                    _ => format!("{}", 1usize << 20),
                };
                let set = format!(
                    "op setcfg role={} rbuf=4096 wbuf={w} maxw={mw} maxmsg={} maxframe={} unmasked={} m=-",
                    if client { "client" } else { "server" },
                    lim(rng),
                    lim(rng),
                    rng.chance(1, 2) as u8
                );
                let at = lines.iter().position(|l| l.starts_with("op ")).unwrap_or(lines.len() - 1);
                lines.insert(at, set);
                cases.push(lines);
            }
            2 => {
                let client = rng.chance(1, 2);
                let role = if client { "client" } else { "server" };
                let mask = if client { 4 } else { 0 };
                let wbuf = *rng.pick(&[0usize, 3, 40]);
                let mut lines = vec![format!("case endpoint cfglive-b{id}")];
                lines.push(format!("cfg role={role} rbuf=4096 wbuf={wbuf} maxw=100000 maxmsg=none maxframe=none unmasked=0 pre=none"));
                lines.push("script rd=- rddef=b wr=- wrdef=b fl=- fldef=o".to_string());
                let k = rng.range(1, 4);
                let mut unsent = 0usize;
                for _ in 0..k {
                    let n = *rng.pick(&[0usize, 1, 30, 125, 126, 400]);
                    unsent += n + 2 + if n < 126 { 0 } else { 2 } + mask;
                    lines.push(format!("op write binary {} {}", hex(&payload(rng, n)), masks_tok(rng, client, 2)));
                }
                // lowered to below, at, or just above what is buffered
                let base = unsent.max(wbuf + 1);
                let maxw = match rng.below(4) {
                    0 => wbuf + 1,
                    1 => base,
                    2 => base + rng.range(1, 12),
                    _ => (base / 2).max(wbuf + 1),
                };
                lines.push(format!("op setcfg role={role} rbuf=4096 wbuf={wbuf} maxw={maxw} maxmsg=none maxframe=none unmasked=0 m=-"));
                let n2 = *rng.pick(&[0usize, 1, 3, 9, 50]);
                let p2 = hex(&payload(rng, n2));
                lines.push(format!("op write binary {} {}", p2, masks_tok(rng, client, 2)));
                lines.push(format!("script rd=- rddef=b wr=- wrdef=a{} fl=- fldef=o", 1usize << 40));
                lines.push(format!("op flush {}", masks_tok(rng, client, 2)));
                lines.push(format!("op write binary {} {}", p2, masks_tok(rng, client, 2)));
                lines.push(format!("op flush {}", masks_tok(rng, client, 2)));
                lines.push("end".into());
                cases.push(lines);
            }
            _ => {
                let client = rng.chance(1, 2);
                let role = if client { "client" } else { "server" };
                let pg = PeerGen { mask_frames: !client };
                let text = rng.chance(1, 2);
                let n1 = *rng.pick(&[1usize, 10, 50, 126, 300]);
                let body = |rng: &mut Rng, n: usize| -> Vec<u8> { if text { vec![0x61; n] } else { payload(rng, n) } };
                let b1 = body(rng, n1);
                let first = pg.frame(rng, false, if text { 1 } else { 2 }, &b1);
                let n2 = *rng.pick(&[0usize, 0, 1, 5]);
                let mut rest = Vec::new();
                if rng.chance(1, 3) {
                    rest.extend(pg.frame(rng, false, 0, &[]));
                }
                let b2 = body(rng, n2);
                rest.extend(pg.frame(rng, true, 0, &b2));
                rest.extend(pg.frame(rng, true, 9, &[0x70]));
                let mut bytes = first.clone();
                bytes.extend(&rest);
                // the new limit: below, at, or above what has been accumulated (and what it will be)
                let maxmsg = match rng.below(5) {
                    0 => 0,
                    1 => n1 - 1,
                    2 => n1,
                    3 => n1 + n2,
                    _ => n1 + n2 + 1,
                };
                let mut lines = vec![format!("case endpoint cfglive-c{id}")];
                lines.push(format!("cfg role={role} rbuf=4096 wbuf=0 maxw=inf maxmsg=100000 maxframe=100000 unmasked=0 pre=none"));
                lines.push(format!("peer {}", hex(&bytes)));
                lines.push(format!("script rd=d{} rddef=b wr=- wrdef=a{} fl=- fldef=o", first.len(), 1usize << 40));
                let m = masks_tok(rng, client, 2);
                lines.push(format!("op read {m}"));
                lines.push(format!("op setcfg role={role} rbuf=4096 wbuf=0 maxw=inf maxmsg={maxmsg} maxframe=100000 unmasked=0 m=-"));
                lines.push(format!("script rd=- rddef=d{} wr=- wrdef=a{} fl=- fldef=o", 1usize << 40, 1usize << 40));
                lines.push(format!("op read {m}"));
                lines.push(format!("op read {m}"));
                lines.push("end".into());
                cases.push(lines);
            }
        }
    }
    cases
}

/// Every way of cutting some short byte strings (valid and invalid UTF-8, incl. characters
/// interrupted by text that is valid on its own) into text fragments, for both roles.
pub fn gen_utf8cuts(rng: &mut Rng) -> Vec<Vec<String>> {
    let samples: &[&[u8]] = &[
        &[0xc3, 0x61, 0xa9],
        &[0xe2, 0x82, 0x6f, 0x6b, 0xac],
        &[0x78, 0xf0, 0x9f, 0x79, 0x98, 0x80],
        &[0xf0, 0x61, 0x9f, 0x62, 0x98, 0x63, 0x80],
        &[0x61, 0xf0, 0x9f, 0x98, 0x80, 0x62],
        &[0xe2, 0x82, 0xac, 0xc3, 0xa9],
        &[0xc3, 0xa9, 0xc3],
        &[0xed, 0xa0, 0x80, 0x61],
        &[0xf4, 0x8f, 0xbf, 0xbf, 0x61],
        &[0xf4, 0x90, 0x80, 0x80],
        &[0xe0, 0xa0, 0x80, 0xe0, 0x9f, 0xbf],
        &[0x61, 0x62, 0x63],
        &[0xc2, 0x80, 0xdf, 0xbf],
        &[0xf0, 0x90, 0x80, 0x80, 0xc3],
    ];
    let mut cases = Vec::new();
    let mut id = 0;
    for s in samples {
        let n = s.len();
        for cuts in 0u32..(1 << (n - 1)) {
            let client = id % 2 == 0;
            let pg = PeerGen { mask_frames: !client };
            let mut frags: Vec<&[u8]> = Vec::new();
            let mut start = 0;
            for i in 0..n - 1 {
                if cuts & (1 << i) != 0 {
                    frags.push(&s[start..=i]);
                    start = i + 1;
                }
            }
            frags.push(&s[start..]);
            // now and then an empty fragment in the middle
            let with_empty = cuts % 5 == 3;
            let mut bytes = Vec::new();
            let total = frags.len();
            for (i, f) in frags.iter().enumerate() {
                let last = i == total - 1;
                bytes.extend(pg.frame(rng, last, if i == 0 { 1 } else { 0 }, f));
                if with_empty && !last {
                    bytes.extend(pg.frame(rng, false, 0, &[]));
                }
            }
            // a ping afterwards shows where the reader stands
            bytes.extend(pg.frame(rng, true, 9, &[0x70]));
            let mut lines = vec![format!("case endpoint utf8cuts-{id}")];
            lines.push(format!(
                "cfg role={} rbuf=4096 wbuf=0 maxw=inf maxmsg=none maxframe=none unmasked=0 pre=none",
                if client { "client" } else { "server" }
            ));
            lines.push(format!("peer {}", hex(&bytes)));
            lines.push(format!("script rd=- rddef=d{} wr=- wrdef=a{} fl=- fldef=o", 1usize << 40, 1usize << 40));
            let m = masks_tok(rng, client, 2);
            lines.push(format!("op read {m}"));
            lines.push(format!("op read {m}"));
            lines.push("end".into());
            cases.push(lines);
            id += 1;
        }
    }
    cases
}

/// Small-scope exhaustive enumeration for the close-handshake state machine: every sequence of
/// `depth` symbols over a fixed alphabet, for both roles and two buffer configurations.
pub fn gen_exhaustive(depth: usize) -> Vec<Vec<String>> {
    // symbols; `P` = the peer's frame bytes depend on the role (masked towards a server)
    const SYMS: &[&str] = &[
        "read", "write", "flush", "close", "ping+read", "peerclose+read", "data+read", "toggle-wr", "eof+read",
        "reset+read", "pong", "toggle-fl",
    ];
    let n = SYMS.len();
    let mut cases = Vec::new();
    let total = n.pow(depth as u32);
    let mut id = 0;
    for (role, client) in [("server", false), ("client", true)] {
        for (wbuf, maxw) in [(0usize, "inf".to_string()), (100usize, "140".to_string())] {
            for code in 0..total {
                let mut k = code;
                let mut lines = vec![format!("case endpoint exh-{depth}-{id}")];
                id += 1;
                lines.push(format!(
                    "cfg role={role} rbuf=64 wbuf={wbuf} maxw={maxw} maxmsg=none maxframe=none unmasked=0 pre=none"
                ));
                let mask = if client { None } else { Some([0x11u8, 0x22, 0x33, 0x44]) };
                let m = if client { "m=a1a2a3a4,b1b2b3b4,c1c2c3c4,d1d2d3d4" } else { "m=-" };
                let mut wr_blocked = false;
                let mut fl_blocked = false;
                for _ in 0..depth {
                    let sym = SYMS[k % n];
                    k /= n;
                    match sym {
                        "read" => lines.push(format!("op read {m}")),
                        "write" => lines.push(format!("op write binary 0102 {m}")),
                        "flush" => lines.push(format!("op flush {m}")),
                        "close" => lines.push(format!("op close 1000 6279 {m}")),
                        "pong" => lines.push(format!("op write pong 07 {m}")),
                        "ping+read" => {
                            lines.push(format!("peer {}", hex(&enc_frame(true, 0, 9, mask, &[0x68, 0x69], LenForm::Minimal))));
                            lines.push(format!("op read {m}"));
                        }
                        "peerclose+read" => {
                            lines.push(format!("peer {}", hex(&enc_frame(true, 0, 8, mask, &[0x03, 0xe9], LenForm::Minimal))));
                            lines.push(format!("op read {m}"));
                        }
                        "data+read" => {
                            lines.push(format!("peer {}", hex(&enc_frame(true, 0, 1, mask, b"x", LenForm::Minimal))));
                            lines.push(format!("op read {m}"));
                        }
                        "toggle-wr" => {
                            wr_blocked = !wr_blocked;
                            lines.push(format!("script wrdef={}", if wr_blocked { "b".to_string() } else { format!("a{}", 1usize << 40) }));
                        }
                        "toggle-fl" => {
                            fl_blocked = !fl_blocked;
                            lines.push(format!("script fldef={}", if fl_blocked { "b" } else { "o" }));
                        }
                        "eof+read" => {
                            lines.push("script rd=e".into());
                            lines.push(format!("op read {m}"));
                        }
                        "reset+read" => {
                            lines.push("script rd=xreset".into());
                            lines.push(format!("op read {m}"));
                        }
                        _ => unreachable!(),
                    }
                }
                // let everything through and drive once more
                lines.push(format!("script wrdef=a{} fldef=o", 1usize << 40));
                lines.push(format!("op flush {m}"));
                lines.push(format!("op read {m}"));
                lines.push("end".into());
                cases.push(lines);
            }
        }
    }
    cases
}

/// Exhaustive small scenarios around the single pending-control slot: a write buffer that is (almost)
/// full behind a blocked transport, then every sequence of three events out of
/// {ping A, ping B, peer Close, user pong, user close, flush, unblock, block}, then recovery.
pub fn gen_slotrace() -> Vec<Vec<String>> {
    let mut cases = Vec::new();
    let mut id = 0;
    for (role, client) in [("server", false), ("client", true)] {
        for fill in [0usize, 1] {
            for code in 0..512usize {
                let mask = if client { None } else { Some([0x21u8, 0x43, 0x65, 0x87]) };
                let m = if client { "m=a1a2a3a4,b1b2b3b4,c1c2c3c4,d1d2d3d4,e1e2e3e4" } else { "m=-" };
                let mut lines = vec![format!("case endpoint slotrace-{id}")];
                id += 1;
                lines.push(format!(
                    "cfg role={role} rbuf=64 wbuf=0 maxw=64 maxmsg=none maxframe=none unmasked=0 pre=none"
                ));
                lines.push("script wrdef=b".into());
                if fill == 1 {
                    // 61 bytes stay in the buffer: no control frame fits behind them
                    let n = if client { 55 } else { 59 };
                    lines.push(format!("op write binary {} {m}", hex(&vec![0x42u8; n])));
                }
                let mut k = code;
                for _ in 0..3 {
                    match k % 8 {
                        0 => {
                            lines.push(format!("peer {}", hex(&enc_frame(true, 0, 9, mask, &[0xaa], LenForm::Minimal))));
                            lines.push(format!("op read {m}"));
                        }
                        1 => {
                            lines.push(format!("peer {}", hex(&enc_frame(true, 0, 9, mask, &[0xbb, 0xbb], LenForm::Minimal))));
                            lines.push(format!("op read {m}"));
                        }
                        2 => {
                            lines.push(format!("peer {}", hex(&enc_frame(true, 0, 8, mask, &[0x03, 0xe8, 0x78], LenForm::Minimal))));
                            lines.push(format!("op read {m}"));
                        }
                        3 => lines.push(format!("op write pong cc {m}")),
                        4 => lines.push(format!("op close 1001 79 {m}")),
                        5 => lines.push(format!("op flush {m}")),
                        6 => lines.push(format!("script wrdef=a{}", 1usize << 40)),
                        _ => lines.push("script wrdef=b".into()),
                    }
                    k /= 8;
                }
                lines.push(format!("script wrdef=a{} fldef=o", 1usize << 40));
                lines.push(format!("op flush {m}"));
                lines.push(format!("op read {m}"));
                lines.push(format!("op read {m}"));
                lines.push("end".into());
                cases.push(lines);
            }
        }
    }
    cases
}
