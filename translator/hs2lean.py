"""hs2lean: machine translation of `HandshakeMachine::single_round` (src/handshake/machine.rs) into
Lean `do`-notation over `WsModel.GenHs.M` (lean/WsModel/HsM.lean).  Same machinery as ctx2lean;
the leaves are the read buffer, the transport with `no_block()`, the attack counters (whose
arithmetic is generated separately into Attack.lean) and the external parser.  Fails closed."""
import os
import re

from rs2lean import TranslateError, lean_variant
from rsast import parse_fn
from ctx2lean import Tr, Env, lname, paren, is_self

MACHINE = r'impl<Stream:\s*Read\s*\+\s*Write>\s+HandshakeMachine<Stream>\s*\{'
MID = r'impl<Role:\s*HandshakeRole>\s+MidHandshake<Role>\s*\{'
SITES = {('single_round', 'assert', 0): 'writingEmpty'}


def strip_ref(e):
    while e[0] in ('ref', 'paren'):
        e = e[2] if e[0] == 'ref' else e[1]
    return e


def is_stream(e):
    return e == ('field', ('path', ['self']), 'stream')


class HsTr(Tr):
    SELF_FIELDS = {}
    SELF_SETTERS = {}
    RES = 'HR'
    PANIC = 'HPanic'
    ALL_CTORS = dict(Tr.ALL_CTORS, HandshakeState={'Reading', 'Writing', 'Flushing'},
                     RoundResult={'WouldBlock', 'Incomplete', 'StageFinished'}, ProcessingResult={'Continue', 'Done'})

    def local(self, e, env, mutable=False):
        ok = e[0] == 'path' and len(e[1]) == 1 and e[1][0] in env.vars
        return ok and (not mutable or env.vars[e[1][0]]['mut'])

    def enum_ctor(self, segs, env):
        if len(segs) >= 2 and segs[-2] == 'HandshakeState':
            return 'HState.' + lean_variant(segs[-1])
        if len(segs) >= 2 and segs[-2] == 'RoundResult' and segs[-1] in ('WouldBlock', 'Incomplete', 'StageFinished'):
            return 'GRound.' + lean_variant(segs[-1])
        if len(segs) >= 2 and segs[-2] == 'ProcessingResult' and segs[-1] in ('Continue', 'Done'):
            return 'GProc.' + {'Continue': 'continue_', 'Done': 'done'}[segs[-1]]
        if len(segs) >= 2 and segs[-2] in ('IoErrorKind', 'ErrorKind') and segs[-1] == 'ConnectionReset':
            return 'IoKind.reset'
        return None

    def chunk_of(self, e, env):
        """`Buf::chunk(&buf)` -> the local"""
        if e[0] == 'call' and e[1][0] == 'path' and e[1][1][-1] == 'chunk' and len(e[2]) == 1:
            b = strip_ref(e[2][0])
            if self.local(b, env):
                return lname(b[1][0])
        return None

    def machine_state(self, e, env):
        """`HandshakeMachine { state: S, ..self }` -> S"""
        if e[0] == 'struct' and e[1][-1] == 'HandshakeMachine' and len(e) == 4 and is_self(e[3]) \
                and [f for f, _ in e[2]] == ['state']:
            return self.v(e[2][0][1], env)
        self.fail(env, 'HandshakeMachine literal other than { state: .., ..self }')

    def leaf_effect(self, e, env):
        if e[0] == 'mcall' and e[2] in ('advance', 'read_from', 'check_incoming_packet_size'):
            return True
        return None

    def ret(self, e, env, ind):
        # `handshake` returns Result<Final, HandshakeError>: `Interrupted` is a value here, failures travel in the monad
        if env.fn == 'handshake' and e is not None and e[0] == 'call' and e[1] in (('path', ['Ok']), ('path', ['Err'])):
            a = e[2][0]
            if e[1] == ('path', ['Ok']):
                return [f'{ind}return (GHs.done {paren(self.v(a, env))})']
            if a[0] == 'call' and a[1] == ('path', ['HandshakeError', 'Interrupted']) and len(a[2]) == 1:
                m = a[2][0]
                if m[0] == 'struct' and m[1][-1] == 'MidHandshake' and len(m) == 4 and is_self(m[3]) \
                        and [f for f, _ in m[2]] == ['machine']:
                    return [f'{ind}return (GHs.interrupted role {paren(self.v(m[2][0][1], env))})']
            self.fail(env, 'this form of Err(..) in handshake')
        return Tr.ret(self, e, env, ind)

    def leaf_expr(self, e, env):
        k = e[0]
        if k == 'field' and is_self(e[1]) and e[2] == 'state':
            return 'V', 'state'
        if k == 'field' and is_self(e[1]) and e[2] == 'machine' and env.fn == 'handshake':
            return 'V', 'machine'
        if k == 'try' and e[1][0] == 'mcall' and e[1][2] == 'single_round' and not e[1][3] and self.local(e[1][1], env):
            return 'V', f'(← singleRound parse {lname(e[1][1][1][0])})'
        if k == 'try' and e[1][0] == 'mcall' and e[1][2] == 'stage_finished' and len(e[1][3]) == 1 \
                and e[1][1] == ('field', ('path', ['self']), 'role'):
            env.fresh += 1
            ro, r = f'__ro{env.fresh}', f'__r{env.fresh}'
            env.pre.append(f'let ({ro}, {r}) := stage role {paren(self.v(e[1][3][0], env))}')
            env.pre.append(f'role := {ro}')
            return 'V', f'(← liftRes {r})'
        if k == 'try':
            x = e[1]
            if x[0] == 'mcall' and x[2] == 'no_block' and not x[3] and x[1][0] == 'mcall':
                y = x[1]
                if y[2] == 'read_from' and self.local(y[1], env, True) and len(y[3]) == 1 and is_stream(strip_ref(y[3][0])):
                    buf = lname(y[1][1][0])
                    env.fresh += 1
                    b, n = f'__b{env.fresh}', f'__n{env.fresh}'
                    env.pre.append(f'let ({b}, {n}) ← readFromNoBlock {buf}')
                    env.pre.append(f'{buf} := {b}')
                    return 'V', n
                if y[2] == 'write' and is_stream(y[1]) and len(y[3]) == 1 and self.chunk_of(y[3][0], env):
                    return 'V', f'(← streamWriteNoBlock {self.chunk_of(y[3][0], env)})'
                if y[2] == 'flush' and is_stream(y[1]) and not y[3]:
                    return 'V', '(← streamFlushNoBlock)'
                self.fail(env, 'a no_block() call that is not in the leaf table')
            if x[0] == 'call' and x[1] == ('path', ['Obj', 'try_parse']) and len(x[2]) == 1 and self.chunk_of(x[2][0], env):
                return 'V', f'(← liftRes (tryParse parse {self.chunk_of(x[2][0], env)}))'
        if k == 'mcall' and self.local(e[1], env):
            if e[2] == 'has_remaining' and not e[3]:
                return 'V', f'!{lname(e[1][1][0])}.isEmpty'
            if e[2] == 'into_vec' and not e[3]:
                return 'V', lname(e[1][1][0])
        if k == 'mcall' and e[2] == 'into' and not e[3] and e[1][0] == 'call' and e[1][1] == ('path', ['IoError', 'new']):
            return 'V', f'HsErr.io {paren(self.v(e[1][2][0], env))}'
        if k == 'call' and e[1][0] == 'path':
            segs, args = e[1][1], e[2]
            name = '::'.join(segs[-2:])
            if name == 'Error::Protocol' and len(args) == 1 and args[0][0] == 'path' and args[0][1][-2] == 'ProtocolError':
                return 'V', 'HsErr.' + lean_variant(args[0][1][-1])
            if name == 'RoundResult::WouldBlock' and len(args) == 1:
                return 'V', f'GRound.wouldBlock {paren(self.machine_state(args[0], env))}'
            if name == 'RoundResult::Incomplete' and len(args) == 1:
                return 'V', f'GRound.incomplete {paren(self.machine_state(args[0], env))}'
            if name == 'RoundResult::StageFinished' and len(args) == 1:
                a = args[0]
                if a[0] == 'struct' and a[1][-2:] == ['StageResult', 'DoneReading'] and len(a) == 3:
                    f = dict(a[2])
                    if sorted(f) != ['result', 'stream', 'tail'] or not is_stream(f['stream']):
                        self.fail(env, 'DoneReading fields changed')
                    return 'V', f'GRound.stageFinished (GStage.doneReading {paren(self.v(f["result"], env))} {paren(self.v(f["tail"], env))})'
                if a[0] == 'call' and a[1] == ('path', ['StageResult', 'DoneWriting']) and len(a[2]) == 1 and is_stream(a[2][0]):
                    return 'V', 'GRound.stageFinished GStage.doneWriting'
                self.fail(env, 'StageFinished with an unknown stage result')
        return None

    def leaf_stmt(self, e, env, ind):
        k = e[0]
        if k == 'mcall' and e[2] == 'advance' and self.local(e[1], env, True) and len(e[3]) == 1:
            b = lname(e[1][1][0])
            return [f'{ind}{b} := {b}.drop {paren(self.v(e[3][0], env))}']
        if k == 'try' and e[1][0] == 'mcall' and e[1][2] == 'check_incoming_packet_size' and self.local(e[1][1], env, True) \
                and len(e[1][3]) == 1:
            a = lname(e[1][1][1][0])
            env.fresh += 1
            na, r = f'__a{env.fresh}', f'__r{env.fresh}'
            return [f'{ind}let ({na}, {r}) := attackCheck {a} {paren(self.v(e[1][3][0], env))}',
                    f'{ind}{a} := {na}',
                    f'{ind}liftRes {r}']
        return None


def translate(src, path):
    fn = parse_fn(src, 'single_round', MACHINE, what='HandshakeMachine::single_round')
    if fn['self'] != 'self' or fn['params']:
        raise TranslateError('HandshakeMachine::single_round: signature changed')
    if not re.fullmatch(r'Result<RoundResult<Obj,\s*Stream>>', fn['ret']):
        raise TranslateError('HandshakeMachine::single_round: return type changed')
    specs = {'single_round': {'lean': 'singleRound', 'ret_result': True, 'ret_lean': 'GRound'}}
    tr = HsTr(specs)
    env = Env('single_round', True, SITES)
    env.panic_prefix = 'HPanic'
    env.vars['parse'] = {'kind': 'V', 'mut': False, 'alias': None}
    out = ['/- GENERATED by translator/hs2lean.py from src/handshake/machine.rs — do not edit. -/',
           'import WsModel.HsM',
           'set_option linter.unusedVariables false',
           'namespace WsModel.GenHs',
           'open WsModel WsModel.Gen WsModel.Hs',
           '',
           '/-- `HandshakeMachine::single_round` (the stream is the monad\'s state, `parse` is `Obj::try_parse`) -/',
           'def singleRound (parse : Bytes → HeadParse) (state : HState) : M GRound := do']
    out += tr.seq(fn['body'], env, 'ret', '  ')
    out.append('')
    # ---- MidHandshake::handshake: the loop around single_round (fuel-bounded; the role's
    # `stage_finished` is a parameter: new role state and `Continue(machine)` / `Done(result)`)
    src2 = open(os.path.join(os.path.dirname(path), 'mod.rs')).read()
    hf = parse_fn(src2, 'handshake', MID, what='MidHandshake::handshake')
    if hf['self'] != 'self' or hf['params'] or not re.fullmatch(r'Result<Role::FinalResult,\s*HandshakeError<Role>>', hf['ret']):
        raise TranslateError('MidHandshake::handshake: signature changed')
    body = hf['body']
    if len(body[1]) != 1 or body[1][0][0] != 'let' or body[1][0][1] != ('bind', 'mach', False, True) \
            or body[1][0][3] != ('field', ('path', ['self']), 'machine') or body[2] is None or body[2][0] != 'loop':
        raise TranslateError('MidHandshake::handshake: no longer `let mut mach = self.machine; loop { .. }`')
    tr.specs['handshake'] = {'lean': 'handshake', 'ret_result': True, 'ret_lean': 'GHs ρ φ'}
    env = Env('handshake', True, SITES)
    env.panic_prefix = 'HPanic'
    for v, mut in (('parse', False), ('stage', False), ('role', True), ('mach', True), ('machine', False)):
        env.vars[v] = {'kind': 'V', 'mut': mut, 'alias': None}
    loop_items = tr.seq(body[2][1], env, 'unit', '    ')
    binders = '{ρ φ : Type} (parse : Bytes → HeadParse) (stage : ρ → GStage → ρ × HR (GProc φ))'
    out += ['/-- the `loop` of `MidHandshake::handshake` (fuel-bounded) -/',
            f'def handshakeLoop {binders} : Nat → ρ → HState → M (GHs ρ φ)',
            '  | 0, _, _ => panicAt HPanic.fuel',
            '  | fuel + 1, role, mach => do',
            '    let mut role := role',
            '    let mut mach := mach']
    out += loop_items
    out += ['    handshakeLoop parse stage fuel role mach', '',
            '/-- `MidHandshake::handshake` -/',
            f'def handshake {binders} (fuel : Nat) (role : ρ) (machine : HState) : M (GHs ρ φ) :=',
            '  handshakeLoop parse stage fuel role machine', '']
    out += ['end WsModel.GenHs']
    return '\n'.join(out) + '\n'


def gen_hs(repo):
    path = os.path.join(repo, 'src/handshake/machine.rs')
    return translate(open(path).read(), path)


if __name__ == '__main__':
    import sys
    sys.stdout.write(gen_hs(sys.argv[1]))
