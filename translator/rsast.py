"""rsast: a parser for the statement-level Rust subset used by the protocol state machine
(`WebSocketContext` in src/protocol/mod.rs).  It fails closed: anything outside the subset raises
TranslateError naming the construct.

AST (tuples):
  expressions
    ('path', [seg, ...])            ('lit', kind, value)       ('unit',)
    ('field', e, name)              ('mcall', e, name, [args]) ('call', f, [args])
    ('try', e)                      ('unary', op, e)           ('bin', op, l, r)
    ('ref', is_mut, e)              ('closure', [pats], body)  ('struct', [seg..], [(f, e)])
    ('macro', name, [arg exprs] | None, raw)                   ('matches', e, pat, guard)
    ('if', cond, block, else|None)  cond = expr | ('let', pat, e)
    ('match', e, [(pat, guard|None, body)])
    ('loop', block)                 ('block', [stmts], tail|None)
    ('assign', lhs, rhs)            ('return', e|None)         ('tuple', [e..])
  statements
    ('let', pat, type|None, init|None)    ('expr', e)    (macros appear as ('expr', ('macro',..)))
  patterns
    ('wild',) ('bind', name, by_ref, is_mut) ('ppath', [seg..]) ('tstruct', [seg..], [pats])
    ('pstruct', [seg..], [(field, pat)], has_rest) ('or', [pats]) ('plit', value) ('ptuple', [pats])
"""
import re

from rs2lean import TranslateError, strip_comments, balanced

TOKEN_RE = re.compile(r'''
    (?P<ws>\s+)
  | (?P<life>'[A-Za-z_][A-Za-z0-9_]*(?!'))
  | (?P<chr>'(?:\\.|[^'\\])')
  | (?P<num>0x[0-9a-fA-F_]+|\d[\d_]*)(?:usize|u8|u16|u32|u64|i32|i64)?
  | (?P<str>"(?:\\.|[^"\\])*")
  | (?P<id>[A-Za-z_][A-Za-z0-9_]*)
  | (?P<op>\.\.=|\.\.\.|\.\.|=>|->|::|&&|\|\||<=|>=|==|!=|\+=|-=|\^=|<<|>>|[-+*/%<>=!&|^(){}\[\],;:@.#?])
''', re.X)


def tokenize(s):
    toks = []
    i = 0
    while i < len(s):
        m = TOKEN_RE.match(s, i)
        if not m:
            raise TranslateError(f'cannot tokenize at: {s[i:i + 30]!r}')
        i = m.end()
        k = m.lastgroup
        if k == 'ws':
            continue
        if k == 'num':
            toks.append(('num', int(m.group('num').replace('_', ''), 0)))
        elif k == 'str':
            toks.append(('str', m.group('str')[1:-1]))
        elif k == 'chr':
            toks.append(('chr', m.group('chr')[1:-1]))
        elif k == 'life':
            toks.append(('life', m.group('life')))
        elif k == 'id':
            toks.append(('id', m.group('id')))
        else:
            toks.append(('op', m.group('op')))
    return toks


ALLOW_UNSAFE = False
BLOCKLIKE = ('if', 'match', 'loop', 'while', 'for', 'block')


class RP:
    def __init__(self, toks, what):
        self.t = toks
        self.i = 0
        self.what = what

    # ------------------------------------------------------------ token helpers
    def fail(self, msg):
        ctx = ' '.join(str(v) for _, v in self.t[self.i:self.i + 8])
        raise TranslateError(f'{self.what}: {msg} near `{ctx}`')

    def peek(self, k=0):
        j = self.i + k
        return self.t[j] if j < len(self.t) else ('eof', None)

    def at(self, kind, val=None, k=0):
        t = self.peek(k)
        return t[0] == kind and (val is None or t[1] == val)

    def at_op(self, val, k=0):
        return self.at('op', val, k)

    def at_id(self, val, k=0):
        return self.at('id', val, k)

    def eat(self, kind, val=None):
        if not self.at(kind, val):
            self.fail(f'expected {val or kind}')
        t = self.t[self.i]
        self.i += 1
        return t[1]

    def maybe(self, kind, val=None):
        if self.at(kind, val):
            self.i += 1
            return True
        return False

    # ------------------------------------------------------------ types (kept as strings)
    def type_(self):
        """consume a type, return its normalised text"""
        out = []
        depth = 0
        while True:
            k, v = self.peek()
            if k == 'eof':
                break
            if k == 'op' and v in ('<', '(', '['):
                depth += 1
            elif k == 'op' and v in ('>', ')', ']'):
                if depth == 0:
                    break
                depth -= 1
            elif k == 'op' and v == '>>':
                if depth < 2:
                    self.fail('unbalanced >> in type')
                depth -= 2
            elif depth == 0 and k == 'op' and v in (',', ';', '=', '{', '|'):
                break
            elif depth == 0 and k == 'id' and v == 'where':
                break
            out.append(str(v))
            self.i += 1
        s = ' '.join(out)
        s = re.sub(r'\s*(::|<|>|,|\(|\))\s*', lambda m: m.group(1) + (' ' if m.group(1) == ',' else ''), s)
        return s.strip()

    # ------------------------------------------------------------ patterns
    def pattern(self):
        self.maybe('op', '|')
        alts = [self.pattern1()]
        while self.at_op('|'):
            self.i += 1
            alts.append(self.pattern1())
        return alts[0] if len(alts) == 1 else ('or', alts)

    def path_segments(self):
        segs = [self.eat('id')]
        while self.at_op('::'):
            self.i += 1
            if self.at_op('<'):
                # turbofish: skip
                self.i += 1
                self.type_list_until_gt()
                continue
            segs.append(self.eat('id'))
        return segs

    def type_list_until_gt(self):
        depth = 1
        while depth > 0:
            k, v = self.peek()
            if k == 'eof':
                self.fail('unterminated generics')
            if k == 'op' and v == '<':
                depth += 1
            elif k == 'op' and v == '>':
                depth -= 1
            elif k == 'op' and v == '>>':
                depth -= 2
            self.i += 1

    def pattern1(self):
        if self.at_op('&'):
            self.i += 1
            self.maybe('id', 'mut')
            return self.pattern1()
        if self.at_op('('):
            self.i += 1
            ps = []
            while not self.at_op(')'):
                ps.append(self.pattern())
                if not self.maybe('op', ','):
                    break
            self.eat('op', ')')
            return ('ptuple', ps)
        if self.at('num'):
            return ('plit', self.eat('num'))
        if self.at('str'):
            return ('plit', '"' + self.eat('str') + '"')
        if self.at_id('_'):
            self.i += 1
            return ('wild',)
        if self.at_id('true') or self.at_id('false'):
            return ('plit', self.eat('id'))
        by_ref = False
        is_mut = False
        if self.at_id('ref'):
            self.i += 1
            by_ref = True
        if self.at_id('mut'):
            self.i += 1
            is_mut = True
        if not self.at('id'):
            self.fail('pattern')
        name = self.peek()[1]
        nxt = self.peek(1)
        simple = nxt not in (('op', '::'), ('op', '('), ('op', '{'))
        if (by_ref or is_mut) or (simple and (name[0].islower() or name[0] == '_')):
            self.i += 1
            if self.at_op('@'):
                self.i += 1
                sub = self.pattern1()
                return ('at', name, sub)
            return ('bind', name, by_ref, is_mut)
        segs = self.path_segments()
        if self.at_op('('):
            self.i += 1
            ps = []
            while not self.at_op(')'):
                ps.append(self.pattern())
                if not self.maybe('op', ','):
                    break
            self.eat('op', ')')
            return ('tstruct', segs, ps)
        if self.at_op('{'):
            self.i += 1
            fields = []
            rest = False
            while not self.at_op('}'):
                if self.at_op('..'):
                    self.i += 1
                    rest = True
                    break
                f = self.eat('id')
                if self.maybe('op', ':'):
                    p = self.pattern()
                else:
                    p = ('bind', f, False, False)
                fields.append((f, p))
                if not self.maybe('op', ','):
                    break
            self.eat('op', '}')
            return ('pstruct', segs, fields, rest)
        return ('ppath', segs)

    # ------------------------------------------------------------ expressions
    def expr(self, no_struct=False):
        return self.expr_assign(no_struct)

    def expr_range(self, ns):
        e = self.expr_or(ns)
        if self.at_op('..') or self.at_op('..='):
            op = self.eat('op')
            if self.at_op(')') or self.at_op(']') or self.at_op(',') or self.at_op(';'):
                return ('range', op, e, None)
            hi = self.expr_or(ns)
            return ('range', op, e, hi)
        return e

    def expr_assign(self, ns):
        lhs = self.expr_range(ns)
        if self.at_op('=') :
            self.i += 1
            rhs = self.expr_assign(ns)
            return ('assign', lhs, rhs)
        if self.at_op('+=') or self.at_op('-=') or self.at_op('^='):
            op = self.eat('op')[0]
            rhs = self.expr_assign(ns)
            return ('assign', lhs, ('bin', op, lhs, rhs))
        return lhs

    def expr_or(self, ns):
        e = self.expr_and(ns)
        while self.at_op('||'):
            self.i += 1
            e = ('bin', '||', e, self.expr_and(ns))
        return e

    def expr_and(self, ns):
        e = self.expr_cmp(ns)
        while self.at_op('&&'):
            self.i += 1
            e = ('bin', '&&', e, self.expr_cmp(ns))
        return e

    def expr_cmp(self, ns):
        e = self.expr_bitor(ns)
        if self.at('op') and self.peek()[1] in ('==', '!=', '<', '>', '<=', '>='):
            op = self.eat('op')
            e = ('bin', op, e, self.expr_bitor(ns))
        return e

    def expr_bitor(self, ns):
        e = self.expr_bitxor(ns)
        while self.at_op('|') and not self.at_op('|', 1):
            self.i += 1
            e = ('bin', '|', e, self.expr_bitxor(ns))
        return e

    def expr_bitxor(self, ns):
        e = self.expr_bitand(ns)
        while self.at_op('^'):
            self.i += 1
            e = ('bin', '^', e, self.expr_bitand(ns))
        return e

    def expr_bitand(self, ns):
        e = self.expr_add(ns)
        while self.at_op('&') and not self.at_op('&', 1):
            self.i += 1
            e = ('bin', '&', e, self.expr_add(ns))
        return e

    def expr_add(self, ns):
        e = self.expr_mul(ns)
        while self.at('op') and self.peek()[1] in ('+', '-'):
            op = self.eat('op')
            e = ('bin', op, e, self.expr_mul(ns))
        return e

    def expr_mul(self, ns):
        e = self.expr_cast(ns)
        while self.at('op') and self.peek()[1] in ('*', '/', '%'):
            op = self.eat('op')
            e = ('bin', op, e, self.expr_cast(ns))
        return e

    def expr_cast(self, ns):
        e = self.expr_unary(ns)
        while self.at_id('as'):
            self.i += 1
            ty = self.type_()
            e = ('cast', e, ty)
        return e

    def expr_unary(self, ns):
        if self.at_op('!'):
            self.i += 1
            return ('unary', '!', self.expr_unary(ns))
        if self.at_op('-'):
            self.i += 1
            return ('unary', '-', self.expr_unary(ns))
        if self.at_op('*'):
            self.i += 1
            return ('unary', '*', self.expr_unary(ns))
        if self.at_op('&') or self.at_op('&&'):
            self.i += 1
            m = self.maybe('id', 'mut')
            return ('ref', m, self.expr_unary(ns))
        return self.expr_postfix(ns)

    def args(self):
        self.eat('op', '(')
        a = []
        while not self.at_op(')'):
            a.append(self.expr())
            if not self.maybe('op', ','):
                break
        self.eat('op', ')')
        return a

    def expr_postfix(self, ns):
        e = self.expr_atom(ns)
        while True:
            if self.at_op('?'):
                self.i += 1
                e = ('try', e)
            elif self.at_op('.'):
                self.i += 1
                if self.at('num'):
                    e = ('field', e, str(self.eat('num')))
                    continue
                name = self.eat('id')
                if self.at_op('::'):
                    self.i += 1
                    self.eat('op', '<')
                    self.type_list_until_gt()
                if self.at_op('('):
                    e = ('mcall', e, name, self.args())
                else:
                    e = ('field', e, name)
            elif self.at_op('('):
                e = ('call', e, self.args())
            elif self.at_op('['):
                self.i += 1
                if self.at_op('..'):
                    self.i += 1
                    idx = ('range', '..', None, None if self.at_op(']') else self.expr())
                else:
                    lo = self.expr_or(False)
                    if self.at_op('..'):
                        self.i += 1
                        idx = ('range', '..', lo, None if self.at_op(']') else self.expr_or(False))
                    else:
                        idx = lo
                self.eat('op', ']')
                e = ('index', e, idx)
            else:
                return e

    def macro_call(self, name):
        # at '!' already consumed; parse the delimited token tree
        k, v = self.peek()
        if k != 'op' or v not in ('(', '[', '{'):
            self.fail('macro delimiter')
        close = {'(': ')', '[': ']', '{': '}'}[v]
        start = self.i
        depth = 0
        while True:
            k2, v2 = self.peek()
            if k2 == 'eof':
                self.fail('unterminated macro')
            if k2 == 'op' and v2 == v:
                depth += 1
            elif k2 == 'op' and v2 == close:
                depth -= 1
                if depth == 0:
                    self.i += 1
                    break
            self.i += 1
        inner = self.t[start + 1:self.i - 1]
        if name == 'matches':
            sub = RP(inner, self.what + ' matches!')
            e = sub.expr()
            sub.eat('op', ',')
            p = sub.pattern()
            g = None
            if sub.maybe('id', 'if'):
                g = sub.expr()
            sub.maybe('op', ',')
            if sub.peek()[0] != 'eof':
                sub.fail('trailing tokens in matches!')
            return ('matches', e, p, g)
        raw = ' '.join(str(x[1]) for x in inner)
        if name in ('assert', 'assert_eq', 'debug_assert', 'debug_assert_eq'):
            sub = RP(inner, self.what + f' {name}!')
            args = [sub.expr()]
            while sub.maybe('op', ','):
                if sub.peek()[0] == 'eof' or sub.at('str'):
                    break
                args.append(sub.expr())
            return ('macro', name, args, raw)
        if name == 'writeln':
            # writeln!(w, "format", args..): args are expressions or `name = expression`
            sub = RP(inner, self.what + ' writeln!')
            w = sub.expr()
            sub.eat('op', ',')
            fmt = sub.eat('str')
            args = []
            while sub.maybe('op', ','):
                if sub.peek()[0] == 'eof':
                    break
                nm = None
                if sub.peek()[0] == 'id' and sub.t[sub.i + 1] == ('op', '='):
                    nm = sub.eat('id')
                    sub.eat('op', '=')
                args.append((nm, sub.expr()))
            if sub.peek()[0] != 'eof':
                sub.fail('trailing tokens in writeln!')
            return ('macro', name, [w, ('lit', 'str', fmt)] + args, raw)
        return ('macro', name, None, raw)

    def block(self):
        self.eat('op', '{')
        stmts = []
        tail = None
        while not self.at_op('}'):
            if self.at_op(';'):
                self.i += 1
                continue
            if self.at_id('let'):
                self.i += 1
                pat = self.pattern()
                ty = None
                if self.maybe('op', ':'):
                    ty = self.type_()
                init = None
                if self.maybe('op', '='):
                    init = self.expr()
                if self.at_id('else'):
                    self.fail('let-else')
                self.eat('op', ';')
                stmts.append(('let', pat, ty, init))
                continue
            if self.at_id('const') and self.peek(1)[0] == 'id':
                self.i += 1
                name = self.eat('id')
                self.eat('op', ':')
                ty = self.type_()
                self.eat('op', '=')
                init = self.expr()
                self.eat('op', ';')
                stmts.append(('let', ('bind', name, False, False), ty, init))
                continue
            if self.at_op('#'):
                self.fail('attribute inside a function body')
            k, v = self.peek()
            blocklike_start = (k == 'id' and v in ('if', 'match', 'loop', 'while', 'for', 'unsafe')) or (k == 'op' and v == '{')
            if blocklike_start:
                e = self.expr_atom(False)
                if self.at_op(';'):
                    self.i += 1
                    stmts.append(('expr', e))
                elif self.at_op('}'):
                    tail = e
                elif self.at_op('.') or self.at_op('?'):
                    self.fail('method call on a block expression')
                else:
                    stmts.append(('expr', e))
                continue
            e = self.expr()
            if self.at_op(';'):
                self.i += 1
                stmts.append(('expr', e))
            elif self.at_op('}'):
                tail = e
            else:
                self.fail('expected ; or }')
        self.eat('op', '}')
        return ('block', stmts, tail)

    def if_expr(self):
        self.eat('id', 'if')
        if self.at_id('let'):
            self.i += 1
            pat = self.pattern()
            self.eat('op', '=')
            e = self.expr(no_struct=True)
            cond = ('let', pat, e)
        else:
            cond = self.expr(no_struct=True)
        then = self.block()
        els = None
        if self.maybe('id', 'else'):
            if self.at_id('if'):
                els = self.if_expr()
            else:
                els = self.block()
        return ('if', cond, then, els)

    def match_expr(self):
        self.eat('id', 'match')
        scrut = self.expr(no_struct=True)
        self.eat('op', '{')
        arms = []
        while not self.at_op('}'):
            pat = self.pattern()
            guard = None
            if self.maybe('id', 'if'):
                guard = self.expr(no_struct=True)
            self.eat('op', '=>')
            k, v = self.peek()
            if k == 'op' and v == '{':
                body = self.block()
                self.maybe('op', ',')
            else:
                body = self.expr()
                if not self.at_op('}'):
                    self.eat('op', ',')
            arms.append((pat, guard, body))
        self.eat('op', '}')
        return ('match', scrut, arms)

    def expr_atom(self, ns):
        k, v = self.peek()
        if k == 'num':
            self.i += 1
            return ('lit', 'num', v)
        if k == 'str':
            self.i += 1
            return ('lit', 'str', v)
        if k == 'chr':
            self.i += 1
            return ('lit', 'chr', v)
        if k == 'op' and v == '(':
            self.i += 1
            if self.at_op(')'):
                self.i += 1
                return ('unit',)
            e = self.expr()
            if self.at_op(','):
                items = [e]
                while self.maybe('op', ','):
                    if self.at_op(')'):
                        break
                    items.append(self.expr())
                self.eat('op', ')')
                return ('tuple', items)
            self.eat('op', ')')
            return ('paren', e)
        if k == 'op' and v == '{':
            return self.block()
        if k == 'op' and v == '<':
            # `<T>::name` / `<_>::default()`
            self.i += 1
            self.type_list_until_gt()
            self.eat('op', '::')
            return ('path', ['<>'] + self.path_segments())
        if k == 'op' and v == '[':
            self.i += 1
            items = []
            while not self.at_op(']'):
                items.append(self.expr())
                if self.at_op(';'):
                    self.i += 1
                    n = self.expr()
                    self.eat('op', ']')
                    return ('arrayrep', items[0], n)
                if not self.maybe('op', ','):
                    break
            self.eat('op', ']')
            return ('array', items)
        if k == 'op' and v in ('|', '||'):
            params = []
            if v == '||':
                self.i += 1
            else:
                self.i += 1
                while not self.at_op('|'):
                    p = self.pattern1()
                    if self.maybe('op', ':'):
                        self.type_()
                    params.append(p)
                    if not self.maybe('op', ','):
                        break
                self.eat('op', '|')
            body = self.expr()
            return ('closure', params, body)
        if k == 'id':
            if v == 'if':
                return self.if_expr()
            if v == 'match':
                return self.match_expr()
            if v == 'loop':
                self.i += 1
                return ('loop', self.block())
            if v == 'while':
                self.i += 1
                if self.at_id('let'):
                    self.fail('while let')
                cond = self.expr(no_struct=True)
                return ('while', cond, self.block())
            if v == 'for':
                # `for <pattern> in <expr> { .. }` (only the resp2lean unit translates it)
                self.i += 1
                pat = self.pattern()
                self.eat('id', 'in')
                it = self.expr(no_struct=True)
                return ('for', pat, it, self.block())
            if v == 'break':
                self.i += 1
                if self.at('life'):
                    self.fail('labelled break')
                if self.at_op(';') or self.at_op('}') or self.at_op(','):
                    return ('break', None)
                return ('break', self.expr())
            if v == 'unsafe' and ALLOW_UNSAFE:
                # only the mask2lean unit sets this: `unsafe { buf.align_to_mut::<u32>() }`
                self.i += 1
                return ('unsafe', self.block())
            if v in ('for', 'unsafe', 'continue', 'async', 'move'):
                self.fail(f'`{v}` is outside the translated subset')
            if v == 'return':
                self.i += 1
                if self.at_op(';') or self.at_op('}') or self.at_op(','):
                    return ('return', None)
                return ('return', self.expr())
            if v in ('true', 'false'):
                self.i += 1
                return ('lit', 'bool', v)
            # path, macro, struct literal
            segs = self.path_segments()
            if self.at_op('!') and not self.at_op('=', 1) and self.peek(1)[1] in ('(', '[', '{'):
                self.i += 1
                if len(segs) != 1:
                    self.fail('qualified macro')
                return self.macro_call(segs[0])
            if self.at_op('{') and not ns and segs[-1][0].isupper():
                self.i += 1
                fields = []
                base = None
                while not self.at_op('}'):
                    if self.at_op('..'):
                        self.i += 1
                        base = self.expr()
                        break
                    f = self.eat('id')
                    if self.maybe('op', ':'):
                        e = self.expr()
                    else:
                        e = ('path', [f])
                    fields.append((f, e))
                    if not self.maybe('op', ','):
                        break
                self.eat('op', '}')
                return ('struct', segs, fields) if base is None else ('struct', segs, fields, base)
            return ('path', segs)
        self.fail('expression')


def parse_fn(src, name, within_re=None, what=None):
    """Locate `fn name` (inside the first block whose header matches within_re, if given) and
    parse it. Returns dict(name, params=[(name, type, is_mut)], self_kind, ret, body)."""
    what = what or name
    text = strip_comments(src)
    if within_re is not None:
        m = re.search(within_re, text)
        if not m:
            raise TranslateError(f'anchor not found for {what}: {within_re}')
        i = text.find('{', m.end() - 1)
        j = balanced(text, i)
        text = text[i + 1:j - 1]
    ms = list(re.finditer(r'\bfn\s+' + re.escape(name) + r'\b', text))
    if not ms:
        raise TranslateError(f'function not found: {what}')
    if len(ms) > 1:
        raise TranslateError(f'function defined more than once: {what}')
    m = ms[0]
    i = text.find('{', m.end())
    # the body is the first `{` after the signature at depth 0 of parentheses/angle brackets
    sig_end = None
    depth = 0
    k = m.end()
    while k < len(text):
        c = text[k]
        if c in '(<[':
            depth += 1
        elif c in ')>]':
            if c == '>' and text[k - 1] == '-':
                pass
            else:
                depth -= 1
        elif c == '{' and depth == 0:
            sig_end = k
            break
        elif c == ';' and depth == 0:
            raise TranslateError(f'{what}: declaration without body')
        k += 1
    if sig_end is None:
        raise TranslateError(f'{what}: no body')
    j = balanced(text, sig_end)
    sig = text[m.end():sig_end]
    body_src = text[sig_end:j]
    p = RP(tokenize(sig), what + ' signature')
    if p.at_op('<'):
        p.i += 1
        p.type_list_until_gt()
    p.eat('op', '(')
    params = []
    self_kind = None
    while not p.at_op(')'):
        if p.at_op('&'):
            p.i += 1
            mut = p.maybe('id', 'mut')
            p.eat('id', 'self')
            self_kind = '&mut' if mut else '&'
        elif p.at_id('self'):
            p.i += 1
            self_kind = 'self'
        elif p.at_id('mut') and p.at_id('self', 1):
            p.i += 2
            self_kind = 'self'
        else:
            is_mut = p.maybe('id', 'mut')
            pname = p.eat('id')
            p.eat('op', ':')
            ty = p.type_()
            params.append((pname, ty, is_mut))
        if not p.maybe('op', ','):
            break
    p.eat('op', ')')
    ret = '()'
    if p.maybe('op', '->'):
        ret = p.type_()
    bp = RP(tokenize(body_src), what)
    body = bp.block()
    if bp.peek()[0] != 'eof':
        bp.fail('trailing tokens after body')
    return {'name': name, 'params': params, 'self': self_kind, 'ret': ret, 'body': body}
