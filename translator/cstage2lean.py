"""cstage2lean: machine translation of `ClientHandshake::stage_finished` (src/handshake/client.rs) —
what the client does when a stage of the handshake machine ends: after the request is written,
start reading; after the response head is read, verify it, hand an HTTP error its body (the bytes
after the head), otherwise build the socket over the bytes already read — into a Lean `do` block
over `Except HsErr` (leaves in lean/WsModel/CStageM.lean; `verify_response` is the *generated*
`GenVerify.verifyResponse`).  Fails closed."""
import os

from rs2lean import TranslateError
from rsast import parse_fn

ANCHOR = r'impl<S:\s*Read\s*\+\s*Write>\s*HandshakeRole\s+for\s+ClientHandshake<S>\s*\{'
SKIP = ('trace', 'debug', 'info', 'warn', 'error')


def fail(msg):
    raise TranslateError(f'ClientHandshake::stage_finished: {msg}')


def is_var(e, name=None):
    return e[0] == 'path' and len(e[1]) == 1 and (name is None or e[1][0] == name)


def pat(p):
    if p == ('tstruct', ['StageResult', 'DoneWriting'], [('bind', 'stream', False, False)]):
        return 'GStage.doneWriting', {'stream'}
    if p[0] == 'pstruct' and p[1] == ['StageResult', 'DoneReading'] and not p[3]:
        names = [f for f, _ in p[2]]
        if names == ['stream', 'result', 'tail'] and all(q == ('bind', f, False, False) for f, q in p[2]):
            return 'GStage.doneReading result tail', {'stream', 'result', 'tail'}
    fail(f'arm pattern: {str(p)[:100]}')


def value(e, vars_):
    """a `ProcessingResult` value"""
    if e[0] == 'call' and e[1] == ('path', ['ProcessingResult', 'Continue']) and len(e[2]) == 1:
        a = e[2][0]
        if a == ('call', ('path', ['HandshakeMachine', 'start_read']), [('path', ['stream'])]) and 'stream' in vars_:
            return 'GProc.continue_ startRead'
    if e[0] == 'call' and e[1] == ('path', ['ProcessingResult', 'Done']) and len(e[2]) == 1:
        a = e[2][0]
        if a[0] == 'tuple' and len(a[1]) == 2 and is_var(a[1][0]) and vars_.get(a[1][0][1][0]) == 'socket' \
                and is_var(a[1][1]) and vars_.get(a[1][1][1][0]) == 'verified':
            return f'GProc.done {a[1][0][1][0]}'
    fail(f'result value: {str(e)[:100]}')


def verify_match(init, vars_, ind):
    """`match self.verify_data.verify_response(result) { Ok(r) => r, Err(Error::Http(mut e)) => {..}, Err(e) => return Err(e) }`"""
    st, arms = init[1], init[2]
    if st != ('mcall', ('field', ('path', ['self']), 'verify_data'), 'verify_response', [('path', ['result'])]) \
            or vars_.get('result') != 'head':
        fail('scrutinee is not `self.verify_data.verify_response(result)`')
    out = [f'{ind}match GenVerify.verifyResponse self_ (respOfHead result) with']
    if len(arms) != 3:
        fail('arms of the match on verify_response changed')
    for p, g, b in arms:
        if g is not None:
            fail('guard')
        if p == ('tstruct', ['Ok'], [('bind', 'r', False, False)]) and b == ('path', ['r']):
            out.append(f'{ind}| .ok r => pure r')
        elif p == ('tstruct', ['Err'], [('tstruct', ['Error', 'Http'], [('bind', 'e', False, True)])]):
            # { *e.body_mut() = Some(x); return Err(Error::Http(e)); }
            if b[0] != 'block' or b[2] is not None or len(b[1]) != 2:
                fail('body of the `Err(Error::Http(mut e))` arm')
            s1, s2 = b[1][0][1], b[1][1][1]
            if not (s1[0] == 'assign' and s1[1] == ('unary', '*', ('mcall', ('path', ['e']), 'body_mut', []))
                    and s1[2][0] == 'call' and s1[2][1] == ('path', ['Some']) and len(s1[2][2]) == 1 and is_var(s1[2][2][0])
                    and vars_.get(s1[2][2][0][1][0]) == 'bytes'):
                fail('the HTTP error is no longer given `Some(<bytes>)` as body')
            if s2 != ('return', ('call', ('path', ['Err']), [('call', ('path', ['Error', 'Http']), [('path', ['e'])])])):
                fail('the HTTP error is no longer returned')
            out.append(f'{ind}| .error (HsErr.http status body) => throw (HsErr.http status (some {s1[2][2][0][1][0]}))')
        elif p == ('tstruct', ['Err'], [('bind', 'e', False, False)]) and \
                b == ('return', ('call', ('path', ['Err']), [('path', ['e'])])):
            out.append(f'{ind}| .error e => throw e')
        else:
            fail(f'arm of the match on verify_response: {str(p)[:80]}')
    return out


def translate(src):
    fn = parse_fn(src, 'stage_finished', ANCHOR, what='ClientHandshake::stage_finished')
    if fn['self'] != '&mut' or [p[0] for p in fn['params']] != ['finish']:
        fail('signature changed')
    body = fn['body']
    if body[1] or body[2] is None or body[2][0] != 'call' or body[2][1] != ('path', ['Ok']) or len(body[2][2]) != 1 \
            or body[2][2][0][0] != 'match' or body[2][2][0][1] != ('path', ['finish']):
        fail('body is no longer `Ok(match finish { .. })`')
    lines = ['  match finish with']
    for p, g, b in body[2][2][0][2]:
        if g is not None:
            fail('guard')
        lp, names = pat(p)
        vars_ = {n: {'stream': 'stream', 'result': 'head', 'tail': 'bytes'}[n] for n in names}
        lines.append(f'  | {lp} =>')
        if b[0] != 'block' or b[2] is None:
            fail('arm body')
        for st in b[1]:
            if st[0] == 'expr' and st[1][0] == 'macro' and st[1][1] in SKIP:
                continue
            if st[0] == 'let' and st[1][0] == 'bind' and st[3] is not None and st[3][0] == 'match':
                ml = verify_match(st[3], vars_, '      ')
                lines.append(f'    let {st[1][1]} ← {ml[0].strip()}')
                lines += ml[1:]
                vars_[st[1][1]] = 'verified'
                continue
            if st[0] == 'let' and st[1][0] == 'bind' and st[3] is not None and st[3][0] == 'call' \
                    and st[3][1] == ('path', ['WebSocket', 'from_partially_read']):
                a = st[3][2]
                if len(a) != 4 or a[0] != ('path', ['stream']) or not is_var(a[1]) or vars_.get(a[1][1][0]) != 'bytes' \
                        or a[2] != ('path', ['Role', 'Client']) or a[3] != ('field', ('path', ['self']), 'config'):
                    fail('arguments of `WebSocket::from_partially_read`')
                lines.append(f'    let {st[1][1]} := fromPartiallyRead {a[1][1][0]}')
                vars_[st[1][1]] = 'socket'
                continue
            fail(f'statement form: {str(st)[:100]}')
        lines.append(f'    pure ({value(b[2], vars_)})')
    out = ['/- GENERATED by translator/cstage2lean.py from src/handshake/client.rs — do not edit. -/',
           'import WsModel.CStageM',
           'set_option linter.unusedVariables false',
           'namespace WsModel.GenCStage',
           'open WsModel WsModel.Hs WsModel.GenHs',
           '',
           '/-- `ClientHandshake::stage_finished`; `Done` carries the socket, which is what it was built over -/',
           'def stageFinished (self_ : VerifyData) (finish : GStage) : Except HsErr (GProc Bytes) := do']
    out += lines
    out += ['', 'end WsModel.GenCStage']
    return '\n'.join(out) + '\n'


def gen_cstage(repo):
    return translate(open(os.path.join(repo, 'src/handshake/client.rs')).read())


if __name__ == '__main__':
    import sys
    sys.stdout.write(gen_cstage(sys.argv[1]))
