"""resp2lean: machine translation of `write_response` (src/handshake/server.rs) — the serialisation
of the server's answer (the 101 and a callback's rejection alike) — into Lean `do`-notation over
`WsModel.GenResp.M` (lean/WsModel/RespM.lean; the state is the output written so far).  The
response object is abstracted by what the function reads from it: the `Debug` text of the version,
the `Display` text of the status, and the header map in iteration order.  `writeln!` format strings
are split into literal text and placeholders.  Fails closed."""
import os
import re

from rs2lean import TranslateError
from rsast import parse_fn

LEAVES = {
    # (expression shape, Debug?) -> Lean term
    ('response.version()', True): 'versionDbg',
    ('response.status()', False): 'statusDisp',
}


def fail(msg):
    raise TranslateError(f'write_response: {msg}')


def lit_bytes(text):
    """bytes of a Rust string literal body (escapes \\r \\n \\t \\\\ \\" only)"""
    out = []
    i = 0
    while i < len(text):
        c = text[i]
        if c == '\\':
            i += 1
            esc = {'r': 13, 'n': 10, 't': 9, '\\': 92, '"': 34, '0': 0}
            if i >= len(text) or text[i] not in esc:
                fail(f'escape in format string: {text!r}')
            out.append(esc[text[i]])
        else:
            b = c.encode('utf-8')
            out += list(b)
        i += 1
    return out


def split_format(fmt):
    """[('lit', bytes) | ('arg', name|None, debug)]"""
    pieces = []
    i = 0
    cur = ''
    while i < len(fmt):
        c = fmt[i]
        if c == '{':
            if fmt[i + 1:i + 2] == '{':
                cur += '{'
                i += 2
                continue
            j = fmt.index('}', i)
            spec = fmt[i + 1:j]
            m = re.fullmatch(r'([A-Za-z_][A-Za-z0-9_]*)?(:\?)?', spec)
            if not m:
                fail(f'placeholder {{{spec}}}')
            if cur:
                pieces.append(('lit', lit_bytes(cur)))
                cur = ''
            pieces.append(('arg', m.group(1), bool(m.group(2))))
            i = j + 1
        elif c == '}':
            if fmt[i + 1:i + 2] != '}':
                fail('unbalanced } in format string')
            cur += '}'
            i += 2
        else:
            cur += c
            i += 1
    if cur:
        pieces.append(('lit', lit_bytes(cur)))
    return pieces


def show(e):
    k = e[0]
    if k == 'path':
        return '::'.join(e[1])
    if k == 'mcall':
        return f'{show(e[1])}.{e[2]}({", ".join(show(a) for a in e[3])})'
    if k == 'try':
        return show(e[1]) + '?'
    return f'<{k}>'


class Emit:
    def __init__(self):
        self.helpers = []
        self.nloop = 0

    def arg_term(self, e, debug, env):
        """(pre-statements, lean term) of a format argument"""
        s = show(e)
        if (s, debug) in LEAVES:
            return LEAVES[(s, debug)]
        if e[0] == 'path' and len(e[1]) == 1 and e[1][0] in env and not debug:
            return env[e[1][0]][0]
        if e[0] == 'try' and e[1][0] == 'mcall' and e[1][2] == 'to_str' and not e[1][3] and not debug:
            r = e[1][1]
            if r[0] == 'path' and len(r[1]) == 1 and env.get(r[1][0], (None, None))[1] == 'value':
                return f'(← liftRes (toStrR {env[r[1][0]][0]}))'
        fail(f'format argument `{s}`{" with {:?}" if debug else ""} is not in the leaf table')

    def writeln(self, m, env, ind):
        args = m[2]
        if args[0] != ('path', ['w']) or args[1][0] != 'lit':
            fail('writeln! must write to `w` with a literal format string')
        fmt = args[1][2]
        named = {n: e for (n, e) in args[2:] if n is not None}
        positional = [e for (n, e) in args[2:] if n is None]
        terms = []
        pi = 0
        for p in split_format(fmt):
            if p[0] == 'lit':
                terms.append('[' + ', '.join(str(b) for b in p[1]) + ']')
            else:
                _, name, debug = p
                if name is not None:
                    if name not in named:
                        fail(f'format argument {name} is not given')
                    e = named.pop(name)
                else:
                    if pi >= len(positional):
                        fail('too few format arguments')
                    e = positional[pi]
                    pi += 1
                terms.append(self.arg_term(e, debug, env))
        if named or pi != len(positional):
            fail('unused format arguments')
        return [f'{ind}let _ ← writeLn ({" ++ ".join(terms) if terms else "[]"})']

    def stmts(self, block, env, ind, tail_ok):
        _, items, tail = block
        out = []
        for st in items:
            if st[0] != 'expr':
                fail(f'statement kind {st[0]}')
            e = st[1]
            if e[0] == 'try' and e[1][0] == 'macro' and e[1][1] == 'writeln' and e[1][2] is not None:
                out += self.writeln(e[1], env, ind)
            elif e[0] == 'for':
                _, pat, it, body = e
                if show(it) != 'response.headers()':
                    fail(f'for loop over `{show(it)}`')
                if pat[0] != 'ptuple' or len(pat[1]) != 2 or any(q[0] != 'bind' for q in pat[1]):
                    fail('for pattern must be (name, value)')
                kn, vn = pat[1][0][1], pat[1][1][1]
                self.nloop += 1
                helper = f'writeResponseLoop{self.nloop}'
                sub = dict(env)
                sub[kn] = (kn, 'name')
                sub[vn] = (vn, 'value')
                body_lines = self.stmts(body, sub, '    ', False)
                self.helpers += [f'/-- the `for` loop over `response.headers()` -/',
                                 f'def {helper} : List (Bytes × Bytes) → M Unit',
                                 '  | [] => pure ()',
                                 f'  | ({kn}, {vn}) :: __rest => do'] + body_lines + [f'    {helper} __rest', '']
                out.append(f'{ind}let _ ← {helper} headers')
            else:
                fail(f'statement `{show(e)}` ({e[0]})')
        if tail_ok:
            if tail != ('call', ('path', ['Ok']), [('unit',)]):
                fail('the function no longer ends with Ok(())')
            out.append(f'{ind}pure ()')
        elif tail is not None:
            fail('loop body with a value')
        return out


def translate(src):
    fn = parse_fn(src, 'write_response', None, what='write_response')
    if [p[0] for p in fn['params']] != ['w', 'response'] or fn['ret'].replace(' ', '') != 'Result<()>':
        fail('signature changed')
    em = Emit()
    body = em.stmts(fn['body'], {}, '  ', True)
    out = ['/- GENERATED by translator/resp2lean.py from src/handshake/server.rs — do not edit. -/',
           'import WsModel.RespM',
           'set_option linter.unusedVariables false',
           'namespace WsModel.GenResp',
           'open WsModel WsModel.Gen',
           '']
    # the helpers refer to the function's parameters that are not the loop variable
    helpers = [l.replace(' : List (Bytes × Bytes) → M Unit', ' (versionDbg statusDisp : Bytes) : List (Bytes × Bytes) → M Unit')
               for l in em.helpers]
    helpers = [re.sub(r'^(    writeResponseLoop\d+) __rest$', r'\1 versionDbg statusDisp __rest', l) for l in helpers]
    out += helpers
    out.append('/-- `write_response` -/')
    out.append('def writeResponse (versionDbg statusDisp : Bytes) (headers : List (Bytes × Bytes)) : M Unit := do')
    out += [re.sub(r'(writeResponseLoop\d+) headers', r'\1 versionDbg statusDisp headers', l) for l in body]
    out.append('')
    out.append('end WsModel.GenResp')
    return '\n'.join(out) + '\n'


def gen_resp(repo):
    src = open(os.path.join(repo, 'src/handshake/server.rs')).read()
    return translate(src)


if __name__ == '__main__':
    import sys
    sys.stdout.write(gen_resp(sys.argv[1]))
