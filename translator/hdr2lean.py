"""hdr2lean: machine translation of `FrameHeader::{parse, parse_internal, format}`
(src/protocol/frame/frame.rs) into Lean `do`-notation over `WsModel.GenHdr.M`
(lean/WsModel/HdrM.lean; the state is a byte cursor for the decoder and the output written so far
for the encoder).  Same parser and emitter as ctx2lean.  Fails closed."""
import os
import re

from rs2lean import TranslateError
from rsast import parse_fn, strip_comments
from ctx2lean import Tr, Env, lname, paren, self_field_path

HDR1 = r'impl\s+FrameHeader\s*\{'
HDR2 = r'impl\s+FrameHeader\s*\{(?=\s*fn\s+parse_internal)'
# rust name -> (anchor, lean name, receiver, params, rust return type, lean return type)
FNS = {
    'parse_internal': (HDR2, 'parseInternal', None, ['cursor'], 'Result<Option<(Self,u64)>>', 'Option (Header × Nat)'),
    'parse': (HDR1, 'parse', None, ['cursor'], 'Result<Option<(Self,u64)>>', 'Option (Header × Nat)'),
    'format': (HDR1, 'format', '&', ['length', 'output'], 'Result<()>', 'Unit'),
}
ORDER = ['parse_internal', 'parse', 'format']
U8_LOCALS = ('first', 'second', 'length_byte', 'code', 'one', 'two')
FIELD_RENAME = {'is_final': 'fin'}
LF = {'U8': 'u8', 'U16': 'u16', 'U64': 'u64'}


def strip_ref(e):
    while e[0] in ('ref', 'paren'):
        e = e[2] if e[0] == 'ref' else e[1]
    return e


def is_var(e, name=None):
    return e[0] == 'path' and len(e[1]) == 1 and (name is None or e[1][0] == name)


class HdrTr(Tr):
    SELF_FIELDS = {}
    SELF_SETTERS = {}
    FIELD_RENAME = FIELD_RENAME
    ALL_CTORS = dict(Tr.ALL_CTORS, LengthFormat={'U8', 'U16', 'U64'})

    def enum_ctor(self, segs, env):
        if len(segs) == 2 and segs[0] == 'LengthFormat' and segs[1] in LF:
            return f'LengthFormat.{LF[segs[1]]}'
        if segs == ['Control', 'Reserved']:
            return 'OpCtl.reserved'
        if segs == ['Data', 'Reserved']:
            return 'OpData.reserved'
        return Tr.enum_ctor(self, segs, env)

    def self_chain(self, e):
        sp = self_field_path(e)
        if sp is None:
            return None
        return 'self_.' + '.'.join(FIELD_RENAME.get(f, f) for f in sp)

    def mut_local(self, e, env):
        return is_var(e) and e[1][0] in env.vars and env.vars[e[1][0]]['mut']

    def leaf_effect(self, e, env):
        if e[0] == 'mcall' and is_var(e[1], 'cursor'):
            return True
        if e[0] == 'mcall' and is_var(e[1], 'output') and e[2] == 'write_all':
            return True
        if e[0] == 'call' and e[1] == ('path', ['Self', 'parse_internal']):
            return True
        if e[0] == 'call' and e[1] == ('path', ['OpCode', 'from']):
            return True      # may panic in the model (nibble outside the table)
        if e[0] == 'field' and self_field_path(e) is not None:
            return False
        if e[0] == 'mcall' and self_field_path(e[1]) is not None and e[2] in ('is_some', 'into') and not e[3]:
            return False     # `self` is a value here
        if e[0] in ('arrayrep', 'index', 'array'):
            return any(self.has_effect(x, env) for x in e[1:] if isinstance(x, tuple))
        return None

    def u8(self, e, env):
        """Lean term of a u8-typed Rust expression"""
        return self.v(e, env)

    def leaf_expr(self, e, env):
        k = e[0]
        c = self.self_chain(e) if k == 'field' else None
        if c is not None:
            return 'V', c
        if k == 'lit' and e[1] == 'num':
            return None
        if k == 'arrayrep' and e[1] == ('lit', 'num', 0):
            return 'V', f'zeros {paren(self.v(e[2], env))}'
        if k == 'array':
            return 'V', '[' + ', '.join(self.v(x, env) for x in e[1]) + ']'
        if k == 'index' and e[2][0] == 'lit':
            return 'V', f'{paren(self.v(e[1], env))}[{e[2][2]}]!'
        if k == 'bin' and e[1] in ('&', '|'):
            op = {'&': '&&&', '|': '|||'}[e[1]]
            return 'V', f'{paren(self.v(e[2], env))} {op} {paren(self.v(e[3], env))}'
        if k == 'if' and e[3] is not None and not self.has_effect(e, env) and e[1][0] != 'let':
            th, el = self.as_block(e[2]), self.as_block(e[3])
            if not th[1] and not el[1] and th[2] is not None and el[2] is not None \
                    and th[2][0] == 'lit' and el[2][0] == 'lit':
                # `if c { 0x80 } else { 0 }`: a byte
                return 'V', f'(if {self.v(e[1], env)} then ({th[2][2]} : UInt8) else ({el[2][2]} : UInt8))'
        if k == 'tuple':
            return 'V', '(' + ', '.join(self.v(x, env) for x in e[1]) + ')'
        if k == 'try' and e[1][0] == 'mcall' and is_var(e[1][1], 'cursor') and e[1][2] == 'read' and len(e[1][3]) == 1:
            a = e[1][3][0]
            if a[0] == 'ref' and a[1] and self.mut_local(a[2], env):
                v = lname(a[2][1][0])
                env.fresh += 1
                t = f'__r{env.fresh}'
                env.pre.append(f'let {t} ← cursorRead {v}')
                env.pre.append(f'{v} := {t}.1')
                return 'V', f'{t}.2'
            self.fail(env, 'cursor.read into something that is not a mutable local array')
        if k == 'mcall':
            _, recv, m, args = e
            if m == 'position' and not args and is_var(recv, 'cursor'):
                return 'V', '(← getPos)'
            if m == 'into' and not args and self.self_chain(recv) == 'self_.opcode':
                return 'V', 'UInt8.ofNat (opCodeToU8 self_.opcode)'
            if m == 'is_some' and not args and self.self_chain(recv) == 'self_.mask':
                return 'V', 'self_.mask.isSome'
            if m == 'extra_bytes' and not args and recv[0] == 'call' and recv[1] == ('path', ['LengthFormat', 'for_byte']) \
                    and len(recv[2]) == 1:
                return 'V', f'lfExtraBytes (lfForByte {paren(self.v(recv[2][0], env))}.toNat)'
            if m == 'length_byte' and not args and is_var(recv, 'lenfmt'):
                return 'V', 'UInt8.ofNat (lfLengthByte lenfmt)'
            if m == 'to_be_bytes' and not args:
                r = strip_ref(recv)
                if r[0] == 'cast' and r[2].replace(' ', '') == 'u16' and is_var(r[1], 'length'):
                    return 'V', 'beBytes 2 (length % 65536)'
                if is_var(r, 'length'):
                    return 'V', 'beBytes 8 length'
            if m == 'into' and not args and is_var(recv, 'err'):
                return 'V', 'err'
        if k == 'call' and e[1][0] == 'path':
            name = '::'.join(e[1][1])
            args = e[2]
            if name == 'OpCode::from' and len(args) == 1:
                return 'V', f'(← opCodeFromByte {paren(self.v(args[0], env))})'
            if name == 'LengthFormat::for_length' and len(args) == 1:
                return 'V', f'lfForLength {paren(self.v(args[0], env))}'
            if name == 'mem::size_of' and not args:
                return 'V', 'sizeOfU64'
            if name == 'u64::from_be_bytes' and len(args) == 1:
                return 'V', f'beNat {paren(self.v(args[0], env))}'
            if name == 'u64::from' and len(args) == 1:
                return 'V', f'{paren(self.v(args[0], env))}.toNat'
            if name == 'ProtocolError::InvalidOpcode' and len(args) == 1:
                return 'V', f'ProtoErr.invalidOpcode {paren(self.v(args[0], env))}.toNat'
        if k == 'struct' and e[1] == ['FrameHeader']:
            names = [f for f, _ in e[2]]
            if names != ['is_final', 'rsv1', 'rsv2', 'rsv3', 'opcode', 'mask']:
                self.fail(env, 'FrameHeader literal: fields changed')
            fs = ', '.join(f'{FIELD_RENAME.get(f, f)} := ' +
                           (f'Option.map maskOfBytes {paren(self.v(x, env))}' if f == 'mask' else self.v(x, env))
                           for f, x in e[2])
            return 'V', f'({{ {fs} }} : Header)'
        return None

    def stmt(self, s, env, ind):
        # `let p = { stmts; tail };` with effects inside: the statements of the block are emitted in
        # the enclosing sequence (sound only if the block's own names are fresh: checked), then `let p = tail`
        if s[0] == 'let' and s[3] is not None and s[3][0] == 'block' and s[3][1] and self.has_effect(s[3], env):
            blk = s[3]
            out = []
            for b in blk[1]:
                if b[0] == 'let':
                    names = [b[1][1]] if b[1][0] == 'bind' else [q[1] for q in b[1][1] if q[0] == 'bind']
                    for n in names:
                        if n in env.vars or n in self.hoisted:
                            self.fail(env, f'block-local name `{n}` is not fresh: cannot flatten the block')
                        self.hoisted.add(n)
                out += self.stmt(b, env, ind)
            if blk[2] is None:
                self.fail(env, 'block without a value where one is needed')
            return out + self.stmt(('let', s[1], s[2], blk[2]), env, ind)
        return Tr.stmt(self, s, env, ind)

    def leaf_stmt(self, e, env, ind):
        k = e[0]
        if k == 'try' and e[1][0] == 'mcall' and is_var(e[1][1], 'output') and e[1][2] == 'write_all' and len(e[1][3]) == 1:
            a = strip_ref(e[1][3][0])
            if is_var(a, 'mask'):
                return [f'{ind}appendOut mask.toBytes']
            return [f'{ind}appendOut {paren(self.v(a, env))}']
        if k == 'mcall' and is_var(e[1], 'cursor') and e[2] == 'set_position' and len(e[3]) == 1:
            return [f'{ind}setPos {paren(self.v(e[3][0], env))}']
        return None

    def if_(self, e, env, mode, ind):
        c = e[1]
        if c[0] == 'let' and c[1] == ('tstruct', ['Some'], [('bind', 'mask', True, False)]) \
                and self.self_chain(c[2]) == 'self_.mask':
            # `if let Some(ref mask) = self.mask`: a shared borrow of an immutable value
            e = ('if', ('let', ('tstruct', ['Some'], [('bind', 'mask', False, False)]), c[2]), e[2], e[3])
        return Tr.if_(self, e, env, mode, ind)

    # ---- the two `match`es on a kept `Result`
    def match_(self, e, env, mode, ind):
        st, arms = e[1], e[2]
        if st[0] == 'mcall' and is_var(st[1], 'cursor') and st[2] == 'read_exact':
            return self.read_exact_match(st, arms, env, mode, ind)
        if st[0] == 'call' and st[1] == ('path', ['Self', 'parse_internal']):
            return self.parse_match(st, arms, env, mode, ind)
        return Tr.match_(self, e, env, mode, ind)

    def read_exact_match(self, st, arms, env, mode, ind):
        a = st[3][0] if len(st[3]) == 1 else None
        ok = a is not None and a[0] == 'ref' and a[1] and a[2][0] == 'index' and self.mut_local(a[2][1], env) \
            and a[2][2][0] == 'range' and a[2][2][1] == '..' and a[2][2][3] is None
        if not ok:
            self.fail(env, 'read_exact target is not `&mut local[start..]`')
        buf = lname(a[2][1][1][0])
        start = paren(self.v(a[2][2][2], env))
        if len(arms) != 3:
            self.fail(env, 'match on read_exact: arms changed')
        (p1, g1, b1), (p2, g2, b2), (p3, g3, b3) = arms
        eof_guard = ('bin', '==', ('mcall', ('path', ['err']), 'kind', []), ('path', ['ErrorKind', 'UnexpectedEof']))
        if p1 != ('tstruct', ['Err'], [('bind', 'err', True, False)]) or g1 != eof_guard:
            self.fail(env, 'match on read_exact: first arm is not `Err(ref err) if err.kind() == ErrorKind::UnexpectedEof`')
        if p2 != ('tstruct', ['Err'], [('bind', 'err', False, False)]) or g2 is not None:
            self.fail(env, 'match on read_exact: second arm is not `Err(err)`')
        if p3 != ('tstruct', ['Ok'], [('ptuple', [])]) or g3 is not None:
            self.fail(env, 'match on read_exact: third arm is not `Ok(())`')
        env.fresh += 1
        t = f'__x{env.fresh}'
        out = [f'{ind}match (← cursorReadExact ({buf}.drop {start})) with',
               f'{ind}| ReadExact.eof =>']
        out += self.branch(b1, env, mode, ind + '  ')
        sub = env.child()
        sub.vars['err'] = {'kind': 'V', 'mut': False, 'alias': None}
        out.append(f'{ind}| ReadExact.failed err =>')
        out += self.seq(self.as_block(b2), sub, mode, ind + '  ')
        out.append(f'{ind}| ReadExact.done {t} =>')
        out.append(f'{ind}  {buf} := {buf}.take {start} ++ {t}')
        out += self.branch(b3, env, mode, ind + '  ')
        return out

    def parse_match(self, st, arms, env, mode, ind):
        want = [(('at', 'ret', ('tstruct', ['Ok'], [('ppath', ['None'])])), None,
                 ('block', [('expr', ('mcall', ('path', ['cursor']), 'set_position', [('path', ['initial'])]))], ('path', ['ret']))),
                (('bind', 'ret', False, False), None, ('path', ['ret']))]
        if arms != want or st[2] != [('path', ['cursor'])] or mode != 'ret':
            self.fail(env, 'match on parse_internal: shape changed')
        return [f'{ind}let ret ← attempt parseInternal',
                f'{ind}match ret with',
                f'{ind}| {self.RES}.ok none =>',
                f'{ind}  setPos initial',
                f'{ind}  liftRes ret',
                f'{ind}| _ =>',
                f'{ind}  liftRes ret']


def translate(src):
    text = strip_comments(src)
    if len(re.findall(r'mem::size_of::<\s*u64\s*>\s*\(\s*\)', text)) != 1:
        raise TranslateError('FrameHeader::parse_internal: `mem::size_of::<u64>()` not found exactly once')
    parsed = {}
    specs = {}
    for rust, (anchor, lean, recv, params, ret, lret) in FNS.items():
        fn = parse_fn(src, rust, anchor, what=f'FrameHeader::{rust}')
        if fn['self'] != recv or fn['ret'].replace(' ', '') != ret or [p[0] for p in fn['params']] != params:
            raise TranslateError(f'FrameHeader::{rust}: signature changed')
        parsed[rust] = fn
        specs[rust] = {'lean': lean, 'ret_result': True, 'ret_lean': lret}
    tr = HdrTr(specs)
    out = ['/- GENERATED by translator/hdr2lean.py from src/protocol/frame/frame.rs — do not edit. -/',
           'import WsModel.HdrM',
           'set_option linter.unusedVariables false',
           'namespace WsModel.GenHdr',
           'open WsModel WsModel.Gen',
           '']
    for rust in ORDER:
        anchor, lean, recv, params, ret, lret = FNS[rust]
        fn = parsed[rust]
        env = Env(rust, True, {('parse_internal', 'assert', 0): 'lengthLength'})
        binders = ''
        if recv is not None:
            binders += ' (self_ : Header)'
            env.vars['self'] = {'kind': 'V', 'mut': False, 'alias': None}
        for pn in params:
            env.vars[pn] = {'kind': 'V', 'mut': False, 'alias': None}
            if pn == 'length':
                binders += ' (length : Nat)'
        tr.helpers = []
        tr.hoisted = set()
        env.specs_ret_unit = lret == 'Unit'
        items = tr.seq(fn['body'], env, 'ret', '  ')
        out.append(f'/-- `FrameHeader::{rust}` -/')
        out.append(f'def {lean}{binders} : M {paren(lret)} := do')
        out += items
        out.append('')
    out.append('end WsModel.GenHdr')
    return '\n'.join(out) + '\n'


def gen_hdr(repo):
    src = open(os.path.join(repo, 'src/protocol/frame/frame.rs')).read()
    return translate(src)


if __name__ == '__main__':
    import sys
    sys.stdout.write(gen_hdr(sys.argv[1]))
