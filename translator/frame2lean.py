"""frame2lean: machine translation of `Frame::{len, into_close, close, format, format_into_buf}`
(src/protocol/frame/frame.rs) into Lean `do`-notation over `WsModel.GenFrame.M`
(lean/WsModel/FrameM.lean; the state is the output buffer).  Same machinery as ctx2lean.  Fails closed."""
import os
import re

from rs2lean import TranslateError
from rsast import parse_fn
from ctx2lean import Tr, Env, lname, paren, is_self, self_field_path

FRAME = r'impl\s+Frame\s*\{'
FNS = {'len': 'len', 'into_close': 'intoClose', 'close': 'close', 'format': 'format', 'format_into_buf': 'formatIntoBuf'}
ORDER = ['len', 'into_close', 'close', 'format', 'format_into_buf']
SIG = {  # rust name -> (receiver, params (name -> lean type | None = the output buffer), return, lean return, result?)
    'len': ('&', {}, 'usize', 'Nat', False),
    'into_close': ('self', {}, 'Result<Option<CloseFrame>>', 'Option CloseFrame', True),
    'close': (None, {'msg': 'Option CloseFrame'}, 'Frame', 'Frame', False),
    'format': ('self', {'output': None}, 'Result<()>', 'Unit', True),
    'format_into_buf': ('self', {'buf': None}, 'Result<()>', 'Unit', True),
}
OUT_PARAMS = ('output', 'buf')


def strip_ref(e):
    while e[0] in ('ref', 'paren'):
        e = e[2] if e[0] == 'ref' else e[1]
    return e


class FrameTr(Tr):
    SELF_FIELDS = {}
    SELF_SETTERS = {}
    FIELD_RENAME = {'is_final': 'fin'}

    def local(self, e, env, mutable=False):
        ok = e[0] == 'path' and len(e[1]) == 1 and e[1][0] in env.vars
        return ok and (not mutable or env.vars[e[1][0]]['mut'])

    def is_out(self, e):
        e = strip_ref(e)
        return e[0] == 'path' and len(e[1]) == 1 and e[1][0] in OUT_PARAMS

    def self_chain(self, e):
        sp = self_field_path(e)
        if sp is None:
            return None
        return 'self_.' + '.'.join(self.FIELD_RENAME.get(f, f) for f in sp)

    def pat(self, p, env, scrut_kind='V', top=True):
        if p[0] == 'pstruct' and p[1][-1] == 'CloseFrame':
            given = dict(p[2])
            if sorted(given) != ['code', 'reason']:
                self.fail(env, 'CloseFrame pattern fields changed')
            return '{ code := ' + self.pat(given['code'], env, 'V', False) + ', reason := ' + \
                self.pat(given['reason'], env, 'V', False) + ' }'
        return Tr.pat(self, p, env, scrut_kind, top)

    def irrefutable(self, p):
        if p[0] == 'pstruct':
            return all(self.irrefutable(q) for _, q in p[2])
        return Tr.irrefutable(self, p)

    def leaf_effect(self, e, env):
        if e[0] == 'mcall' and e[2] in ('extend', 'extend_from_slice', 'write_all', 'take', 'format'):
            return True
        if e[0] == 'call' and e[1][0] == 'path' and e[1][1][-1] in ('apply_mask', 'take'):
            return True
        if e[0] == 'field' and self_field_path(e) is not None:
            return False      # `self` is a value here
        if e[0] == 'index':
            return self.has_effect(e[1], env)
        return None

    def leaf_expr(self, e, env):
        k = e[0]
        c = self.self_chain(e) if k == 'field' else None
        if c is not None:
            return 'V', c
        if k == 'index' and e[2][0] == 'lit':
            return 'V', f'{paren(self.v(e[1], env))}[{e[2][2]}]!'
        if k == 'array':
            return 'V', '[' + ', '.join(self.v(x, env) for x in e[1]) + ']'
        if k == 'mcall':
            _, recv, m, args = e
            if m == 'len' and len(args) == 1 and self.self_chain(recv) == 'self_.header':
                return 'V', f'Header.len self_.header {paren(self.v(args[0], env))}'
            if m == 'len' and not args and self.is_out(recv):
                return 'V', '(← getW).length'
            if m == 'into' and not args and recv[0] == 'call' and recv[1] == ('path', ['u16', 'from_be_bytes']):
                return 'V', f'closeCodeOfU16 (beNat {self.v(recv[2][0], env)})'
            if m in ('into', 'as_bytes') and not args:
                return self.classify(recv, env)
            if m == 'slice' and len(args) == 1 and args[0][0] == 'range' and args[0][3] is None:
                return 'V', f'{paren(self.v(recv, env))}.drop {paren(self.v(args[0][2], env))}'
            if m == 'to_be_bytes' and not args and recv[0] == 'call' and recv[1] == ('path', ['u16', 'from']):
                return 'V', f'beBytes 2 (closeCodeToU16 {paren(self.v(recv[2][0], env))})'
            if m == 'format' and len(args) == 2 and self.self_chain(recv) == 'self_.header' and self.is_out(args[1]):
                return 'M', f'headerFormatInto self_.header {paren(self.v(args[0], env))}'
            if m == 'take' and not args and self.self_chain(recv) == 'self_.header.mask':
                if not env.vars['self']['mut']:
                    self.fail(env, 'self.header.mask.take() on an immutable self')
                env.fresh += 1
                t = f'__t{env.fresh}'
                env.pre.append(f'let {t} := self_.header.mask')
                env.pre.append('self_ := { self_ with header := { self_.header with mask := none } }')
                return 'V', t
        if k == 'call' and e[1][0] == 'path':
            segs, args = e[1][1], e[2]
            name = '::'.join(segs)
            if name == 'Utf8Bytes::try_from' and len(args) == 1:
                return 'R', f'utf8BytesTryFrom {paren(self.v(args[0], env))}'
            if name in ('BytesMut::with_capacity', '<>::default'):
                return 'V', '([] : Bytes)'
            if name == 'FrameHeader::default' and not args:
                return 'V', 'Header.default'
            if name == 'Vec::from' and len(args) == 1 and args[0][0] == 'call' and args[0][1] == ('path', ['mem', 'take']) \
                    and self.self_chain(strip_ref(args[0][2][0])) == 'self_.payload':
                env.fresh += 1
                t = f'__p{env.fresh}'
                env.pre.append(f'let {t} := self_.payload')
                env.pre.append('self_ := { self_ with payload := [] }')
                return 'V', t
        if k == 'struct' and e[1][-1] == 'Frame' and len(e) == 3 and [f for f, _ in e[2]] == ['header', 'payload']:
            return 'V', f'({{ header := {self.v(e[2][0][1], env)}, payload := {self.v(e[2][1][1], env)} }} : Frame)'
        return None

    def leaf_stmt(self, e, env, ind):
        k = e[0]
        inner = e[1] if k == 'try' else e
        if inner[0] == 'mcall':
            _, recv, m, args = inner
            if m in ('extend', 'extend_from_slice') and len(args) == 1 and self.local(recv, env, True) and k != 'try':
                v = lname(recv[1][0])
                return [f'{ind}{v} := {v} ++ {paren(self.v(strip_ref(args[0]), env))}']
            if m == 'extend_from_slice' and len(args) == 1 and self.is_out(recv) and k != 'try':
                return [f'{ind}appendOut {paren(self.v(strip_ref(args[0]), env))}']
            if m == 'write_all' and len(args) == 1 and self.is_out(recv) and k == 'try':
                return [f'{ind}appendOut {paren(self.v(strip_ref(args[0]), env))}']
        if k == 'call' and e[1] == ('path', ['apply_mask']) and len(e[2]) == 2:
            tgt = strip_ref(e[2][0])
            if tgt[0] == 'index' and self.is_out(tgt[1]) and tgt[2][0] == 'range' and tgt[2][3] is None:
                return [f'{ind}maskOutFrom {paren(self.v(tgt[2][2], env))} {paren(self.v(e[2][1], env))}']
            if self.local(tgt, env, True):
                v = lname(tgt[1][0])
                return [f'{ind}{v} := applyMask {paren(self.v(e[2][1], env))} {v}']
        return None


def translate(src):
    parsed = {}
    specs = {}
    for rust, lean in FNS.items():
        fn = parse_fn(src, rust, FRAME, what=f'Frame::{rust}')
        recv, params, ret, lret, is_res = SIG[rust]
        if fn['self'] != recv or fn['ret'].replace(' ', '') != ret.replace(' ', '') or \
                [p[0] for p in fn['params']] != list(params):
            raise TranslateError(f'Frame::{rust}: signature changed')
        parsed[rust] = fn
        specs[rust] = {'lean': lean, 'ret_result': is_res, 'ret_lean': lret}
    tr = FrameTr(specs)
    out = ['/- GENERATED by translator/frame2lean.py from src/protocol/frame/frame.rs — do not edit. -/',
           'import WsModel.FrameM',
           'set_option linter.unusedVariables false',
           'namespace WsModel.GenFrame',
           'open WsModel WsModel.Gen',
           '']
    for rust in ORDER:
        fn = parsed[rust]
        sp = specs[rust]
        recv, params, ret, lret, is_res = SIG[rust]
        env = Env(rust, is_res, {})
        binders = ''
        pre = []
        if recv is not None:
            binders += ' (self_ : Frame)'
            env.vars['self'] = {'kind': 'V', 'mut': recv == 'self', 'alias': None}
            if recv == 'self':
                pre.append('  let mut self_ := self_')
        for pn, lt in params.items():
            if lt is None:
                env.vars[pn] = {'kind': 'V', 'mut': False, 'alias': None}
                continue
            binders += f' ({lname(pn)} : {lt})'
            env.vars[pn] = {'kind': 'V', 'mut': False, 'alias': None}
        tr.helpers = []
        env.specs_ret_unit = lret == 'Unit'
        items = tr.seq(fn['body'], env, 'ret', '  ')
        out.append(f'/-- `Frame::{rust}` -/')
        out.append(f'def {sp["lean"]}{binders} : M {paren(lret)} := do')
        out += pre
        out += items
        out.append('')
    out.append('end WsModel.GenFrame')
    return '\n'.join(out) + '\n'


def gen_frame(repo):
    src = open(os.path.join(repo, 'src/protocol/frame/frame.rs')).read()
    return translate(src)


if __name__ == '__main__':
    import sys
    sys.stdout.write(gen_frame(sys.argv[1]))
