"""verify2lean: machine translation of `VerifyData::verify_response` (src/handshake/client.rs) —
the client's decision whether a response is the matching 101 — into a Lean `do` block over
`Except HsErr` (leaves in lean/WsModel/VerifyM.lean: the response object, `HeaderMap::get`,
`HeaderValue::to_str`, `eq_ignore_ascii_case`).  Statement forms: `if c { return Err(e); }`,
`let headers = response.headers();`, nested `if let Some(x) = e { .. }` without `else`, the final
`Ok(response)`.  Conditions are translated operator by operator, including the `Option` chains
with closures (`.and_then(|h| ..)`, `.map(|h| ..)`, `.unwrap_or(false)`).  String literals become
byte lists.  Fails closed."""
import os

from rs2lean import TranslateError
from rsast import parse_fn
from ctx2lean import self_field_path

ANCHOR = r'impl\s+VerifyData\s*\{'


def fail(msg):
    raise TranslateError(f'VerifyData::verify_response: {msg}')


def lc(name):
    return name[0].lower() + name[1:]


def blit(s):
    return '[' + ', '.join(str(b) for b in s.encode()) + ']'


def is_var(e, name=None):
    return e[0] == 'path' and len(e[1]) == 1 and (name is None or e[1][0] == name)


class Em:
    def __init__(self):
        self.vars = {'response': 'resp'}     # name -> kind

    def err(self, e):
        """Lean term of the argument of `Err(..)`"""
        if e[0] == 'call' and e[1] == ('path', ['Error', 'Http']) and e[2] == [('path', ['response'])]:
            return 'HsErr.http response.status response.body'
        if e[0] == 'call' and e[1] == ('path', ['Error', 'Protocol']) and len(e[2]) == 1:
            a = e[2][0]
            if a[0] == 'path' and len(a[1]) == 2 and a[1][0] == 'ProtocolError':
                return f'HsErr.{lc(a[1][1])}'
            if a[0] == 'call' and a[1] == ('path', ['ProtocolError', 'SecWebSocketSubProtocolError']) and len(a[2]) == 1 \
                    and a[2][0][0] == 'path' and len(a[2][0][1]) == 2 and a[2][0][1][0] == 'SubProtocolError':
                return f'HsErr.subProtocol SubProtoErr.{lc(a[2][0][1][1])}'
        fail(f'error value outside the translated subset: {str(e)[:120]}')

    def closure(self, c, kind):
        if c[0] != 'closure' or len(c[1]) != 1 or c[1][0][0] != 'bind':
            fail('closure form')
        v = c[1][0][1]
        saved = dict(self.vars)
        self.vars[v] = kind
        body = self.e(c[2])
        self.vars = saved
        return f'(fun {v} => {body})'

    def e(self, x):
        k = x[0]
        if k == 'paren':
            return self.e(x[1])
        if k == 'lit' and x[1] == 'str':
            return blit(x[2])
        if k == 'lit' and x[1] == 'bool':
            return x[2]
        if k == 'path' and len(x[1]) == 1 and x[1][0] in self.vars:
            return x[1][0]
        if k == 'path' and x[1] == ['StatusCode', 'SWITCHING_PROTOCOLS']:
            return 'switchingProtocols'
        if k == 'ref':
            return self.e(x[2])
        if k == 'field' and self_field_path(x) in (('accept_key',), ('subprotocols',)):
            return 'self_.' + {'accept_key': 'acceptKey', 'subprotocols': 'subprotocols'}[self_field_path(x)[0]]
        if k == 'unary' and x[1] == '!':
            return f'(!{self.e(x[2])})'
        if k == 'bin' and x[1] in ('&&', '||', '==', '!='):
            return f'({self.e(x[2])} {x[1]} {self.e(x[3])})'
        if k == 'try' and x[1][0] == 'mcall' and x[1][2] == 'to_str' and not x[1][3]:
            return f'(← toStrTry {self.e(x[1][1])})'
        if k == 'mcall':
            _, recv, m, args = x
            if is_var(recv, 'response') and m == 'status' and not args:
                return 'response.status'
            if is_var(recv, 'response') and m == 'headers' and not args:
                return 'response.headers'
            if is_var(recv, 'headers') and m == 'get' and len(args) == 1 and args[0][0] == 'lit' and args[0][1] == 'str':
                return f'(hget headers {blit(args[0][2])})'
            if m == 'and_then' and len(args) == 1:
                return f'(Option.bind {self.e(recv)} {self.closure(args[0], "hv")})'
            if m == 'map' and len(args) == 1:
                return f'(Option.map {self.closure(args[0], "hv")} {self.e(recv)})'
            if m == 'unwrap_or' and len(args) == 1:
                return f'(Option.getD {self.e(recv)} {self.e(args[0])})'
            if m == 'ok' and not args and recv[0] == 'mcall' and recv[2] == 'to_str' and not recv[3]:
                return f'(toStr {self.e(recv[1])})'
            if m == 'eq_ignore_ascii_case' and len(args) == 1:
                return f'(eqIgnoreCase {self.e(recv)} {self.e(args[0])})'
            if m == 'is_none' and not args:
                return f'(Option.isNone {self.e(recv)})'
            if m == 'is_some' and not args:
                return f'(Option.isSome {self.e(recv)})'
            if m == 'contains' and len(args) == 1:
                return f'(List.contains {self.e(recv)} {self.e(args[0])})'
            if m == 'to_string' and not args:
                return self.e(recv)
        fail(f'expression form `{k}` is outside the translated subset: {str(x)[:120]}')

    def ret_err(self, blk):
        """`{ return Err(e); }`"""
        if blk[0] != 'block' or len(blk[1]) != 1 or blk[2] is not None:
            return None
        st = blk[1][0]
        if st[0] != 'expr' or st[1][0] != 'return' or st[1][1] is None:
            return None
        r = st[1][1]
        if r[0] == 'call' and r[1] == ('path', ['Err']) and len(r[2]) == 1:
            return self.err(r[2][0])
        return None

    def if_stmt(self, x, ind):
        _, c, then, els = x
        if els is not None:
            fail('`else` branch')
        if c[0] == 'let':
            p = c[1]
            if not (p[0] == 'tstruct' and p[1] == ['Some'] and len(p[2]) == 1 and p[2][0][0] == 'bind'):
                fail('`if let` pattern')
            v = p[2][0][1]
            scrut = self.e(c[2])
            saved = dict(self.vars)
            self.vars[v] = 'val'
            out = [f'{ind}if let some {v} := {scrut} then']
            out += self.block(then, ind + '  ')
            self.vars = saved
            return out
        e = self.ret_err(then)
        if e is None:
            fail('the body of an `if` is not `return Err(..)`')
        return [f'{ind}if {self.e(c)} then', f'{ind}  throw ({e})']

    def block(self, blk, ind):
        out = []
        items = [s for s in blk[1]] + ([('expr', blk[2])] if blk[2] is not None else [])
        for st in items:
            if st[0] == 'expr' and st[1][0] == 'if':
                out += self.if_stmt(st[1], ind)
            else:
                fail(f'statement form inside a branch: {str(st)[:100]}')
        if not out:
            out = [f'{ind}pure ()']
        return out


def translate(src):
    fn = parse_fn(src, 'verify_response', ANCHOR, what='VerifyData::verify_response')
    if fn['self'] != '&' or [(p[0], p[1].replace(' ', '')) for p in fn['params']] != [('response', 'Response')] \
            or fn['ret'].replace(' ', '') != 'Result<Response>':
        fail('signature changed')
    em = Em()
    lines = []
    body = fn['body']
    for st in body[1]:
        if st[0] == 'let':
            if st[1] != ('bind', 'headers', False, False) or st[3] != ('mcall', ('path', ['response']), 'headers', []):
                fail('`let` other than `let headers = response.headers()`')
            em.vars['headers'] = 'headers'
            lines.append('  let headers := response.headers')
            continue
        x = st[1]
        if x[0] == 'if':
            lines += em.if_stmt(x, '  ')
            continue
        fail(f'statement form `{x[0]}` is outside the translated subset')
    if body[2] != ('call', ('path', ['Ok']), [('path', ['response'])]):
        fail('the value is no longer `Ok(response)`')
    lines.append('  pure ()')
    out = ['/- GENERATED by translator/verify2lean.py from src/handshake/client.rs — do not edit. -/',
           'import WsModel.VerifyM',
           'set_option linter.unusedVariables false',
           'namespace WsModel.GenVerify',
           'open WsModel WsModel.Hs',
           '',
           '/-- `VerifyData::verify_response`; `Ok(response)` hands the response back unchanged -/',
           'def verifyResponse (self_ : VerifyData) (response : Resp) : Except HsErr Unit := do']
    out += lines
    out += ['', 'end WsModel.GenVerify']
    return '\n'.join(out) + '\n'


def gen_verify(repo):
    return translate(open(os.path.join(repo, 'src/handshake/client.rs')).read())


if __name__ == '__main__':
    import sys
    sys.stdout.write(gen_verify(sys.argv[1]))
