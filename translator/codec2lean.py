"""codec2lean: machine translation of `FrameCodec::{read_frame, buffer_frame, write_out_buffer}`
(src/protocol/frame/mod.rs) into Lean `do`-notation over `WsModel.GenCodec.M`
(lean/WsModel/CodecM.lean).  Uses the parser and the statement translator of ctx2lean; only the
leaf tables differ.  Fails closed."""
import os
import re

from rs2lean import TranslateError
from rsast import parse_fn
from ctx2lean import Tr, Env, lean_type, lname, paren, self_field_path, is_self

CODEC = r'impl\s+FrameCodec\s*\{'
FNS = {'write_out_buffer': 'writeOutBuffer', 'buffer_frame': 'bufferFrame', 'read_frame': 'readFrame'}
ORDER = ['write_out_buffer', 'buffer_frame', 'read_frame']

SITES = {
    ('read_frame', 'unwrap', 0): 'noFrameHeader',
    ('read_frame', 'debug_assert_eq', 0): 'payloadLenMismatch',
}
# Lean types of `let`-bound locals that a loop body reads
LET_TYPES = {('read_frame', 'max_size'): 'Nat'}


def is_field(e, name):
    return self_field_path(e) == (name,)


def strip_ref(e):
    while e[0] in ('ref', 'paren'):
        e = e[2] if e[0] == 'ref' else e[1]
    return e


class CodecTr(Tr):
    SELF_FIELDS = {('in_buffer',): '.c.inBuf', ('out_buffer',): '.c.outBuf', ('header',): '.c.header',
                   ('max_out_buffer_len',): '.c.maxOut', ('out_buffer_write_len',): '.c.writeLen'}
    SELF_SETTERS = {'header': 'setHeaderM'}
    FIELD_RENAME = {'is_final': 'fin'}
    SKIP_PARAMS = ('stream',)

    def loop_break_type(self, env):
        return 'Bytes'

    def loop_fuel(self, env, n):
        return {'read_frame': 'readFrameFuel', 'write_out_buffer': 'writeFuel'}[env.fn]

    def var_lean_type(self, env, v):
        t = env.vars[v].get('ltype') or LET_TYPES.get((env.fn, v))
        if t is None:
            self.fail(env, f'the type of `{v}` (used inside a loop) is not known to the translator')
        return t

    def local(self, e, env):
        return e[0] == 'path' and len(e[1]) == 1 and e[1][0] in env.vars

    def leaf_effect(self, e, env):
        if e[0] == 'mcall' and e[2] in ('take', 'split_to', 'reserve', 'drain', 'position'):
            return e[2] != 'position'
        if e[0] == 'call' and e[1][0] == 'path' and e[1][1][-1] in ('advance', 'apply_mask', 'parse'):
            return True
        if e[0] == 'mcall' and e[2] == 'write':
            return True
        return None

    def leaf_call(self, e, env):
        f, args = e[1], e[2]
        if f[0] != 'path':
            return None
        name = '::'.join(f[1])
        if name == 'Cursor::new' and len(args) == 1 and is_field(strip_ref(args[0]), 'in_buffer'):
            return 'V', 'cursorNew (← getW).c.inBuf'
        if name == 'FrameHeader::parse' and len(args) == 1 and self.local(strip_ref(args[0]), env):
            cur = strip_ref(args[0])[1][0]
            if not env.vars[cur]['mut']:
                self.fail(env, 'FrameHeader::parse on an immutable cursor')
            env.fresh += 1
            c, r = f'__c{env.fresh}', f'__r{env.fresh}'
            env.pre.append(f'let ({c}, {r}) := headerParseAt {lname(cur)}')
            env.pre.append(f'{lname(cur)} := {c}')
            return 'R', r
        if name == 'Frame::from_payload' and len(args) == 2:
            return 'V', f'({{ header := {self.v(args[0], env)}, payload := {self.v(args[1], env)} }} : Frame)'
        if name in ('IoError::new',) and len(args) == 2:
            return 'V', self.v(args[0], env)
        return None

    def leaf_mcall(self, e, env):
        _, recv, m, args = e
        if recv == ('path', ['stream']) and m == 'write' and len(args) == 1 and is_field(strip_ref(args[0]), 'out_buffer'):
            return 'M', 'streamWrite (← getW).c.outBuf'
        if is_self(recv) and m == 'read_in':
            return 'M', 'readIn'
        if is_field(recv, 'header') and m == 'take' and not args:
            return 'MP', 'takeHeader'
        if is_field(recv, 'in_buffer') and m == 'split_to' and len(args) == 1:
            return 'MP', f'splitTo {paren(self.v(args[0], env))}'
        if m == 'unwrap_or_else' and len(args) == 1 and args[0] == ('path', ['usize', 'max_value']):
            return 'V', f'Option.getD {paren(self.v(recv, env))} usizeMax'
        if m == 'into' and not args and recv[0] == 'call' and recv[1] == ('path', ['IoError', 'new']):
            return 'V', f'Err.io {paren(self.v(recv, env))}'
        if m == 'position' and not args and self.local(recv, env):
            return 'V', f'{lname(recv[1][0])}.2'
        if m == 'freeze' and not args:
            return self.classify(recv, env)
        if m == 'take' and not args and recv[0] == 'field' and self.local(recv[1], env) and recv[2] == 'mask':
            var = recv[1][1][0]
            if not env.vars[var]['mut']:
                self.fail(env, f'.take() on a field of immutable {var}')
            env.fresh += 1
            t = f'__t{env.fresh}'
            env.pre.append(f'let {t} := {lname(var)}.mask')
            env.pre.append(f'{lname(var)} := {{ {lname(var)} with mask := none }}')
            return 'V', t
        return None

    def leaf_stmt(self, e, env, ind):
        k = e[0]
        if k == 'mcall':
            _, recv, m, args = e
            if m == 'reserve' and (is_field(recv, 'in_buffer') or is_field(recv, 'out_buffer')):
                if any(self.has_effect(a, env) and not self.only_reads(a) for a in args):
                    self.fail(env, 'reserve() with an effectful argument')
                return []       # capacity is not modelled
            if m == 'drain' and is_field(recv, 'out_buffer') and len(args) == 1 and args[0][0] == 'range' \
                    and args[0][1] == '..' and args[0][2] == ('lit', 'num', 0):
                t = paren(self.v(args[0][3], env))
                return self.take_pre(env, ind) + [f'{ind}drainOut {t}']
            if m == 'expect' and recv[0] == 'mcall' and recv[2] == 'format_into_buf' and len(recv[3]) == 1 \
                    and is_field(strip_ref(recv[3][0]), 'out_buffer'):
                return [f'{ind}formatIntoOut {paren(self.v(recv[1], env))}']
        if k == 'call' and e[1][0] == 'path':
            name = '::'.join(e[1][1])
            args = e[2]
            if name in ('bytes::Buf::advance', 'Buf::advance') and len(args) == 2 and is_field(strip_ref(args[0]), 'in_buffer'):
                t = paren(self.v(args[1], env))
                return self.take_pre(env, ind) + [f'{ind}advanceIn {t}']
            if name == 'apply_mask' and len(args) == 2 and self.local(strip_ref(args[0]), env):
                var = strip_ref(args[0])[1][0]
                if not env.vars[var]['mut']:
                    self.fail(env, f'apply_mask on immutable {var}')
                return [f'{ind}{lname(var)} := applyMask {paren(self.v(args[1], env))} {lname(var)}']
        return None

    def only_reads(self, e):
        """an expression that merely reads `self` fields (no calls that mutate)"""
        s = repr(e)
        return not any(w in s for w in ("'take'", "'split_to'", "'write'", "'read_in'", "'drain'", "'advance'"))


def translate(src):
    parsed = {}
    specs = {}
    for rust, lean in FNS.items():
        fn = parse_fn(src, rust, CODEC, what=f'FrameCodec::{rust}')
        parsed[rust] = fn
        ret = fn['ret'].replace(' ', '')
        m = re.fullmatch(r'(?:crate::)?Result<(.*)>', ret)
        if not m:
            raise TranslateError(f'FrameCodec::{rust}: no longer returns Result')
        specs[rust] = {'lean': lean, 'ret_result': True, 'ret_lean': lean_type(m.group(1))}
    tr = CodecTr(specs)
    out = ['/- GENERATED by translator/codec2lean.py from src/protocol/frame/mod.rs — do not edit. -/',
           'import WsModel.CodecM',
           'set_option linter.unusedVariables false',
           'namespace WsModel.GenCodec',
           'open WsModel WsModel.Gen',
           '']
    for rust in ORDER:
        fn = parsed[rust]
        sp = specs[rust]
        env = Env(rust, True, SITES)
        params = []
        for (pn, ty, is_mut) in fn['params']:
            if pn in tr.SKIP_PARAMS:
                continue
            lt = lean_type(ty)
            env.vars[pn] = {'kind': 'V', 'mut': False, 'alias': None, 'ltype': lt}
            if lt == 'Frame':
                env.vars[pn]['type'] = 'Frame'
            params.append((pn, lt, is_mut))
        if fn['self'] != '&mut':
            raise TranslateError(f'FrameCodec::{rust}: receiver is no longer &mut self')
        sig = ''.join(f' ({lname(pn)} : {lt})' for pn, lt, _ in params)
        tr.cur_sig = ('', sig)
        tr.helpers = []
        env.specs_ret_unit = sp['ret_lean'] == 'Unit'
        items = tr.seq(fn['body'], env, 'ret', '  ')
        out += tr.helpers
        out.append(f'/-- `FrameCodec::{rust}` -/')
        out.append(f'def {sp["lean"]}{sig} : M {paren(sp["ret_lean"])} := do')
        out += items
        out.append('')
    out.append('end WsModel.GenCodec')
    return '\n'.join(out) + '\n'


def gen_codec(repo):
    src = open(os.path.join(repo, 'src/protocol/frame/mod.rs')).read()
    return translate(src)


if __name__ == '__main__':
    import sys
    sys.stdout.write(gen_codec(sys.argv[1]))
