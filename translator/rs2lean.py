#!/usr/bin/env python3
"""rs2lean: translate the pure, table-like functions of tungstenite-rs into Lean 4.

Restricted Rust subset (fails closed on anything else):
  * enum declarations (unit variants and single-field tuple variants)
  * `match x { pat => expr, ... }` where patterns are integer literals, inclusive ranges,
    `name @ a..=b`, `_`, enum paths with optional single binding / `_`, or-patterns
  * `matches!(x, pat | pat ...)`, optionally negated
  * `if a OP b { e } else if ... else { e }` chains over integer comparisons, `&&`, `*`
  * `const NAME: T = literal;`

Usage: rs2lean.py <repo> <outdir>      (writes <outdir>/{Coding,LengthFormat,State,Attack}.lean)
Exit status 0 on success; non-zero with a message naming the function that no longer fits.
"""
import re
import sys
import os


class TranslateError(Exception):
    pass


# ---------------------------------------------------------------- source slicing

def strip_comments(src):
    out = []
    i = 0
    n = len(src)
    while i < n:
        if src.startswith('//', i):
            j = src.find('\n', i)
            if j < 0:
                j = n
            i = j
        elif src.startswith('/*', i):
            j = src.find('*/', i)
            if j < 0:
                raise TranslateError('unterminated block comment')
            i = j + 2
        elif src[i] == '"':
            j = i + 1
            while j < n and src[j] != '"':
                if src[j] == '\\':
                    j += 1
                j += 1
            out.append(src[i:j + 1])
            i = j + 1
        else:
            out.append(src[i])
            i += 1
    return ''.join(out)


def balanced(src, start, open_ch='{', close_ch='}'):
    """src[start] is open_ch; return index just past the matching close."""
    assert src[start] == open_ch, (src[start:start + 20], open_ch)
    depth = 0
    i = start
    n = len(src)
    while i < n:
        c = src[i]
        if c == '"':
            i += 1
            while i < n and src[i] != '"':
                if src[i] == '\\':
                    i += 1
                i += 1
        elif c == "'" and i + 2 < n and src[i + 2] == "'":
            i += 2
        elif c == open_ch:
            depth += 1
        elif c == close_ch:
            depth -= 1
            if depth == 0:
                return i + 1
        i += 1
    raise TranslateError('unbalanced braces')


def find_block(src, header_re, what):
    """Return the text inside the braces following the first match of header_re."""
    m = re.search(header_re, src)
    if not m:
        raise TranslateError(f'anchor not found: {what}')
    i = src.find('{', m.end() - 1)
    if i < 0:
        raise TranslateError(f'no body for {what}')
    j = balanced(src, i)
    return src[i + 1:j - 1]


def find_fn(src, name, what=None, within=None):
    """Body of `fn name(...)` (first occurrence, optionally inside the block `within`)."""
    text = within if within is not None else src
    m = re.search(r'\bfn\s+' + re.escape(name) + r'\s*(<[^>]*>)?\s*\(', text)
    if not m:
        raise TranslateError(f'function not found: {what or name}')
    # skip the parameter list
    p = text.find('(', m.start())
    q = balanced(text, p, '(', ')')
    i = text.find('{', q)
    j = balanced(text, i)
    return text[p + 1:q - 1], text[i + 1:j - 1]


# ---------------------------------------------------------------- tokenizer

TOKEN_RE = re.compile(r'''
    (?P<ws>\s+)
  | (?P<num>0x[0-9a-fA-F_]+|\d[\d_]*)(?:usize|u8|u16|u32|u64)?
  | (?P<str>"(?:\\.|[^"\\])*")
  | (?P<id>[A-Za-z_][A-Za-z0-9_]*!?)
  | (?P<op>\.\.=|=>|::|&&|\|\||<=|>=|==|!=|<<|>>|[-+*/%<>=!&|(){}\[\],;:@.#?])
''', re.X)


def tokenize(s):
    toks = []
    i = 0
    while i < len(s):
        m = TOKEN_RE.match(s, i)
        if not m:
            raise TranslateError(f'cannot tokenize at: {s[i:i + 30]!r}')
        i = m.end()
        if m.lastgroup == 'ws':
            continue
        if m.lastgroup == 'num':
            toks.append(('num', int(m.group('num').replace('_', ''), 0)))
        elif m.lastgroup == 'str':
            toks.append(('str', m.group('str')[1:-1]))
        elif m.lastgroup == 'id':
            toks.append(('id', m.group('id')))
        else:
            toks.append(('op', m.group('op')))
    return toks


class P:
    """Recursive-descent parser over the token list."""

    def __init__(self, toks, what):
        self.t = toks
        self.i = 0
        self.what = what

    def peek(self, k=0):
        return self.t[self.i + k] if self.i + k < len(self.t) else ('eof', None)

    def at(self, kind, val=None):
        k, v = self.peek()
        return k == kind and (val is None or v == val)

    def eat(self, kind, val=None):
        if not self.at(kind, val):
            raise TranslateError(f'{self.what}: expected {val or kind}, got {self.peek()} at token {self.i}')
        tok = self.t[self.i]
        self.i += 1
        return tok[1]

    def maybe(self, kind, val=None):
        if self.at(kind, val):
            self.i += 1
            return True
        return False

    # paths: a::b::C
    def path(self):
        parts = [self.eat('id')]
        while self.maybe('op', '::'):
            parts.append(self.eat('id'))
        return parts

    # ---- patterns
    def pattern(self):
        alts = [self.pattern1()]
        while self.maybe('op', '|'):
            alts.append(self.pattern1())
        return alts[0] if len(alts) == 1 else ('or', alts)

    def pattern1(self):
        if self.at('num'):
            lo = self.eat('num')
            if self.maybe('op', '..='):
                hi = self.eat('num')
                return ('range', lo, hi)
            return ('lit', lo)
        if self.at('id', '_'):
            self.eat('id')
            return ('wild',)
        if self.at('op', '&'):
            self.eat('op')
            return self.pattern1()
        if self.at('id'):
            # binding `name @ pat`
            if self.peek(1) == ('op', '@'):
                name = self.eat('id')
                self.eat('op', '@')
                sub = self.pattern1()
                return ('bind', name, sub)
            parts = self.path()
            if self.maybe('op', '('):
                args = []
                while not self.at('op', ')'):
                    args.append(self.pattern())
                    self.maybe('op', ',')
                self.eat('op', ')')
                return ('ctor', parts, args)
            return ('ctor', parts, None)
        raise TranslateError(f'{self.what}: bad pattern at {self.peek()}')

    # ---- expressions (very small)
    def expr(self):
        return self.expr_or()

    def expr_or(self):
        l = self.expr_and()
        while self.maybe('op', '||'):
            l = ('bin', '||', l, self.expr_and())
        return l

    def expr_and(self):
        l = self.expr_cmp()
        while self.maybe('op', '&&'):
            l = ('bin', '&&', l, self.expr_cmp())
        return l

    def expr_cmp(self):
        l = self.expr_add()
        for op in ('<=', '>=', '==', '!=', '<', '>'):
            if self.at('op', op):
                self.eat('op')
                return ('bin', op, l, self.expr_add())
        return l

    def expr_add(self):
        l = self.expr_mul()
        while self.at('op', '+') or self.at('op', '-'):
            op = self.eat('op')
            l = ('bin', op, l, self.expr_mul())
        return l

    def expr_mul(self):
        l = self.expr_cast()
        while self.at('op', '*'):
            self.eat('op')
            l = ('bin', '*', l, self.expr_cast())
        return l

    def expr_cast(self):
        e = self.expr_atom()
        while self.at('id', 'as'):
            self.eat('id')
            ty = self.eat('id')
            e = ('cast', ty, e)
        return e

    def expr_atom(self):
        if self.at('num'):
            return ('num', self.eat('num'))
        if self.at('op', '('):
            self.eat('op')
            if self.maybe('op', ')'):
                return ('unit',)
            e = self.expr()
            self.eat('op', ')')
            return e
        if self.at('op', '!'):
            self.eat('op')
            return ('not', self.expr_atom())
        if self.at('op', '*'):
            self.eat('op')
            return self.expr_atom()
        if self.at('id'):
            name = self.peek()[1]
            if name.endswith('!'):
                self.eat('id')
                p = self.i
                self.eat('op', '(')
                depth = 1
                start = self.i
                while depth:
                    k, v = self.peek()
                    if k == 'eof':
                        raise TranslateError(f'{self.what}: unterminated macro')
                    if (k, v) == ('op', '('):
                        depth += 1
                    if (k, v) == ('op', ')'):
                        depth -= 1
                    self.i += 1
                inner = self.t[start:self.i - 1]
                return ('macro', name[:-1], inner)
            parts = self.path()
            e = ('path', parts)
            while True:
                if self.at('op', '('):
                    self.eat('op')
                    args = []
                    while not self.at('op', ')'):
                        args.append(self.expr())
                        self.maybe('op', ',')
                    self.eat('op', ')')
                    e = ('call', e, args)
                elif self.at('op', '.'):
                    self.eat('op')
                    fld = self.eat('id')
                    e = ('field', e, fld)
                else:
                    break
            return e
        raise TranslateError(f'{self.what}: bad expression at {self.peek()} (token {self.i})')

    def block_or_expr(self):
        """`{ stmts }` containing a single tail expression or `return e;`, or a bare expression."""
        if self.at('op', '{'):
            self.eat('op')
            e = self.tail_expr()
            self.eat('op', '}')
            return e
        return self.expr()

    def tail_expr(self):
        if self.at('id', 'return'):
            self.eat('id')
            e = self.expr()
            self.maybe('op', ';')
            return ('return', e)
        if self.at('id', 'if'):
            return self.if_chain()
        e = self.expr()
        return e

    def if_chain(self):
        self.eat('id', 'if')
        c = self.expr()
        self.eat('op', '{')
        a = self.tail_expr()
        self.eat('op', '}')
        if self.maybe('id', 'else'):
            if self.at('id', 'if'):
                b = self.if_chain()
            else:
                self.eat('op', '{')
                b = self.tail_expr()
                self.eat('op', '}')
            return ('if', c, a, b)
        return ('if', c, a, None)

    def match_arms(self):
        """`match <expr> { arms }` -> (scrutinee, [(pattern, guard, body)])"""
        self.eat('id', 'match')
        scrut = self.expr()
        self.eat('op', '{')
        arms = []
        while not self.at('op', '}'):
            pat = self.pattern()
            guard = None
            if self.maybe('id', 'if'):
                guard = self.expr()
            self.eat('op', '=>')
            body = self.block_or_expr()
            self.maybe('op', ',')
            arms.append((pat, guard, body))
        self.eat('op', '}')
        return scrut, arms


# ---------------------------------------------------------------- enum tables

def parse_enum(src, name):
    body = find_block(src, r'\benum\s+' + name + r'\s*\{', f'enum {name}')
    body = re.sub(r'#\[[^\]]*\]', '', body)
    variants = []
    for part in split_top(body, ','):
        part = part.strip()
        if not part:
            continue
        m = re.fullmatch(r'([A-Za-z_][A-Za-z0-9_]*)\s*(?:\(\s*([A-Za-z0-9_]+)\s*\))?', part)
        if not m:
            raise TranslateError(f'enum {name}: unsupported variant {part!r}')
        variants.append((m.group(1), m.group(2)))
    return variants


def split_top(s, sep):
    parts = []
    depth = 0
    cur = []
    for c in s:
        if c in '({[':
            depth += 1
        elif c in ')}]':
            depth -= 1
        if c == sep and depth == 0:
            parts.append(''.join(cur))
            cur = []
        else:
            cur.append(c)
    parts.append(''.join(cur))
    return parts


LEAN_KEYWORDS = {'continue', 'end', 'open', 'from', 'at', 'in', 'do', 'then', 'else', 'if', 'match', 'with',
                 'fun', 'let', 'have', 'show', 'by', 'error'}


def lean_variant(name):
    n = name[0].lower() + name[1:]
    if n in ('continue',):
        return '«' + n + '»'
    return n


class Enums:
    """variant name -> (lean type name, lean ctor, has_payload); paths resolved by last segment,
    disambiguated by the second-to-last when present."""

    def __init__(self):
        self.types = {}   # rust enum name -> (lean name, [(variant, payload)])

    def add(self, rust, lean, variants):
        self.types[rust] = (lean, variants)

    def resolve(self, parts, expected=None):
        """parts: path segments (e.g. ['self','Data','Reserved'] or ['Continue'])."""
        parts = [p for p in parts if p not in ('self', 'Self', 'super', 'crate')]
        var = parts[-1]
        cands = []
        for rust, (lean, variants) in self.types.items():
            for (v, payload) in variants:
                if v == var:
                    cands.append((rust, lean, v, payload))
        if len(parts) >= 2:
            c2 = [c for c in cands if c[0] == parts[-2]]
            if c2:
                cands = c2
        if expected is not None:
            c2 = [c for c in cands if c[0] == expected]
            if c2:
                cands = c2
        if len(cands) != 1:
            raise TranslateError(f'cannot resolve enum path {"::".join(parts)} (expected {expected}): {cands}')
        return cands[0]


def emit_inductive(lean, variants, payload_names):
    lines = [f'inductive {lean} where']
    for (v, payload) in variants:
        if payload:
            pn = payload_names.get((lean, v), 'x')
            pty = payload_names.get(('type', payload), 'Nat')
            lines.append(f'  | {lean_variant(v)} ({pn} : {pty})')
        else:
            lines.append(f'  | {lean_variant(v)}')
    lines.append('  deriving DecidableEq, Repr, Inhabited')
    return '\n'.join(lines)


# ---------------------------------------------------------------- Coding.lean

def gen_coding(repo):
    src = strip_comments(open(os.path.join(repo, 'src/protocol/frame/coding.rs')).read())
    en = Enums()
    data = parse_enum(src, 'Data')
    ctl = parse_enum(src, 'Control')
    opc = parse_enum(src, 'OpCode')
    cc = parse_enum(src, 'CloseCode')
    en.add('Data', 'OpData', data)
    en.add('Control', 'OpCtl', ctl)
    en.add('OpCode', 'OpCode', opc)
    en.add('CloseCode', 'CloseCode', cc)
    out = ['/- GENERATED by translator/rs2lean.py from src/protocol/frame/coding.rs — do not edit. -/',
           'namespace WsModel.Gen', '']
    pn = {('OpData', 'Reserved'): 'i', ('OpCtl', 'Reserved'): 'i',
          ('OpCode', 'Data'): 'd', ('OpCode', 'Control'): 'c',
          ('type', 'Data'): 'OpData', ('type', 'Control'): 'OpCtl'}
    for v, p in cc:
        if p:
            pn[('CloseCode', v)] = 'c'
    out += [emit_inductive('OpData', data, pn), '', emit_inductive('OpCtl', ctl, pn), '',
            emit_inductive('OpCode', opc, pn), '']

    def ctor_pat(pat, expected):
        """pattern over an enum value -> lean pattern string, and bound names"""
        k = pat[0]
        if k == 'wild':
            return '_'
        if k == 'ctor':
            rust, lean, v, payload = en.resolve(pat[1], expected)
            if pat[2] is None:
                if payload:
                    # a bare identifier in pattern position that is not a variant = binding; not used here
                    raise TranslateError(f'pattern {pat[1]} needs an argument')
                return f'.{lean_variant(v)}'
            if len(pat[2]) != 1:
                raise TranslateError('only single-field variants supported')
            sub = pat[2][0]
            if sub[0] == 'wild':
                return f'.{lean_variant(v)} _'
            if sub[0] == 'ctor' and sub[2] is None and len(sub[1]) == 1 and not is_variant(sub[1][0]):
                return f'.{lean_variant(v)} {sub[1][0]}'
            inner = ctor_pat(sub, payload)
            if ' ' in inner:
                inner = '(' + inner + ')'
            return f'.{lean_variant(v)} {inner}'
        raise TranslateError(f'unsupported enum pattern {pat}')

    def is_variant(name):
        for rust, (lean, variants) in en.types.items():
            if any(v == name for v, _ in variants):
                return True
        return False

    def ctor_expr(e, expected):
        if e[0] == 'path':
            rust, lean, v, payload = en.resolve(e[1], expected)
            return f'.{lean_variant(v)}'
        if e[0] == 'call' and e[1][0] == 'path':
            rust, lean, v, payload = en.resolve(e[1][1], expected)
            a = e[2][0]
            if a[0] == 'path' and len(a[1]) == 1 and not is_variant(a[1][0]):
                inner = a[1][0]
            else:
                inner = ctor_expr(a, payload)
            if ' ' in inner:
                inner = '(' + inner + ')'
            return f'.{lean_variant(v)} {inner}'
        raise TranslateError(f'unsupported constructor expression {e}')

    def num_expr(e):
        if e[0] == 'num':
            return str(e[1])
        if e[0] == 'path' and len(e[1]) == 1:
            return e[1][0]
        raise TranslateError(f'unsupported numeric expression {e}')

    # --- From<OpCode> for u8
    impl = find_block(src, r'impl\s+From<OpCode>\s+for\s+u8\s*\{', 'impl From<OpCode> for u8')
    params, body = find_fn(src, 'from', 'From<OpCode> for u8::from', within=impl)
    body = re.sub(r'use\s+self::\{.*?\};', '', body, flags=re.S)
    scrut, arms = P(tokenize(body), 'From<OpCode> for u8').match_arms()
    out.append('/-- `impl From<OpCode> for u8` -/')
    out.append('def opCodeToU8 (code : OpCode) : Nat :=')
    out.append('  match code with')
    for pat, guard, b in arms:
        if guard:
            raise TranslateError('guards unsupported in From<OpCode> for u8')
        out.append(f'  | {ctor_pat(pat, "OpCode")} => {num_expr(b)}')
    out.append('')

    # --- From<u8> for OpCode
    impl = find_block(src, r'impl\s+From<u8>\s+for\s+OpCode\s*\{', 'impl From<u8> for OpCode')
    params, body = find_fn(src, 'from', 'From<u8> for OpCode::from', within=impl)
    body = re.sub(r'use\s+self::\{.*?\};', '', body, flags=re.S)
    scrut, arms = P(tokenize(body), 'From<u8> for OpCode').match_arms()
    var = num_expr(scrut)
    out.append('/-- `impl From<u8> for OpCode`; `none` is the `panic!` arm. -/')
    out.append(f'def opCodeOfU8 ({var} : Nat) : Option OpCode :=')
    out += int_match_chain(arms, var, lambda b: ('none' if b[0] == 'macro' and b[1] == 'panic'
                                                 else 'some (' + ctor_expr(b, 'OpCode') + ')'), 'none')
    out.append('')

    out += [emit_inductive('CloseCode', cc, pn), '']

    # --- is_allowed
    impl = find_block(src, r'impl\s+CloseCode\s*\{', 'impl CloseCode')
    params, body = find_fn(src, 'is_allowed', 'CloseCode::is_allowed', within=impl)
    p = P(tokenize(body), 'CloseCode::is_allowed')
    neg = p.maybe('op', '!')
    e = p.expr()
    if e[0] != 'macro' or e[1] != 'matches':
        raise TranslateError('CloseCode::is_allowed: expected matches!')
    q = P(e[2], 'is_allowed matches!')
    q.eat('id', 'self')
    q.eat('op', ',')
    pat = q.pattern()
    alts = pat[1] if pat[0] == 'or' else [pat]
    out.append('/-- `CloseCode::is_allowed` -/')
    out.append('def closeCodeIsAllowed (c : CloseCode) : Bool :=')
    out.append('  match c with')
    for a in alts:
        out.append(f'  | {ctor_pat(a, "CloseCode")} => {"false" if neg else "true"}')
    out.append(f'  | _ => {"true" if neg else "false"}')
    out.append('')

    # --- From<CloseCode> for u16
    impl = find_block(src, r'impl\s+From<CloseCode>\s+for\s+u16\s*\{', 'impl From<CloseCode> for u16')
    params, body = find_fn(src, 'from', 'From<CloseCode> for u16::from', within=impl)
    scrut, arms = P(tokenize(body), 'From<CloseCode> for u16').match_arms()
    out.append('/-- `impl From<CloseCode> for u16` -/')
    out.append('def closeCodeToU16 (code : CloseCode) : Nat :=')
    out.append('  match code with')
    for pat, guard, b in arms:
        if guard:
            raise TranslateError('guards unsupported in From<CloseCode> for u16')
        out.append(f'  | {ctor_pat(pat, "CloseCode")} => {num_expr(b)}')
    out.append('')

    # --- From<u16> for CloseCode
    impl = find_block(src, r'impl\s+From<u16>\s+for\s+CloseCode\s*\{', 'impl From<u16> for CloseCode')
    params, body = find_fn(src, 'from', 'From<u16> for CloseCode::from', within=impl)
    scrut, arms = P(tokenize(body), 'From<u16> for CloseCode').match_arms()
    var = num_expr(scrut)
    out.append('/-- `impl From<u16> for CloseCode` -/')
    out.append(f'def closeCodeOfU16 ({var} : Nat) : CloseCode :=')
    out += int_match_chain(arms, var, lambda b: ctor_expr(b, 'CloseCode'), None)
    out.append('')
    out.append('end WsModel.Gen')
    return '\n'.join(out) + '\n'


def int_pat_cond(pat, var):
    k = pat[0]
    if k == 'lit':
        return f'{var} = {pat[1]}'
    if k == 'range':
        return f'{pat[1]} ≤ {var} ∧ {var} ≤ {pat[2]}'
    if k == 'bind':
        if pat[1] != var:
            # the binding renames the scrutinee; the body then uses that name: keep it simple
            raise TranslateError(f'binding {pat[1]} differs from scrutinee {var}')
        return int_pat_cond(pat[2], var)
    if k == 'or':
        return ' ∨ '.join('(' + int_pat_cond(a, var) + ')' for a in pat[1])
    if k == 'wild':
        return None
    raise TranslateError(f'unsupported integer pattern {pat}')


def int_match_chain(arms, var, emit_body, no_default):
    """integer `match` with literals/ranges -> if-chain in source order (first match wins)."""
    lines = []
    first = True
    closed = False
    for pat, guard, b in arms:
        if guard:
            raise TranslateError('guards unsupported in integer match')
        # `i @ 3..=7` binds a new name equal to the scrutinee: rename in body by substitution
        if pat[0] == 'bind' and pat[1] != var:
            b = rename(b, pat[1], var)
            pat = ('bind', var, pat[2])
        cond = int_pat_cond(pat, var)
        body = emit_body(b)
        if cond is None:
            lines.append(f'  {"" if first else "else "}{body}')
            closed = True
            break
        lines.append(f'  {"if" if first else "else if"} {cond} then {body}')
        first = False
    if not closed:
        if no_default is None:
            raise TranslateError('integer match without a wildcard arm')
        lines.append(f'  else {no_default}')
    return lines


def rename(e, old, new):
    if isinstance(e, tuple):
        if e[0] == 'path' and e[1] == [old]:
            return ('path', [new])
        return tuple(rename(x, old, new) for x in e)
    if isinstance(e, list):
        return [rename(x, old, new) for x in e]
    return e


# ---------------------------------------------------------------- LengthFormat.lean

def gen_lengthformat(repo):
    src = strip_comments(open(os.path.join(repo, 'src/protocol/frame/frame.rs')).read())
    variants = parse_enum(src, 'LengthFormat')
    if variants != [('U8', 'u8'), ('U16', None), ('U64', None)]:
        raise TranslateError(f'enum LengthFormat changed shape: {variants}')
    impl = find_block(src, r'impl\s+LengthFormat\s*\{', 'impl LengthFormat')
    out = ['/- GENERATED by translator/rs2lean.py from src/protocol/frame/frame.rs — do not edit. -/',
           'namespace WsModel.Gen', '',
           'inductive LengthFormat where', '  | u8 (b : Nat)', '  | u16', '  | u64',
           '  deriving DecidableEq, Repr, Inhabited', '']

    def lf_expr(e):
        if e[0] == 'path' and e[1][-1] in ('U16', 'U64'):
            return '.' + e[1][-1].lower()
        if e[0] == 'call' and e[1][0] == 'path' and e[1][1][-1] == 'U8':
            return '.u8 ' + paren(nat_expr(e[2][0]))
        raise TranslateError(f'LengthFormat expression {e}')

    def paren(s):
        return '(' + s + ')' if ' ' in s else s

    def nat_expr(e):
        if e[0] == 'num':
            return str(e[1])
        if e[0] == 'path' and len(e[1]) == 1:
            return e[1][0]
        if e[0] == 'cast':
            # only `length as u8` under a guard that makes it lossless is accepted
            return nat_expr(e[2])
        if e[0] == 'bin' and e[1] in ('+', '*'):
            return f'{paren(nat_expr(e[2]))} {e[1]} {paren(nat_expr(e[3]))}'
        raise TranslateError(f'numeric expression {e}')

    def cond_expr(e):
        if e[0] == 'bin' and e[1] in ('<', '>', '<=', '>='):
            op = {'<': '<', '>': '>', '<=': '≤', '>=': '≥'}[e[1]]
            return f'{nat_expr(e[2])} {op} {nat_expr(e[3])}'
        if e[0] == 'bin' and e[1] == '&&':
            return f'{cond_expr(e[2])} ∧ {cond_expr(e[3])}'
        raise TranslateError(f'condition {e}')

    def if_to_lean(e, emit, indent='  '):
        lines = []
        first = True
        while e[0] == 'if':
            lines.append(f'{indent}{"if" if first else "else if"} {cond_expr(e[1])} then {emit(e[2])}')
            first = False
            if e[3] is None:
                raise TranslateError('if without else')
            e = e[3]
        lines.append(f'{indent}else {emit(e)}')
        return lines

    # for_length
    params, body = find_fn(src, 'for_length', 'LengthFormat::for_length', within=impl)
    e = P(tokenize(body), 'LengthFormat::for_length').tail_expr()
    # `length as u8` is only lossless below 256: the guard of that branch must imply it
    if not (e[0] == 'if' and e[1][0] == 'bin' and e[1][1] == '<' and e[1][3][0] == 'num' and e[1][3][1] <= 256):
        raise TranslateError('LengthFormat::for_length: first branch must be `length < N` with N ≤ 256')
    out.append('/-- `LengthFormat::for_length` -/')
    out.append('def lfForLength (length : Nat) : LengthFormat :=')
    out += if_to_lean(e, lf_expr)
    out.append('')

    def enum_match(fn, lean, doc):
        params, body = find_fn(src, fn, f'LengthFormat::{fn}', within=impl)
        scrut, arms = P(tokenize(body), f'LengthFormat::{fn}').match_arms()
        out.append(f'/-- `LengthFormat::{fn}` -/')
        out.append(f'def {lean} (f : LengthFormat) : Nat :=')
        out.append('  match f with')
        for pat, guard, b in arms:
            if pat[0] != 'ctor':
                raise TranslateError(f'{fn}: pattern {pat}')
            v = pat[1][-1]
            if v == 'U8':
                sub = pat[2][0]
                name = '_' if sub[0] == 'wild' else sub[1][0]
                out.append(f'  | .u8 {name} => {nat_expr(b)}')
            else:
                out.append(f'  | .{v.lower()} => {nat_expr(b)}')
        out.append('')

    enum_match('extra_bytes', 'lfExtraBytes', '')
    enum_match('length_byte', 'lfLengthByte', '')

    # for_byte: match byte & 0x7F { 126 => U16, 127 => U64, b => U8(b) }
    params, body = find_fn(src, 'for_byte', 'LengthFormat::for_byte', within=impl)
    m = re.fullmatch(r'\s*match\s+byte\s*&\s*0x7F\s*\{(.*)\}\s*', body, flags=re.S)
    if not m:
        raise TranslateError('LengthFormat::for_byte: expected `match byte & 0x7F { .. }`')
    q = P(tokenize('match x {' + m.group(1) + '}'), 'LengthFormat::for_byte')
    scrut, arms = q.match_arms()
    out.append('/-- `LengthFormat::for_byte` (argument already masked with 0x7F by the generated caller) -/')
    out.append('def lfForByte (byte : Nat) : LengthFormat :=')
    first = True
    for pat, guard, b in arms:
        if pat[0] == 'lit':
            out.append(f'  {"if" if first else "else if"} byte % 128 = {pat[1]} then {lf_expr(b)}')
            first = False
        elif pat[0] == 'ctor' and pat[2] is None and len(pat[1]) == 1:
            bname = pat[1][0]
            out.append(f'  else {lf_expr(rename(b, bname, "byte % 128"))}')
            break
        else:
            raise TranslateError(f'for_byte: pattern {pat}')
    out.append('')

    # FrameHeader::len
    implh = find_block(src, r'impl\s+FrameHeader\s*\{', 'impl FrameHeader')
    params, body = find_fn(src, 'len', 'FrameHeader::len', within=implh)
    norm = re.sub(r'\s+', ' ', body.strip())
    want = '2 + LengthFormat::for_length(length).extra_bytes() + if self.mask.is_some() { 4 } else { 0 }'
    if norm != want:
        raise TranslateError(f'FrameHeader::len changed: {norm!r}')
    out.append('/-- `FrameHeader::len`: 2 + extra + mask -/')
    out.append('def headerLen (masked : Bool) (length : Nat) : Nat :=')
    out.append('  2 + lfExtraBytes (lfForLength length) + (if masked then 4 else 0)')
    out.append('')

    # bit constants of format / parse_internal
    params, fbody = find_fn(src, 'format', 'FrameHeader::format', within=implh)
    consts = {}

    def grab(pattern, text, name):
        m = re.search(pattern, text)
        if not m:
            raise TranslateError(f'bit constant {name}: pattern not found')
        return int(m.group(1), 0)
    consts['bitFin'] = grab(r'if\s+self\.is_final\s*\{\s*(0x[0-9a-fA-F]+|\d+)\s*\}\s*else\s*\{\s*0\s*\}', fbody, 'bitFin')
    consts['bitRsv1'] = grab(r'if\s+self\.rsv1\s*\{\s*(0x[0-9a-fA-F]+|\d+)\s*\}\s*else\s*\{\s*0\s*\}', fbody, 'bitRsv1')
    consts['bitRsv2'] = grab(r'if\s+self\.rsv2\s*\{\s*(0x[0-9a-fA-F]+|\d+)\s*\}\s*else\s*\{\s*0\s*\}', fbody, 'bitRsv2')
    consts['bitRsv3'] = grab(r'if\s+self\.rsv3\s*\{\s*(0x[0-9a-fA-F]+|\d+)\s*\}\s*else\s*\{\s*0\s*\}', fbody, 'bitRsv3')
    consts['bitMasked'] = grab(r'if\s+self\.mask\.is_some\(\)\s*\{\s*(0x[0-9a-fA-F]+|\d+)\s*\}\s*else\s*\{\s*0\s*\}', fbody, 'bitMasked')
    implh2 = src[src.find('fn parse_internal'):]
    pbody = implh2[implh2.find('{') + 1: balanced(implh2, implh2.find('{')) - 1]
    p_fin = grab(r'is_final\s*=\s*first\s*&\s*(0x[0-9a-fA-F]+|\d+)\s*!=\s*0', pbody, 'parse fin')
    p_r1 = grab(r'rsv1\s*=\s*first\s*&\s*(0x[0-9a-fA-F]+|\d+)\s*!=\s*0', pbody, 'parse rsv1')
    p_r2 = grab(r'rsv2\s*=\s*first\s*&\s*(0x[0-9a-fA-F]+|\d+)\s*!=\s*0', pbody, 'parse rsv2')
    p_r3 = grab(r'rsv3\s*=\s*first\s*&\s*(0x[0-9a-fA-F]+|\d+)\s*!=\s*0', pbody, 'parse rsv3')
    p_op = grab(r'OpCode::from\(\s*first\s*&\s*(0x[0-9a-fA-F]+|\d+)\s*\)', pbody, 'parse opcode mask')
    p_m = grab(r'masked\s*=\s*second\s*&\s*(0x[0-9a-fA-F]+|\d+)\s*!=\s*0', pbody, 'parse masked')
    p_len = grab(r'length_byte\s*=\s*second\s*&\s*(0x[0-9a-fA-F]+|\d+)\s*;', pbody, 'parse length mask')
    out.append('/-- bit constants of `FrameHeader::format` / `parse_internal` -/')
    # the parser's constants are emitted separately so that a one-sided edit breaks the round trip
    out.append(f'def bitFin : Nat := {consts["bitFin"]}')
    out.append(f'def bitRsv1 : Nat := {consts["bitRsv1"]}')
    out.append(f'def bitRsv2 : Nat := {consts["bitRsv2"]}')
    out.append(f'def bitRsv3 : Nat := {consts["bitRsv3"]}')
    out.append(f'def bitMasked : Nat := {consts["bitMasked"]}')
    out.append(f'def parseBitFin : Nat := {p_fin}')
    out.append(f'def parseBitRsv1 : Nat := {p_r1}')
    out.append(f'def parseBitRsv2 : Nat := {p_r2}')
    out.append(f'def parseBitRsv3 : Nat := {p_r3}')
    out.append(f'def parseBitMasked : Nat := {p_m}')
    out.append(f'def opcodeMask : Nat := {p_op}')
    out.append(f'def lenMask : Nat := {p_len}')
    out.append('')
    out.append('end WsModel.Gen')
    return '\n'.join(out) + '\n'


# ---------------------------------------------------------------- State.lean

def gen_state(repo):
    src = strip_comments(open(os.path.join(repo, 'src/protocol/mod.rs')).read())
    variants = parse_enum(src, 'WebSocketState')
    names = [v for v, p in variants]
    if any(p for v, p in variants):
        raise TranslateError('WebSocketState: payload variants unsupported')
    out = ['/- GENERATED by translator/rs2lean.py from src/protocol/mod.rs — do not edit. -/',
           'namespace WsModel.Gen', '', 'inductive WsState where']
    for v in names:
        out.append(f'  | {lean_variant(v)}')
    out.append('  deriving DecidableEq, Repr, Inhabited')
    out.append('')
    impl = find_block(src, r'impl\s+WebSocketState\s*\{', 'impl WebSocketState')

    def matches_fn(fn, lean, doc):
        params, body = find_fn(src, fn, f'WebSocketState::{fn}', within=impl)
        p = P(tokenize(body), f'WebSocketState::{fn}')
        neg = p.maybe('op', '!')
        e = p.expr()
        if e[0] != 'macro' or e[1] != 'matches':
            raise TranslateError(f'WebSocketState::{fn}: expected matches!')
        q = P(e[2], fn)
        q.eat('id', 'self')
        q.eat('op', ',')
        pat = q.pattern()
        alts = pat[1] if pat[0] == 'or' else [pat]
        out.append(f'/-- `WebSocketState::{fn}` -/')
        out.append(f'def WsState.{lean} (s : WsState) : Bool :=')
        out.append('  match s with')
        for a in alts:
            if a[0] != 'ctor' or a[2] is not None or a[1][-1] not in names:
                raise TranslateError(f'{fn}: pattern {a}')
            out.append(f'  | .{lean_variant(a[1][-1])} => {"false" if neg else "true"}')
        out.append(f'  | _ => {"true" if neg else "false"}')
        out.append('')

    matches_fn('is_active', 'isActive', '')
    matches_fn('can_read', 'canRead', '')

    # check_not_terminated: match self { Terminated => Err(AlreadyClosed), _ => Ok(()) }
    params, body = find_fn(src, 'check_not_terminated', 'WebSocketState::check_not_terminated', within=impl)
    scrut, arms = P(tokenize(body), 'check_not_terminated').match_arms()
    out.append('/-- `WebSocketState::check_not_terminated`: `true` = Ok, `false` = Err(AlreadyClosed) -/')
    out.append('def WsState.notTerminated (s : WsState) : Bool :=')
    out.append('  match s with')
    for pat, guard, b in arms:
        if b[0] == 'call' and b[1] == ('path', ['Err']):
            inner = b[2][0]
            if not (inner[0] == 'path' and inner[1][-1] == 'AlreadyClosed'):
                raise TranslateError('check_not_terminated: error is not AlreadyClosed')
            val = 'false'
        elif b[0] == 'call' and b[1] == ('path', ['Ok']):
            val = 'true'
        else:
            raise TranslateError(f'check_not_terminated: body {b}')
        if pat[0] == 'wild':
            out.append(f'  | _ => {val}')
        else:
            out.append(f'  | .{lean_variant(pat[1][-1])} => {val}')
    out.append('')

    # check_max_size
    params, body = find_fn(src, 'check_max_size', 'check_max_size')
    norm = re.sub(r'\s+', ' ', body.strip())
    want = ('if let Some(max_size) = max_size { if size > max_size { return Err(Error::Capacity('
            'CapacityError::MessageTooLong { size, max_size })); } } Ok(())')
    if norm != want:
        raise TranslateError(f'check_max_size changed: {norm!r}')
    out += ['/-- `check_max_size`: `true` = Ok -/',
            'def checkMaxSize (size : Nat) (maxSize : Option Nat) : Bool :=',
            '  match maxSize with', '  | some m => !(size > m)', '  | none => true', '']

    # assert_valid
    params, body = find_fn(src, 'assert_valid', 'WebSocketConfig::assert_valid')
    m = re.search(r'assert!\(\s*self\.(\w+)\s*(>|>=|<|<=)\s*self\.(\w+)\s*,', body)
    if not m:
        raise TranslateError('assert_valid: condition not recognised')
    names_map = {'max_write_buffer_size': 'maxWriteBufferSize', 'write_buffer_size': 'writeBufferSize'}
    op = {'>': '>', '>=': '≥', '<': '<', '<=': '≤'}[m.group(2)]
    out += ['/-- `WebSocketConfig::assert_valid`: `true` = does not panic -/',
            'def configValid (maxWriteBufferSize writeBufferSize : Nat) : Bool :=',
            f'  {names_map[m.group(1)]} {op} {names_map[m.group(3)]}', '']

    # Default config
    impl_d = find_block(src, r'impl\s+Default\s+for\s+WebSocketConfig\s*\{', 'Default for WebSocketConfig')

    def field(name):
        m = re.search(name + r'\s*:\s*([^,\n]+),', impl_d)
        if not m:
            raise TranslateError(f'default config field {name}')
        return m.group(1).strip()

    def arith(s):
        s = s.strip()
        m = re.fullmatch(r'Some\((.*)\)', s)
        if m:
            return 'some ' + str(arith_val(m.group(1)))
        if s == 'None':
            return 'none'
        return str(arith_val(s))

    def arith_val(s):
        if not re.fullmatch(r'[0-9x_a-fA-F\s*<+()]+', s):
            raise TranslateError(f'default config expression {s!r}')
        return eval(s.replace('_', ''), {'__builtins__': {}})
    out += ['/-- `WebSocketConfig::default` -/',
            f'def defaultReadBufferSize : Nat := {arith(field("read_buffer_size"))}',
            f'def defaultWriteBufferSize : Nat := {arith(field("write_buffer_size"))}',
            f'def defaultMaxMessageSize : Option Nat := {arith(field("max_message_size"))}',
            f'def defaultMaxFrameSize : Option Nat := {arith(field("max_frame_size"))}',
            f'def defaultAcceptUnmasked : Bool := {field("accept_unmasked_frames")}', '']
    if field('max_write_buffer_size') != 'usize::MAX':
        raise TranslateError('default max_write_buffer_size is no longer usize::MAX')

    # "Protocol violation" literal of do_close
    params, body = find_fn(src, 'do_close', 'WebSocketContext::do_close')
    m = re.search(r'Utf8Bytes::from_static\(\s*"([^"\\]*)"\s*\)', body)
    if not m:
        raise TranslateError('do_close: reason literal not found')
    m2 = re.search(r'code:\s*CloseCode::(\w+)\s*,', body)
    if not m2 or m2.group(1) != 'Protocol':
        raise TranslateError('do_close: substitute close code is not CloseCode::Protocol')
    bs = ', '.join(str(b) for b in m.group(1).encode())
    out += [f'/-- reason of the substitute close frame in `do_close` ("{m.group(1)}") -/',
            'def protocolViolationReason : List UInt8 :=', f'  [{bs}]', '']
    out.append('end WsModel.Gen')
    return '\n'.join(out) + '\n'


# ---------------------------------------------------------------- Attack.lean

def gen_attack(repo):
    src = strip_comments(open(os.path.join(repo, 'src/handshake/machine.rs')).read())
    lib = strip_comments(open(os.path.join(repo, 'src/lib.rs')).read())
    hdr = strip_comments(open(os.path.join(repo, 'src/handshake/headers.rs')).read())
    params, body = find_fn(src, 'check_incoming_packet_size', 'AttackCheck::check_incoming_packet_size')

    def const(text, name):
        m = re.search(r'const\s+' + name + r'\s*:\s*usize\s*=\s*([0-9_x a-fA-F*<]+);', text)
        if not m:
            raise TranslateError(f'const {name} not found')
        return eval(m.group(1).replace('_', ''), {'__builtins__': {}})
    c = {n: const(body, n) for n in ('MAX_BYTES', 'MAX_PACKETS', 'MIN_PACKET_SIZE', 'MIN_PACKET_CHECK_THRESHOLD')}
    chunk = const(lib, 'READ_BUFFER_CHUNK_SIZE')
    maxh = const(hdr, 'MAX_HEADERS')
    # the two counter updates must come first
    norm = re.sub(r'\s+', ' ', body)
    if 'self.number_of_packets += 1; self.number_of_bytes += size;' not in norm:
        raise TranslateError('check_incoming_packet_size: counter updates changed')
    # strip consts and updates, parse the if statements
    rest = re.sub(r'const\s+\w+\s*:\s*usize\s*=\s*[^;]+;', '', body)
    rest = rest.replace('self.number_of_packets += 1;', '').replace('self.number_of_bytes += size;', '')
    rest = rest.replace('self.number_of_packets', 'packets').replace('self.number_of_bytes', 'bytes')
    toks = tokenize(rest)
    p = P(toks, 'check_incoming_packet_size')
    conds = []
    while p.at('id', 'if'):
        e = p.if_chain()
        if e[3] is not None or e[2][0] != 'return':
            raise TranslateError('check_incoming_packet_size: expected `if c { return Err(..); }`')
        r = e[2][1]
        if not (r[0] == 'call' and r[1] == ('path', ['Err']) and r[2][0] == ('path', ['Error', 'AttackAttempt'])):
            raise TranslateError('check_incoming_packet_size: error is not AttackAttempt')
        conds.append(e[1])
    tail = p.expr()
    if not (tail[0] == 'call' and tail[1] == ('path', ['Ok'])):
        raise TranslateError('check_incoming_packet_size: does not end with Ok(())')
    cn = {'MAX_BYTES': 'attackMaxBytes', 'MAX_PACKETS': 'attackMaxPackets',
          'MIN_PACKET_SIZE': 'attackMinPacketSize', 'MIN_PACKET_CHECK_THRESHOLD': 'attackMinPacketCheckThreshold'}

    def ne(e):
        if e[0] == 'num':
            return str(e[1])
        if e[0] == 'path' and len(e[1]) == 1:
            return cn.get(e[1][0], e[1][0])
        if e[0] == 'bin' and e[1] in ('*', '+'):
            return f'{ne(e[2])} {e[1]} {ne(e[3])}'
        raise TranslateError(f'attack check expression {e}')

    def ce(e):
        if e[0] == 'bin' and e[1] in ('<', '>', '<=', '>='):
            return f'{ne(e[2])} {{"<": "<", ">": ">", "<=": "≤", ">=": "≥"}}'.replace(
                '{"<": "<", ">": ">", "<=": "≤", ">=": "≥"}', {'<': '<', '>': '>', '<=': '≤', '>=': '≥'}[e[1]]) + f' {ne(e[3])}'
        if e[0] == 'bin' and e[1] == '&&':
            return f'{ce(e[2])} ∧ {ce(e[3])}'
        raise TranslateError(f'attack check condition {e}')
    out = ['/- GENERATED by translator/rs2lean.py from src/handshake/machine.rs, src/lib.rs, src/handshake/headers.rs — do not edit. -/',
           'namespace WsModel.Gen', '',
           f'def attackMaxBytes : Nat := {c["MAX_BYTES"]}',
           f'def attackMaxPackets : Nat := {c["MAX_PACKETS"]}',
           f'def attackMinPacketSize : Nat := {c["MIN_PACKET_SIZE"]}',
           f'def attackMinPacketCheckThreshold : Nat := {c["MIN_PACKET_CHECK_THRESHOLD"]}',
           f'def readBufferChunkSize : Nat := {chunk}',
           f'def maxHeaders : Nat := {maxh}', '',
           '/-- `AttackCheck::check_incoming_packet_size` on the already updated counters: `true` = Ok -/',
           'def attackCheckOk (packets bytes : Nat) : Bool :=']
    for i, cnd in enumerate(conds):
        out.append(f'  {"if" if i == 0 else "else if"} {ce(cnd)} then false')
    out.append('  else true')
    out.append('')
    out.append('end WsModel.Gen')
    return '\n'.join(out) + '\n'



# ---------------------------------------------------------------- Handshake.lean

def byte_list(b):
    return '[' + ', '.join(str(x) for x in b) + ']'


def gen_handshake(repo):
    mod = strip_comments(open(os.path.join(repo, 'src/handshake/mod.rs')).read())
    srv = strip_comments(open(os.path.join(repo, 'src/handshake/server.rs')).read())
    cli = strip_comments(open(os.path.join(repo, 'src/handshake/client.rs')).read())
    ccl = strip_comments(open(os.path.join(repo, 'src/client.rs')).read())

    def need(m, what):
        if not m:
            raise TranslateError(f'handshake literal not found: {what}')
        return m

    # WS_GUID and the shape of derive_accept_key
    params, body = find_fn(mod, 'derive_accept_key', 'derive_accept_key')
    guid = need(re.search(r'const\s+WS_GUID\s*:\s*&\[u8\]\s*=\s*b"([^"]*)"\s*;', body), 'WS_GUID').group(1)
    norm = re.sub(r'\s+', ' ', body)
    if ('sha1.update(request_key); sha1.update(WS_GUID); data_encoding::BASE64.encode(&sha1.finalize())'
            not in norm):
        raise TranslateError('derive_accept_key changed shape (expected sha1(key ++ GUID) then BASE64)')

    # create_parts: the sequence of checks and their literals
    params, body = find_fn(srv, 'create_parts', 'create_parts')
    errs = re.findall(r'ProtocolError::(\w+)', body)
    want = ['WrongHttpMethod', 'WrongHttpVersion', 'MissingConnectionUpgradeHeader',
            'MissingUpgradeWebSocketHeader', 'MissingSecWebSocketVersionHeader', 'MissingSecWebSocketKey']
    if errs != want:
        raise TranslateError(f'create_parts: order of checks changed: {errs}')
    if not re.search(r'request\.method\(\)\s*!=\s*http::Method::GET', body):
        raise TranslateError('create_parts: method check changed')
    if not re.search(r'request\.version\(\)\s*<\s*http::Version::HTTP_11', body):
        raise TranslateError('create_parts: version check changed')
    m = need(re.search(r'if\s*!\s*request\s*\.headers\(\)\s*\.get\("([^"]*)"\)\s*\.and_then\(\|h\|\s*h\.to_str\(\)\.ok\(\)\)\s*'
                       r'\.map\(\|h\|\s*h\.split\(\[([^\]]*)\]\)\.any\(\|p\|\s*p\.eq_ignore_ascii_case\("([^"]*)"\)\)\)\s*'
                       r'\.unwrap_or\(false\)', body), 'create_parts Connection check')
    conn_name, conn_split, conn_tok = m.group(1), m.group(2), m.group(3)
    split_chars = [ord(c[1]) for c in re.findall(r"'(?:\\.|[^'])'", conn_split) for c in [c]]
    split_chars = [ord(x[1:-1]) for x in re.findall(r"'[^'\\]'", conn_split)]
    m = need(re.search(r'if\s*!\s*request\s*\.headers\(\)\s*\.get\("([^"]*)"\)\s*\.and_then\(\|h\|\s*h\.to_str\(\)\.ok\(\)\)\s*'
                       r'\.map\(\|h\|\s*h\.eq_ignore_ascii_case\("([^"]*)"\)\)\s*\.unwrap_or\(false\)', body),
             'create_parts Upgrade check')
    upg_name, upg_val = m.group(1), m.group(2)
    m = need(re.search(r'if\s*!\s*request\.headers\(\)\.get\("([^"]*)"\)\.map\(\|h\|\s*h\s*==\s*"([^"]*)"\)\.unwrap_or\(false\)',
                       body), 'create_parts version header check')
    ver_name, ver_val = m.group(1), m.group(2)
    m = need(re.search(r'\.get\("([^"]*)"\)\s*\.ok_or\(Error::Protocol\(ProtocolError::MissingSecWebSocketKey\)\)', body),
             'create_parts key lookup')
    key_name = m.group(1)
    if not re.search(r'\.status\(StatusCode::SWITCHING_PROTOCOLS\)', body):
        raise TranslateError('create_parts: status is no longer SWITCHING_PROTOCOLS')
    resp = re.findall(r'\.header\("([^"]*)"\s*,\s*("([^"]*)"|derive_accept_key\(key\.as_bytes\(\)\))\)', body)
    if len(resp) != 3 or resp[2][1].startswith('"') or not resp[0][1].startswith('"') or not resp[1][1].startswith('"'):
        raise TranslateError(f'create_parts: response headers changed: {resp}')

    # verify_response
    params, body = find_fn(cli, 'verify_response', 'VerifyData::verify_response')
    errs = re.findall(r'(?:ProtocolError|SubProtocolError)::(\w+)', body)
    want = ['MissingUpgradeWebSocketHeader', 'MissingConnectionUpgradeHeader', 'SecWebSocketAcceptKeyMismatch',
            'SecWebSocketSubProtocolError', 'NoSubProtocol', 'SecWebSocketSubProtocolError',
            'ServerSentSubProtocolNoneRequested', 'SecWebSocketSubProtocolError', 'InvalidSubProtocol']
    if errs != want:
        raise TranslateError(f'verify_response: order of checks changed: {errs}')
    if not re.search(r'response\.status\(\)\s*!=\s*StatusCode::SWITCHING_PROTOCOLS', body):
        raise TranslateError('verify_response: status check changed')
    chk = re.findall(r'\.get\("([^"]*)"\)\s*\.and_then\(\|h\|\s*h\.to_str\(\)\.ok\(\)\)\s*\.map\(\|h\|\s*h\.eq_ignore_ascii_case\("([^"]*)"\)\)\s*\.unwrap_or\(false\)', body)
    if len(chk) != 2:
        raise TranslateError(f'verify_response: Upgrade/Connection checks changed: {chk}')
    m = need(re.search(r'headers\.get\("([^"]*)"\)\.map\(\|h\|\s*h\s*==\s*&self\.accept_key\)\.unwrap_or\(false\)', body),
             'verify_response accept check')
    acc_name = m.group(1)
    protos = set(re.findall(r'headers\.get\("(Sec-WebSocket-Protocol)"\)', body))
    if protos != {'Sec-WebSocket-Protocol'}:
        raise TranslateError('verify_response: subprotocol header name changed')
    norm = re.sub(r'\s+', ' ', body)
    for frag in ['headers.get("Sec-WebSocket-Protocol").is_none() && self.subprotocols.is_some()',
                 'headers.get("Sec-WebSocket-Protocol").is_some() && self.subprotocols.is_none()',
                 '!accepted_subprotocols.contains(&returned_subprotocol.to_str()?.to_string())']:
        if frag not in norm:
            raise TranslateError(f'verify_response: subprotocol logic changed (missing `{frag}`)')

    # generate_request
    params, body = find_fn(cli, 'generate_request', 'generate_request')
    m = need(re.search(r'const\s+KEY_HEADERNAME\s*:\s*&str\s*=\s*"([^"]*)"\s*;', body), 'KEY_HEADERNAME')
    keyhdr = m.group(1)
    m = need(re.search(r'const\s+WEBSOCKET_HEADERS\s*:\s*\[&str;\s*5\]\s*=\s*\[([^\]]*)\]\s*;', body), 'WEBSOCKET_HEADERS')
    names = [x.strip() for x in m.group(1).split(',') if x.strip()]
    names = [keyhdr if x == 'KEY_HEADERNAME' else x.strip('"') for x in names]

    # IntoClientRequest for Uri
    impl = find_block(ccl, r'impl\s+IntoClientRequest\s+for\s+Uri\s*\{', 'impl IntoClientRequest for Uri')
    m = need(re.search(r'authority\s*\.(r?find)\(\'@\'\)\s*\.map\(\|idx\|\s*authority\.split_at\(idx \+ 1\)\.1\)', impl),
             'Host extraction (find/rfind of @)')
    last_at = m.group(1) == 'rfind'
    hdrs = re.findall(r'\.header\("([^"]*)"\s*,\s*("([^"]*)"|host|generate_key\(\))\)', impl)
    if [h[0] for h in hdrs] != ['Host', 'Connection', 'Upgrade', 'Sec-WebSocket-Version', 'Sec-WebSocket-Key']:
        raise TranslateError(f'IntoClientRequest for Uri: headers changed: {hdrs}')
    if hdrs[0][1] != 'host' or hdrs[4][1] != 'generate_key()':
        raise TranslateError('IntoClientRequest for Uri: Host/key sources changed')

    def bl(sv):
        return byte_list(sv.encode())
    out = ['/- GENERATED by translator/rs2lean.py from src/handshake/{mod,server,client}.rs, src/client.rs — do not edit. -/',
           'namespace WsModel.Gen', '',
           '/-- `WS_GUID` of `derive_accept_key` -/',
           'def wsGuidLit : List UInt8 :=', '  ' + bl(guid), '',
           '/-- header names and required values of `create_parts` (server), in the order they are checked -/',
           f'def srvConnectionName : List UInt8 := {bl(conn_name)}',
           f'def srvConnectionToken : List UInt8 := {bl(conn_tok)}',
           f'def srvConnectionSplit : List UInt8 := {byte_list(split_chars)}',
           f'def srvUpgradeName : List UInt8 := {bl(upg_name)}',
           f'def srvUpgradeValue : List UInt8 := {bl(upg_val)}',
           f'def srvVersionName : List UInt8 := {bl(ver_name)}',
           f'def srvVersionValue : List UInt8 := {bl(ver_val)}',
           f'def srvKeyName : List UInt8 := {bl(key_name)}',
           '/-- response headers written by `create_parts`, in order: (name, value) with `none` = the accept key -/',
           f'def srvRespConnection : List UInt8 × List UInt8 := ({bl(resp[0][0])}, {bl(resp[0][2])})',
           f'def srvRespUpgrade : List UInt8 × List UInt8 := ({bl(resp[1][0])}, {bl(resp[1][2])})',
           f'def srvRespAcceptName : List UInt8 := {bl(resp[2][0])}', '',
           '/-- `verify_response` (client) -/',
           f'def cliUpgradeName : List UInt8 := {bl(chk[0][0])}',
           f'def cliUpgradeValue : List UInt8 := {bl(chk[0][1])}',
           f'def cliConnectionName : List UInt8 := {bl(chk[1][0])}',
           f'def cliConnectionValue : List UInt8 := {bl(chk[1][1])}',
           f'def cliAcceptName : List UInt8 := {bl(acc_name)}',
           f'def cliProtocolName : List UInt8 := {bl("Sec-WebSocket-Protocol")}',
           'def cliSwitchingProtocols : Nat := 101', '',
           '/-- `WEBSOCKET_HEADERS` of `generate_request`, in order; the last one is `KEY_HEADERNAME` -/',
           'def reqHeaderNames : List (List UInt8) :=',
           '  [' + ', '.join(bl(n) for n in names) + ']',
           f'def reqKeyName : List UInt8 := {bl(keyhdr)}', '',
           '/-- header values of `impl IntoClientRequest for Uri`, in order (Host and the key are computed) -/',
           f'def uriReqConnection : List UInt8 := {bl(hdrs[1][2])}',
           f'def uriReqUpgrade : List UInt8 := {bl(hdrs[2][2])}',
           f'def uriReqVersion : List UInt8 := {bl(hdrs[3][2])}',
           "/-- the Host is the authority after the LAST '@' (`rfind`): `true`; after the first (`find`): `false` -/",
           f'def uriHostAfterLastAt : Bool := {"true" if last_at else "false"}', '',
           'end WsModel.Gen']
    return '\n'.join(out) + '\n'


GENERATORS = [('Handshake.lean', gen_handshake), ('Coding.lean', gen_coding), ('LengthFormat.lean', gen_lengthformat),
              ('State.lean', gen_state), ('Attack.lean', gen_attack)]


def main():
    repo, outdir = sys.argv[1], sys.argv[2]
    os.makedirs(outdir, exist_ok=True)
    failed = []
    sys.path.insert(0, os.path.dirname(os.path.abspath(__file__)))
    import ctx2lean   # the state machine (statement-level translation); shares this module's helpers
    import codec2lean  # the frame codec, same machinery
    import hs2lean     # the handshake machine
    import coll2lean   # the UTF-8 collector of fragmented text messages
    import frame2lean  # Frame: size, the two encoders, close payloads
    import fsock2lean  # FrameSocket: the public wrapper around the codec
    import inc2lean    # IncompleteMessage: size guard, text/binary dispatch
    import resp2lean   # write_response: serialisation of the server's answer
    import hdr2lean    # FrameHeader: the header decoder and encoder
    import mask2lean   # mask.rs: apply_mask, the fallback and the word-wise fast path
    import readin2lean  # FrameCodec::read_in: resize / read / truncate of the input buffer
    import verify2lean  # VerifyData::verify_response: the client's decision on the response
    import parts2lean   # create_parts: the server's decision on the request and the head of its answer
    import cstage2lean  # ClientHandshake::stage_finished
    gens = GENERATORS + [('Ctx.lean', ctx2lean.gen_ctx), ('CodecGen.lean', codec2lean.gen_codec),
                         ('HsGen.lean', hs2lean.gen_hs), ('CollGen.lean', coll2lean.gen_coll),
                         ('FrameGen.lean', frame2lean.gen_frame),
                         ('FsockGen.lean', fsock2lean.gen_fsock),
                         ('IncGen.lean', inc2lean.gen_inc),
                         ('RespGen.lean', resp2lean.gen_resp),
                         ('HdrGen.lean', hdr2lean.gen_hdr),
                         ('MaskGen.lean', mask2lean.gen_mask),
                         ('ReadInGen.lean', readin2lean.gen_readin),
                         ('VerifyGen.lean', verify2lean.gen_verify),
                         ('PartsGen.lean', parts2lean.gen_parts),
                         ('CStageGen.lean', cstage2lean.gen_cstage)]
    for name, fn in gens:
        try:
            text = fn(repo)
        except (TranslateError, ctx2lean.TranslateError) as e:
            failed.append((name, str(e)))
            print(f'TRANSLATE-ERROR {name}: {e}')
            continue
        path = os.path.join(outdir, name)
        old = open(path).read() if os.path.exists(path) else None
        if old != text:
            with open(path, 'w') as f:
                f.write(text)
            print(f'updated {name}')
        else:
            print(f'unchanged {name}')
    sys.exit(1 if failed else 0)


if __name__ == '__main__':
    main()
