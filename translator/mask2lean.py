"""mask2lean: machine translation of `apply_mask`, `apply_mask_fallback`, `apply_mask_fast32`
(src/protocol/frame/mask.rs) into pure Lean functions over byte lists
(lean/WsModel/MaskM.lean has the leaves: the split `align_to_mut` returns — a parameter, any split
is allowed —, `from_ne_bytes`/`to_ne_bytes` on a little-endian target, the loops over `iter_mut`).
A `&mut [u8]` parameter becomes an argument and the function's value; a call that mutates a local
slice rebinds it.  Uses the parser of rsast; fails closed on every form it does not know."""
import os
import re

from rs2lean import TranslateError, strip_comments
import rsast
from rsast import parse_fn

LEAN_KEYWORDS = {'prefix': 'prefix_', 'suffix': 'suffix_'}
SIG = [('buf', '&mut[u8]', False), ('mask', '[u8;4]', False)]


def ln(n):
    return LEAN_KEYWORDS.get(n, n)


def fail(fn, msg):
    raise TranslateError(f'{fn}: {msg}')


def is_var(e, name=None):
    return e[0] == 'path' and len(e[1]) == 1 and (name is None or e[1][0] == name)


class Em:
    def __init__(self, fn):
        self.fn = fn
        self.vars = {}      # name -> 'bytes' | 'words' | 'u32' | 'nat' | 'u8' | 'mask'

    def e(self, x, deref=None):
        """Lean term of a pure Rust expression; `deref` = the loop variable that `*v` may name"""
        k = x[0]
        if k == 'paren':
            return self.e(x[1], deref)
        if k == 'lit' and x[1] == 'num':
            return str(x[2])
        if k == 'path' and len(x[1]) == 1 and x[1][0] in self.vars:
            return ln(x[1][0])
        if k == 'unary' and x[1] == '*' and is_var(x[2]) and x[2][1][0] == deref:
            return ln(deref)
        if k == 'cast' and x[2].replace(' ', '') in ('u32', 'usize'):
            return self.e(x[1], deref)       # a widening cast of a small number
        if k == 'bin' and x[1] in ('&', '^', '*', '>'):
            op = {'&': '&&&', '^': '^^^', '*': '*', '>': '>'}[x[1]]
            return f'({self.e(x[2], deref)} {op} {self.e(x[3], deref)})'
        if k == 'index' and is_var(x[1]) and self.vars.get(x[1][1][0]) == 'mask':
            return f'{ln(x[1][1][0])}[{self.e(x[2], deref)}]!'
        if k == 'mcall':
            _, recv, m, args = x
            if m == 'len' and not args and is_var(recv) and self.vars.get(recv[1][0]) == 'bytes':
                return f'{ln(recv[1][0])}.length'
            if m in ('rotate_left', 'rotate_right') and len(args) == 1:
                f = {'rotate_left': 'rotateLeft', 'rotate_right': 'rotateRight'}[m]
                return f'({self.e(recv, deref)}).{f} ({self.e(args[0], deref)})'
            if m == 'to_ne_bytes' and not args:
                return f'(u32ToNeBytes {self.e(recv, deref)})'
        if k == 'call' and x[1] == ('path', ['u32', 'from_ne_bytes']) and len(x[2]) == 1:
            return f'(u32FromNeBytes {self.e(x[2][0], deref)})'
        if k == 'macro' and x[1] == 'cfg' and x[3].replace(' ', '') == 'target_endian=big':
            return 'targetEndianBig'
        if k == 'if' and x[3] is not None and x[1][0] != 'let':
            th, el = x[2], x[3]
            if th[0] == 'block' and not th[1] and th[2] is not None and el[0] == 'block' and not el[1] and el[2] is not None:
                return f'(if {self.e(x[1], deref)} then {self.e(th[2], deref)} else {self.e(el[2], deref)})'
        fail(self.fn, f'expression form `{k}` is outside the translated subset: {str(x)[:120]}')

    def for_loop(self, x):
        """`for (i, byte) in s.iter_mut().enumerate() { *byte ^= e }` / `for w in s.iter_mut() { *w ^= e }`"""
        _, pat, it, body = x
        if body[0] != 'block' or len(body[1]) != 1 or body[2] is not None or body[1][0][0] != 'expr':
            fail(self.fn, 'loop body is not a single statement')
        st = body[1][0][1]
        enum = it[0] == 'mcall' and it[2] == 'enumerate' and not it[3]
        src = it[1] if enum else it
        if not (src[0] == 'mcall' and src[2] == 'iter_mut' and not src[3] and is_var(src[1]) and
                self.vars.get(src[1][1][0]) in ('bytes', 'words')):
            fail(self.fn, 'loop is not over `<local slice>.iter_mut()`')
        tgt = src[1][1][0]
        if enum:
            if not (pat[0] == 'ptuple' and len(pat[1]) == 2 and all(q[0] == 'bind' for q in pat[1])):
                fail(self.fn, 'pattern of an enumerate loop')
            iv, ev = pat[1][0][1], pat[1][1][1]
        else:
            if pat[0] != 'bind':
                fail(self.fn, 'pattern of a loop')
            iv, ev = None, pat[1]
        if not (st[0] == 'assign' and st[1] == ('unary', '*', ('path', [ev]))):
            fail(self.fn, 'loop body is not an assignment through the loop variable')
        saved = dict(self.vars)
        self.vars[ev] = 'u8' if self.vars[tgt] == 'bytes' else 'u32'
        if iv:
            self.vars[iv] = 'nat'
        rhs = self.e(st[2], deref=ev)
        self.vars = saved
        if enum:
            return f'let {ln(tgt)} := forEnum {ln(tgt)} (fun {ln(iv)} {ln(ev)} => {rhs})'
        return f'let {ln(tgt)} := forEach {ln(tgt)} (fun {ln(ev)} => {rhs})'


def check_sig(fn, name):
    got = [(p[0], p[1].replace(' ', ''), p[2]) for p in fn['params']]
    if got != SIG or fn['ret'] != '()' or fn['self'] is not None:
        fail(name, 'signature changed')


def translate(src):
    text = strip_comments(src)
    flat = re.sub(r'\s+', ' ', text)
    if 'pub fn apply_mask(buf: &mut [u8], mask: [u8; 4]) { apply_mask_fast32(buf, mask); }' not in flat:
        raise TranslateError('apply_mask: is no longer the call `apply_mask_fast32(buf, mask)`')
    if len(re.findall(r'align_to_mut::<\s*u32\s*>\s*\(\s*\)', text)) != 1:
        raise TranslateError('apply_mask_fast32: `align_to_mut::<u32>()` not found exactly once')
    rsast.ALLOW_UNSAFE = True
    try:
        fb = parse_fn(src, 'apply_mask_fallback', None, what='apply_mask_fallback')
        fast = parse_fn(src, 'apply_mask_fast32', None, what='apply_mask_fast32')
    finally:
        rsast.ALLOW_UNSAFE = False
    check_sig(fb, 'apply_mask_fallback')
    check_sig(fast, 'apply_mask_fast32')
    out = ['/- GENERATED by translator/mask2lean.py from src/protocol/frame/mask.rs — do not edit. -/',
           'import WsModel.MaskM',
           'set_option linter.unusedVariables false',
           'namespace WsModel.GenMask',
           'open WsModel',
           '']
    # ---- apply_mask_fallback
    em = Em('apply_mask_fallback')
    em.vars = {'buf': 'bytes', 'mask': 'mask'}
    body = fb['body']
    if body[1] or body[2] is None or body[2][0] != 'for':
        fail('apply_mask_fallback', 'body is not a single `for` loop')
    out += ['/-- `apply_mask_fallback`: the value is the buffer afterwards -/',
            'def applyMaskFallback (buf : Bytes) (mask : Bytes) : Bytes :=',
            '  ' + em.for_loop(body[2]),
            '  buf', '']
    # ---- apply_mask_fast32
    em = Em('apply_mask_fast32')
    em.vars = {'buf': 'bytes', 'mask': 'mask'}
    lines = []
    split = None
    body = fast['body']
    if body[2] is not None:
        fail('apply_mask_fast32', 'unexpected tail expression')
    for st in body[1]:
        if st[0] == 'let':
            _, p, ty, init = st
            if p[0] == 'ptuple':
                want = ('unsafe', ('block', [], ('mcall', ('path', ['buf']), 'align_to_mut', [])))
                if init != want or split is not None or len(p[1]) != 3 or not all(q[0] == 'bind' for q in p[1]):
                    fail('apply_mask_fast32', 'the destructuring `let` is not `unsafe { buf.align_to_mut::<u32>() }`')
                split = [q[1] for q in p[1]]
                em.vars[split[0]] = 'bytes'
                em.vars[split[1]] = 'words'
                em.vars[split[2]] = 'bytes'
                del em.vars['buf']          # `buf` is mutably borrowed by the three parts from here on
                lines.append(f'let ({", ".join(ln(n) for n in split)}) := alignToMut split buf')
                continue
            if p[0] != 'bind' or init is None:
                fail('apply_mask_fast32', '`let` form')
            t = em.e(init)
            em.vars[p[1]] = 'u32' if p[1].endswith('u32') else 'nat'
            lines.append(f'let {ln(p[1])} := {t}')
            continue
        x = st[1]
        if x[0] == 'for':
            lines.append(em.for_loop(x))
            continue
        if x[0] == 'call' and x[1] == ('path', ['apply_mask_fallback']) and len(x[2]) == 2 and is_var(x[2][0]) \
                and em.vars.get(x[2][0][1][0]) == 'bytes':
            v = ln(x[2][0][1][0])
            lines.append(f'let {v} := applyMaskFallback {v} {em.e(x[2][1])}')
            continue
        fail('apply_mask_fast32', f'statement form `{x[0]}` is outside the translated subset')
    if split is None:
        fail('apply_mask_fast32', '`align_to_mut` is gone')
    out += ['/-- `apply_mask_fast32`; `split` is what `align_to_mut::<u32>()` answered (any split is allowed) -/',
            'def applyMaskFast32 (split : Split) (buf : Bytes) (mask : Bytes) : Bytes :=']
    out += ['  ' + l for l in lines]
    out += [f'  joinAligned {" ".join(ln(n) for n in split)}', '']
    out += ['/-- `apply_mask` -/',
            'def applyMask (split : Split) (buf : Bytes) (mask : Bytes) : Bytes :=',
            '  applyMaskFast32 split buf mask', '',
            'end WsModel.GenMask']
    return '\n'.join(out) + '\n'


def gen_mask(repo):
    src = open(os.path.join(repo, 'src/protocol/frame/mask.rs')).read()
    return translate(src)


if __name__ == '__main__':
    import sys
    sys.stdout.write(gen_mask(sys.argv[1]))
