"""ctx2lean: machine translation of the protocol state machine (`WebSocketContext`, src/protocol/mod.rs)
into Lean `do`-notation over the monad `WsModel.GenCtx.M` (lean/WsModel/CtxM.lean).

Control flow (sequencing, `?`, `return`, `if`/`if let`/`match` with guards, `loop`, assignments to
`self` fields and to locals) is translated structurally from the parsed source.  Calls that leave
`WebSocketContext` (frame codec, transport, mask generator, `Frame`/`IncompleteMessage` methods)
are mapped through the LEAF tables below to the hand model of the callee.  Anything not covered
raises TranslateError: the translation fails closed.
"""
import re

from rs2lean import TranslateError, lean_variant
from rsast import parse_fn

CTX = r'impl\s+WebSocketContext\s*\{'
RESET_IMPL = r'impl<T>\s+CheckConnectionReset\s+for\s+Result<T>\s*\{'

# rust function -> (lean name, anchor block)
FNS = {
    'set_additional': ('setAdditional', CTX),
    'check_connection_reset': ('checkConnectionReset', CTX),
    'buffer_frame': ('bufferFrame', CTX),
    '_write': ('writeInternal', CTX),
    'flush': ('flush', CTX),
    'close': ('close', CTX),
    'write': ('write', CTX),
    'do_close': ('doClose', CTX),
    'read_message_frame': ('readMessageFrame', CTX),
    'read': ('read', CTX),
    'set_config': ('setConfig', CTX),
}
ORDER = ['set_additional', 'check_connection_reset', 'buffer_frame', '_write', 'flush', 'close', 'write',
         'do_close', 'read_message_frame', 'read', 'set_config']

ENUM_TYPES = {
    'WebSocketState': 'WsState', 'Role': 'Role', 'OpCode': 'OpCode', 'OpCtl': 'OpCtl', 'OpData': 'OpData',
    'CloseCode': 'CloseCode', 'Message': 'Message', 'ProtocolError': 'ProtoErr', 'Error': 'Err',
    'IncompleteMessageType': 'IncompleteType', 'ErrorKind': 'IoKind', 'IoErrorKind': 'IoKind',
}
VARIANT_RENAME = {('ErrorKind', 'ConnectionReset'): 'reset', ('IoErrorKind', 'ConnectionReset'): 'reset'}

SELF_FIELDS = {
    ('state',): '.c.state', ('role',): '.c.role', ('additional_send',): '.c.additional',
    ('unflushed_additional',): '.c.unflushed', ('incomplete',): '.c.incomplete',
    ('config', 'max_frame_size'): '.c.cfg.maxFrame', ('config', 'max_message_size'): '.c.cfg.maxMsg',
    ('config', 'accept_unmasked_frames'): '.c.cfg.acceptUnmasked',
    ('config', 'max_write_buffer_size'): '.c.cfg.maxw', ('config', 'write_buffer_size'): '.c.cfg.wbuf',
}
SELF_SETTERS = {'state': 'setStateM', 'additional_send': 'setAdditionalM',
                'unflushed_additional': 'setUnflushedM', 'incomplete': 'setIncompleteM'}
FIELD_RENAME = {'is_final': 'fin'}

TYPE_MAP = {'Message': 'Message', 'Frame': 'Frame', 'CloseFrame': 'CloseFrame', 'bool': 'Bool', '()': 'Unit',
            'T': 'α', 'WebSocketState': 'WsState', 'usize': 'Nat',
            # the caller's closure of `set_config`: a function on configurations
            'implFnOnce(&mutWebSocketConfig)': 'Config → Config'}

# panic sites: (function, macro-or-method, ordinal) -> PanicSite constructor
PANIC_SITES = {
    ('do_close', 'unreachable', 0): 'doCloseTerminated',
    ('read_message_frame', 'panic', 0): 'notTextNorBinary',
    ('read_message_frame', 'unwrap', 0): 'incompleteTakeUnwrap',
}
SKIP_MACROS = ('trace', 'debug', 'info', 'warn', 'error')
LEAN_KEYWORDS = {'at', 'from', 'end', 'then', 'else', 'do', 'fun', 'let', 'have', 'show', 'open', 'in', 'with',
                 'match', 'if', 'where', 'by', 'instance', 'def', 'theorem', 'structure', 'class', 'self',
                 'mut', 'return', 'for', 'type', 'Type', 'variable', 'section', 'namespace', 'prefix', 'local'}


def lname(n):
    return n + '_' if n in LEAN_KEYWORDS else n


def lean_type(ty):
    ty = ty.replace(' ', '')
    ty = re.sub(r'^(crate::|self::)', '', ty)
    m = re.fullmatch(r'Option<(.*)>', ty)
    if m:
        return f'Option {paren(lean_type(m.group(1)))}'
    m = re.fullmatch(r'Result<(.*)>', ty)
    if m:
        return f'Res {paren(lean_type(m.group(1)))}'
    if ty in TYPE_MAP:
        return TYPE_MAP[ty]
    raise TranslateError(f'type outside the translated subset: {ty}')


def paren(s):
    s = s.strip()
    if re.fullmatch(r"[A-Za-z_«»][A-Za-z0-9_.«»'!?]*", s) or (s.startswith('(') and matching_paren(s)):
        return s
    return '(' + s + ')'


def matching_paren(s):
    depth = 0
    for i, c in enumerate(s):
        if c == '(':
            depth += 1
        elif c == ')':
            depth -= 1
            if depth == 0 and i != len(s) - 1:
                return False
    return True


def is_self(e):
    return e == ('path', ['self'])


def self_field_path(e):
    """('field', ('field', self, a), b) -> (a, b); None if not rooted at self"""
    segs = []
    while e[0] == 'field':
        segs.append(e[2])
        e = e[1]
    if is_self(e) and segs:
        return tuple(reversed(segs))
    return None


class Env:
    def __init__(self, fn, ret_result, sites=None):
        self.fn = fn
        self.ret_result = ret_result
        self.sites = PANIC_SITES if sites is None else sites
        self.panic_prefix = 'PanicSite'
        self.pre = []           # statements a value computation needs in front of it (shared)
        self.loop = None        # inside a translated loop: {'brk': bool, 'ret': bool}
        self.vars = {}          # name -> {'kind': 'V'|'R', 'mut': bool, 'alias': None|field}
        self.counter = {}
        self.fresh = 0
        self.loop_helper = None
        self.specs_ret_unit = False

    def site(self, what):
        k = self.counter.get(what, 0)
        self.counter[what] = k + 1
        key = (self.fn, what, k)
        if key not in self.sites:
            raise TranslateError(f'{self.fn}: a new panic site `{what}` #{k} appeared in the source')
        return self.panic_prefix + '.' + self.sites[key]

    def child(self):
        e = Env(self.fn, self.ret_result, self.sites)
        e.panic_prefix = self.panic_prefix
        e.vars = dict(self.vars)
        e.pre = self.pre
        e.loop = self.loop
        e.counter = self.counter
        e.fresh = self.fresh
        e.loop_helper = self.loop_helper
        e.specs_ret_unit = self.specs_ret_unit
        return e


class Tr:
    SELF_FIELDS = SELF_FIELDS
    SELF_SETTERS = SELF_SETTERS
    FIELD_RENAME = FIELD_RENAME
    SKIP_PARAMS = ('stream',)
    RES = 'Res'              # the three-way result type of the unit
    PANIC = 'PanicSite'      # its panic-site type

    def __init__(self, fn_specs):
        self.specs = fn_specs    # rust name -> dict(lean, params, ret_lean, ret_result)
        self.helpers = []        # Lean definitions (loops) that go in front of the current function
        self.cur_sig = ('', '')  # (generic binder, parameter binders) of the current function

    # hooks for other translation units (return None = not handled here)
    def leaf_mcall(self, e, env):
        return None

    def leaf_call(self, e, env):
        return None

    def leaf_stmt(self, e, env, ind):
        return None

    def leaf_effect(self, e, env):
        return None

    def leaf_expr(self, e, env):
        return None

    def take_pre(self, env, ind):
        lines = [ind + l for l in env.pre]
        del env.pre[:]
        return lines

    def fail(self, env, msg):
        raise TranslateError(f'{env.fn}: {msg}')

    # ------------------------------------------------------------ paths / enums
    def enum_ctor(self, segs, env):
        segs = [s for s in segs if s not in ('crate', 'self', 'super', 'io', 'std', 'error', 'protocol', 'frame', 'coding')]
        if len(segs) == 2 and segs[0] in ENUM_TYPES:
            v = VARIANT_RENAME.get((segs[0], segs[1]), lean_variant(segs[1]))
            return f'{ENUM_TYPES[segs[0]]}.{v}'
        return None

    # ------------------------------------------------------------ patterns
    def pat(self, p, env, scrut_kind='V', top=True):
        """returns lean pattern; records bindings in env"""
        k = p[0]
        if k == 'wild':
            return '_'
        if k == 'bind':
            _, name, by_ref, is_mut = p
            env.vars[name] = {'kind': scrut_kind if top else 'V', 'mut': is_mut and not by_ref, 'alias': None}
            if is_mut and not by_ref and not top:
                env.mut_binds = getattr(env, 'mut_binds', []) + [name]
            return lname(name)
        if k == 'plit':
            return str(p[1])
        if k == 'or':
            return ' | '.join(self.pat(q, env, scrut_kind, top) for q in p[1])
        if k == 'ptuple':
            return '(' + ', '.join(self.pat(q, env, 'V', False) for q in p[1]) + ')'
        if k == 'ppath':
            segs = p[1]
            if segs == ['None']:
                return 'none'
            c = self.enum_ctor(segs, env)
            if c:
                return c
            self.fail(env, f'pattern path {"::".join(segs)}')
        if k == 'tstruct':
            segs, subs = p[1], p[2]
            if segs == ['Some']:
                return f'some {paren(self.pat(subs[0], env, "V", False))}'
            if segs == ['Ok']:
                return f'{self.RES}.ok {paren(self.pat(subs[0], env, "V", False))}'
            if segs == ['Err']:
                return f'{self.RES}.err {paren(self.pat(subs[0], env, "V", False))}'
            if segs[-2:] == ['Error', 'WriteBufferFull']:
                q = subs[0]
                if q[0] == 'tstruct' and q[1][-2:] == ['Message', 'Frame'] and len(q[2]) == 1:
                    return f'Err.writeBufferFull {paren(self.pat(q[2][0], env, "V", False))}'
                self.fail(env, 'WriteBufferFull pattern must bind Message::Frame(..)')
            c = self.enum_ctor(segs, env)
            if c:
                return c + ' ' + ' '.join(paren(self.pat(q, env, 'V', False)) for q in subs)
            self.fail(env, f'pattern constructor {"::".join(segs)}')
        self.fail(env, f'pattern form {k}')

    def irrefutable(self, p):
        return p[0] in ('wild', 'bind') or (p[0] == 'ptuple' and all(self.irrefutable(q) for q in p[1]))

    # ------------------------------------------------------------ effects
    def has_effect(self, e, env):
        if e is None:
            return False
        h = self.leaf_effect(e, env)
        if h is not None:
            return h
        k = e[0]
        if k in ('while', 'break'):
            return True
        if k == 'range':
            return self.has_effect(e[2], env) or self.has_effect(e[3], env)
        if k in ('try', 'return', 'assign', 'loop'):
            return True
        if k == 'macro':
            return e[1] not in SKIP_MACROS
        if k in ('path', 'lit', 'unit'):
            return False
        if k == 'field':
            if self_field_path(e) is not None:
                return True
            return self.has_effect(e[1], env)
        if k == 'mcall':
            recv = e[1]
            if is_self(recv) or self_field_path(recv) is not None or recv == ('path', ['stream']):
                return True
            if e[2] in ('unwrap', 'expect', 'extend', 'set_random_mask'):
                return True
            return self.has_effect(recv, env) or any(self.has_effect(a, env) for a in e[3])
        if k == 'call':
            f = e[1]
            if f == ('path', ['replace']):
                return True
            return any(self.has_effect(a, env) for a in e[2])
        if k in ('unary',):
            return self.has_effect(e[2], env)
        if k == 'bin':
            return self.has_effect(e[2], env) or self.has_effect(e[3], env)
        if k in ('ref',):
            return self.has_effect(e[2], env)
        if k == 'paren':
            return self.has_effect(e[1], env)
        if k == 'cast':
            return self.has_effect(e[1], env)
        if k == 'closure':
            return self.has_effect(e[2], env)
        if k == 'struct':
            return any(self.has_effect(x, env) for _, x in e[2])
        if k == 'tuple':
            return any(self.has_effect(x, env) for x in e[1])
        if k == 'matches':
            return self.has_effect(e[1], env)
        if k == 'if':
            c = e[1]
            ce = self.has_effect(c[2], env) if c[0] == 'let' else self.has_effect(c, env)
            return ce or self.has_effect(e[2], env) or self.has_effect(e[3], env)
        if k == 'match':
            return self.has_effect(e[1], env) or any(
                self.has_effect(g, env) or self.has_effect(b, env) for _, g, b in e[2])
        if k == 'block':
            for s in e[1]:
                if s[0] == 'let':
                    if self.has_effect(s[3], env):
                        return True
                elif self.has_effect(s[1], env):
                    return True
            return self.has_effect(e[2], env)
        self.fail(env, f'has_effect: {k}')

    # ------------------------------------------------------------ values
    def val(self, e, env):
        """value of e as a Lean term (nested `(← ..)` actions allowed); returns (kind, term),
        kind 'V' plain value, 'R' a `Res` value"""
        kind, t = self.classify(e, env)
        if kind == 'M':
            return 'R', f'(← attempt {paren(t)})'
        if kind == 'MP':
            return 'V', f'(← {t})'
        return kind, t

    def v(self, e, env):
        kind, t = self.val(e, env)
        return t

    def classify(self, e, env):
        h = self.leaf_expr(e, env)
        if h is not None:
            return h
        k = e[0]
        if k == 'lit':
            if e[1] == 'num':
                return 'V', str(e[2])
            if e[1] == 'bool':
                return 'V', e[2]
            if e[1] == 'str':
                return 'V', '[' + ', '.join(str(b) for b in e[2].encode()) + ']'
        if k == 'unit':
            return 'V', '()'
        if k == 'paren':
            kind, t = self.classify(e[1], env)
            return kind, paren(t)
        if k == 'ref':
            return self.classify(e[2], env)
        if k == 'path':
            segs = e[1]
            if len(segs) == 1:
                n = segs[0]
                if n in env.vars:
                    return env.vars[n]['kind'], lname(n)
                if n == 'None':
                    return 'V', 'none'
                self.fail(env, f'unknown name {n}')
            c = self.enum_ctor(segs, env)
            if c:
                return 'V', c
            self.fail(env, f'path {"::".join(segs)}')
        if k == 'field':
            sp = self_field_path(e)
            if sp is not None:
                if sp not in self.SELF_FIELDS:
                    self.fail(env, f'field self.{".".join(sp)} is not modelled')
                return 'V', f'(← getW){self.SELF_FIELDS[sp]}'
            kind, t = self.classify(e[1], env)
            if kind != 'V':
                self.fail(env, 'field of a non-value')
            return 'V', f'{paren(t)}.{self.FIELD_RENAME.get(e[2], e[2])}'
        if k == 'unary':
            kind, t = self.val(e[2], env)
            if e[1] == '!':
                return 'V', f'!{paren(t)}'
            if e[1] == '*':
                return kind, t      # a dereference of a borrowed value
            self.fail(env, f'unary {e[1]}')
        if k == 'cast':
            if e[2].replace(' ', '') not in ('usize', 'u64', '_'):
                self.fail(env, f'cast to {e[2]}')
            return 'V', self.v(e[1], env)   # lengths are unbounded naturals in the model
        if k == 'tuple':
            return 'V', '(' + ', '.join(self.v(x, env) for x in e[1]) + ')'
        if k == 'bin':
            op = e[1]
            a = paren(self.v(e[2], env))
            b = paren(self.v(e[3], env))
            if op in ('||', '&&', '==', '!='):
                return 'V', f'{a} {op} {b}'
            if op in ('<', '>', '<=', '>='):
                lop = {'<=': '≤', '>=': '≥'}.get(op, op)
                return 'V', f'decide ({a} {lop} {b})'
            if op in ('+', '-', '*'):
                return 'V', f'{a} {op} {b}'
            self.fail(env, f'operator {op}')
        if k == 'matches':
            sub = env.child()
            p = self.pat(e[2], sub)
            if e[3] is not None:
                self.fail(env, 'matches! with guard')
            return 'V', f'(match {self.v(e[1], env)} with | {p} => true | _ => false)'
        if k == 'try':
            kind, t = self.classify(e[1], env)
            if kind == 'M':
                return 'V', f'(← {t})'
            if kind == 'R':
                return 'V', f'(← liftRes {paren(t)})'
            self.fail(env, '`?` on a non-Result')
        if k == 'struct':
            segs, fields = e[1], e[2]
            if segs[-1] == 'CloseFrame':
                fs = ', '.join(f'{f} := {self.v(x, env)}' for f, x in fields)
                return 'V', f'({{ {fs} }} : CloseFrame)'
            self.fail(env, f'struct literal {"::".join(segs)}')
        if k == 'closure':
            sub = env.child()
            ps = ' '.join(paren(self.pat(p, sub, 'V', False)) for p in e[1]) or '_'
            if self.has_effect(e[2], sub):
                self.fail(env, 'closure with effects')
            return 'V', f'(fun {ps} => {self.pterm(e[2], sub)})'
        if k == 'macro':
            if e[1] in ('panic', 'unreachable'):
                return 'M', f'panicAt {env.site(e[1])}'
            self.fail(env, f'macro {e[1]}!')
        if k in ('if', 'match', 'block'):
            if self.has_effect(e, env):
                self.fail(env, f'effectful `{k}` in value position')
            return 'V', self.pterm(e, env)
        if k == 'call':
            return self.classify_call(e, env)
        if k == 'mcall':
            return self.classify_mcall(e, env)
        self.fail(env, f'expression form {k}')

    def classify_call(self, e, env):
        h = self.leaf_call(e, env)
        if h is not None:
            return h
        f, args = e[1], e[2]
        if f[0] != 'path':
            self.fail(env, 'call of a computed function')
        segs = f[1]
        name = '::'.join(segs)
        if name == 'Ok':
            return 'R', f'{self.RES}.ok {paren(self.v(args[0], env))}'
        if name == 'Err':
            return 'R', f'{self.RES}.err {paren(self.v(args[0], env))}'
        if name == 'Some':
            return 'V', f'some {paren(self.v(args[0], env))}'
        if name == 'replace':
            sp = args[0][0] == 'ref' and self_field_path(args[0][2])
            if sp == ('state',):
                return 'MP', f'replaceState {paren(self.v(args[1], env))}'
            self.fail(env, 'replace() on something other than self.state')
        if name == 'set_func' and env.fn == 'set_config':
            # the caller's closure applied to the stored configuration
            a = args[0] if len(args) == 1 else None
            print_arg = a
            if a is not None and a[0] in ('ref', 'refmut', 'ref_mut') and self_field_path(a[-1]) == ('config',):
                return 'MP', 'applyCfg set_func'
            self.fail(env, f'set_func must be applied to &mut self.config, got {print_arg}')
        if name == 'check_max_size':
            return 'R', f'checkMaxSizeRes {paren(self.v(args[0], env))} {paren(self.v(args[1], env))}'
        if name == 'IncompleteMessage::new':
            return 'V', f'incompleteNew {paren(self.v(args[0], env))}'
        if name == 'Utf8Bytes::from_static':
            return 'V', self.v(args[0], env)
        if segs[0] == 'Frame' and len(segs) == 2 and segs[1] in ('message', 'ping', 'pong', 'close'):
            return 'V', f'Frame.{segs[1]} ' + ' '.join(paren(self.v(a, env)) for a in args)
        c = self.enum_ctor(segs, env)
        if c:
            if c == 'Err.writeBufferFull':
                a = args[0]
                if a[0] == 'call' and a[1][0] == 'path' and a[1][1][-2:] == ['Message', 'Frame'] and len(a[2]) == 1:
                    return 'V', f'Err.writeBufferFull {paren(self.v(a[2][0], env))}'
                self.fail(env, 'WriteBufferFull must carry Message::Frame(..)')
            if c == 'Err.capacity':
                a = args[0]
                if a[0] == 'struct' and a[1][-2:] == ['CapacityError', 'MessageTooLong'] and [f for f, _ in a[2]] == ['size', 'max_size']:
                    return 'V', 'Err.capacity ' + ' '.join(paren(self.v(x, env)) for _, x in a[2])
                self.fail(env, 'Capacity must carry MessageTooLong { size, max_size }')
            return 'V', c + ' ' + ' '.join(paren(self.v(a, env)) for a in args)
        self.fail(env, f'call of {name} is not in the leaf table')

    def fn_value(self, e, env):
        """an expression used as a function (argument of map)"""
        if e[0] == 'closure':
            return self.v(e, env)
        if e[0] == 'path':
            c = self.enum_ctor(e[1], env)
            if c:
                return c
        self.fail(env, 'function value')

    def classify_mcall(self, e, env):
        h = self.leaf_mcall(e, env)
        if h is not None:
            return h
        _, recv, m, args = e
        argv = [a for a in args if a != ('path', ['stream'])]
        if is_self(recv):
            if m not in self.specs:
                self.fail(env, f'self.{m}() is not a translated method')
            sp = self.specs[m]
            t = sp['lean'] + ''.join(' ' + paren(self.v(a, env)) for a in argv)
            return ('M' if sp['ret_result'] else 'MP'), t
        if recv == ('path', ['stream']):
            if m == 'flush' and not args:
                return 'M', 'streamFlush'
            self.fail(env, f'stream.{m}()')
        sp = self_field_path(recv)
        if sp == ('frame',):
            if m == 'buffer_frame':
                return 'M', f'codecBufferFrame {paren(self.v(argv[0], env))}'
            if m == 'write_out_buffer':
                return 'M', 'codecWriteOutBuffer'
            if m == 'set_max_out_buffer_len' and len(argv) == 1:
                return 'MP', f'codecSetMaxOut {paren(self.v(argv[0], env))}'
            if m == 'set_out_buffer_write_len' and len(argv) == 1:
                return 'MP', f'codecSetWriteLen {paren(self.v(argv[0], env))}'
            if m == 'read_frame':
                return 'M', 'codecReadFrame ' + ' '.join(paren(self.v(a, env)) for a in argv)
            self.fail(env, f'self.frame.{m}()')
        if sp == ('config',) and m == 'assert_valid' and not args:
            return 'MP', 'assertValidCfg'
        if sp == ('state',) and m == 'check_not_terminated':
            return 'R', f'checkNotTerminated (← getW).c.state'
        if sp == ('additional_send',) and m == 'take':
            return 'MP', 'takeAdditional'
        if sp == ('additional_send',) and m == 'replace':
            return 'MP', f'setAdditionalM (some {paren(self.v(args[0], env))})'
        if sp == ('incomplete',) and m == 'take':
            return 'MP', 'takeIncomplete'
        # methods on values
        kind, r = self.classify(recv, env)
        if m == 'map':
            f = self.fn_value(args[0], env)
            if kind == 'M':
                return 'M', f'{f} <$> {paren(r)}'
            if kind == 'MP':
                return 'V', f'Option.map {paren(f)} (← {r})'
            if kind == 'R':
                return 'R', f'Res.map {paren(f)} {paren(r)}'
            return 'V', f'Option.map {paren(f)} {paren(r)}'
        if kind == 'M':
            kind, r = 'R', f'(← attempt {paren(r)})'
        elif kind == 'MP':
            kind, r = 'V', f'(← {r})'
        r = paren(r)
        if kind == 'R':
            if m == 'check_connection_reset':
                return 'R', f'resCheckConnectionReset {r} {paren(self.v(args[0], env))}'
            self.fail(env, f'method {m} on a Result value')
        simple = {'is_empty': '.isEmpty', 'is_some': '.isSome', 'is_none': '.isNone', 'clone': '', 'as_ref': '', 'header': '.header',
                  'payload': '.payload', 'into_payload': '.payload', 'len': '.length', 'kind': '',
                  'is_masked': '.header.mask.isSome', 'is_active': '.isActive', 'can_read': '.canRead'}
        if m == 'len' and not args and recv[0] == 'path' and len(recv[1]) == 1 and \
                env.vars.get(recv[1][0], {}).get('type') == 'Frame':
            return 'V', f'Frame.len {r}'
        if m in simple and not args:
            return 'V', (r + simple[m]) if simple[m] else r
        if m == 'is_allowed' and not args:
            return 'V', f'closeCodeIsAllowed {r}'
        if m == 'into_close' and not args:
            return 'R', f'Frame.intoClose {r}'
        if m == 'into_text' and not args:
            return 'R', f'Frame.intoText {r}'
        if m == 'complete' and not args:
            return 'R', f'Incomplete.complete {r}'
        if m == 'map_or' and len(args) == 2:
            return 'V', f'Option.elim {r} {paren(self.v(args[0], env))} {paren(self.fn_value(args[1], env))}'
        if m in ('unwrap', 'expect'):
            return 'MP', f'unwrapAt {env.site("unwrap")} {r}'
        self.fail(env, f'method .{m}() is not in the leaf table')

    # ------------------------------------------------------------ pure terms
    def pterm(self, e, env):
        k = e[0]
        if k == 'block':
            sub = env.child()
            lets = []
            for s in e[1]:
                if s[0] == 'expr' and s[1][0] == 'macro' and s[1][1] in SKIP_MACROS:
                    continue
                if s[0] != 'let' or s[1][0] != 'bind':
                    self.fail(env, 'statement in a pure block')
                kind, t = self.val(s[3], sub)
                sub.vars[s[1][1]] = {'kind': kind, 'mut': False, 'alias': None}
                lets.append(f'let {lname(s[1][1])} := {t}; ')
            if e[2] is None:
                self.fail(env, 'pure block without value')
            body = self.pterm(e[2], sub)
            return ('(' + ''.join(lets) + body + ')') if lets else body
        if k == 'if':
            c = e[1]
            if e[3] is None:
                self.fail(env, 'pure if without else')
            if c[0] == 'let':
                sub = env.child()
                p = self.pat(c[1], sub)
                return f'(match {self.v(c[2], env)} with | {p} => {self.pterm(e[2], sub)} | _ => {self.pterm(e[3], env)})'
            return f'(if {self.v(c, env)} then {self.pterm(e[2], env)} else {self.pterm(e[3], env)})'
        if k == 'match':
            if any(g is not None for _, g, _ in e[2]):
                self.fail(env, 'guard in a pure match')
            skind, st = self.val(e[1], env)
            arms = []
            for p, _, b in e[2]:
                sub = env.child()
                lp = self.pat(p, sub, skind)
                arms.append(f'| {lp} => {self.pterm(b, sub)}')
            return f'(match {st} with ' + ' '.join(arms) + ')'
        kind, t = self.val(e, env)
        if '(←' in t:
            self.fail(env, 'effect in a pure term')
        return t

    # ------------------------------------------------------------ statements
    def is_skip(self, e):
        return e[0] == 'macro' and e[1] in SKIP_MACROS

    def as_block(self, e):
        return e if e[0] == 'block' else ('block', [], e)

    def seq(self, blk, env, mode, ind):
        """do-items for a block; mode: 'ret' (value is the function result), 'val' (value of the
        block, yielded with `pure`), 'unit' (value discarded)"""
        out = []
        stmts, tail = blk[1], blk[2]
        for s in stmts:
            out += self.stmt(s, env, ind)
        if tail is not None:
            out += self.tail(tail, env, mode, ind)
        elif mode == 'ret' and not env.ret_result and env.specs_ret_unit:
            pass
        elif mode in ('val',):
            last = stmts[-1] if stmts else None
            if not (last and last[0] == 'expr' and last[1][0] == 'return'):
                self.fail(env, 'block without a value where one is needed')
        if not out:
            out = [ind + 'pure ()']
        return out

    def stmt(self, s, env, ind):
        if s[0] == 'let':
            _, p, ty, init = s
            if init is None:
                self.fail(env, 'let without initialiser')
            if p[0] == 'ptuple' and all(q[0] in ('bind', 'wild') for q in p[1]):
                # `let (mut a, b) = e;`
                kind, t = self.val(init, env)
                if kind != 'V':
                    self.fail(env, 'destructuring a Result')
                names = []
                post = []
                for q in p[1]:
                    if q[0] == 'wild':
                        names.append('_')
                        continue
                    env.vars[q[1]] = {'kind': 'V', 'mut': q[3], 'alias': None}
                    if q[3]:
                        env.fresh += 1
                        tmp = f'__d{env.fresh}'
                        names.append(tmp)
                        post.append(f'{ind}let mut {lname(q[1])} := {tmp}')
                    else:
                        names.append(lname(q[1]))
                return self.take_pre(env, ind) + [f'{ind}let ({", ".join(names)}) := {t}'] + post
            if p[0] != 'bind':
                self.fail(env, 'destructuring let')
            name, is_mut = p[1], p[3]
            mut = 'mut ' if is_mut else ''
            if init[0] == 'loop':
                call = self.loop_helper(init, env)
                env.vars[name] = {'kind': 'V', 'mut': is_mut, 'alias': None}
                return [f'{ind}let {mut}{lname(name)} ← match (← {call}) with',
                        f'{ind}  | LoopOut.brk __b => pure __b',
                        f'{ind}  | LoopOut.ret __r => return __r']
            if init[0] in ('if', 'match', 'block') and self.has_effect(init, env):
                lines = self.ctl(init, env, 'val', ind + '  ')
                j = 0
                while not re.match(r'\s*(if|match) ', lines[j]):
                    j += 1
                res = [ind + l.strip() for l in lines[:j]]
                res += [f'{ind}let {mut}{lname(name)} ← {lines[j].strip()}'] + lines[j + 1:]
                env.vars[name] = {'kind': 'V', 'mut': is_mut, 'alias': None}
                return res
            kind, t = self.val(init, env)
            env.vars[name] = {'kind': kind, 'mut': is_mut, 'alias': None}
            if ty is not None and ty.replace(' ', '') in ('Frame',):
                env.vars[name]['type'] = ty.replace(' ', '')
            return self.take_pre(env, ind) + [f'{ind}let {mut}{lname(name)} := {t}']
        e = s[1]
        return self.effect_stmt(e, env, ind)

    # ------------------------------------------------------------ loops
    def loop_params(self, env):
        """the locals a loop body may read: passed to the helper as parameters"""
        return [n for n in env.vars if n != 'self']

    def loop_helper(self, e, env, fuel=None):
        """`loop { .. break v; .. return r; .. }` / `while c { .. }` as a fuel-recursive helper that
        yields `LoopOut.brk v` or `LoopOut.ret r`; returns the call"""
        kind = e[0]
        self.loop_no = getattr(self, 'loop_no', {})
        n = self.loop_no.get(env.fn, 0) + 1
        self.loop_no[env.fn] = n
        name = f'{self.specs[env.fn]["lean"]}Loop{n}'
        names = self.loop_params(env)
        henv = env.child()
        henv.pre = []
        henv.loop = {'kind': kind}
        for v in names:
            henv.vars[v] = dict(env.vars[v], mut=False)
        body = e[1] if kind == 'loop' else e[2]
        ret_t = self.specs[env.fn]['ret_lean']
        gen, sig_types = self.cur_sig
        binders = ''.join(f' ({lname(v)} : {self.var_lean_type(env, v)})' for v in names)
        lines = [f'/-- {"a `loop`" if kind == "loop" else "the `while` loop"} of `{env.fn}` (fuel-bounded) -/',
                 f'def {name}{gen}{binders} : Nat → M (LoopOut {paren(self.loop_break_type(env)) if kind == "loop" else "Unit"} {paren(ret_t)})']
        call_args = ''.join(f' {lname(v)}' for v in names)
        if kind == 'loop':
            lines.append(f'  | 0 => panicAt {self.PANIC}.fuel')
            lines.append('  | fuel + 1 => do')
            lines += self.seq(body, henv, 'unit', '    ')
            lines.append(f'    {name}{call_args} fuel')
        else:
            cond0 = self.v(e[1], henv)
            lines.append('  | 0 => do')
            lines.append(f'    if {cond0} then')
            lines.append(f'      panicAt {self.PANIC}.fuel')
            lines.append('    else')
            lines.append('      pure (LoopOut.brk ())')
            lines.append('  | fuel + 1 => do')
            lines.append(f'    if {self.v(e[1], henv)} then')
            lines += self.seq(body, henv, 'unit', '      ')
            lines.append(f'      {name}{call_args} fuel')
            lines.append('    else')
            lines.append('      pure (LoopOut.brk ())')
        lines.append('')
        self.helpers += lines
        env.fresh = max(env.fresh, henv.fresh)
        return f'{name}{call_args} (← {self.loop_fuel(env, n)})'

    def var_lean_type(self, env, v):
        t = env.vars[v].get('ltype')
        if t is None:
            self.fail(env, f'the type of `{v}` (used inside a loop) is not known to the translator')
        return t

    def loop_break_type(self, env):
        self.fail(env, 'this unit has no loops with values')

    def loop_fuel(self, env, n):
        self.fail(env, 'this unit has no fuel table')

    def effect_stmt(self, e, env, ind):
        k = e[0]
        if self.is_skip(e):
            return []
        h = self.leaf_stmt(e, env, ind)
        if h is not None:
            return h
        if k == 'while':
            call = self.loop_helper(e, env)
            return [f'{ind}match (← {call}) with',
                    f'{ind}| LoopOut.brk _ => pure ()',
                    f'{ind}| LoopOut.ret __r => return __r']
        if k == 'break':
            if env.loop is None or env.loop['kind'] != 'loop':
                self.fail(env, '`break` outside a translated `loop`')
            if e[1] is None:
                self.fail(env, '`break` without a value')
            t = self.v(e[1], env)
            return self.take_pre(env, ind) + [f'{ind}return (LoopOut.brk {paren(t)})']
        if k == 'macro' and e[1] in ('assert', 'debug_assert', 'assert_eq', 'debug_assert_eq') and e[2]:
            site = env.site(e[1])
            if e[1].endswith('_eq'):
                c = f'{paren(self.v(e[2][0], env))} != {paren(self.v(e[2][1], env))}'
            else:
                c = f'!{paren(self.v(e[2][0], env))}'
            return self.take_pre(env, ind) + [f'{ind}if {c} then', f'{ind}  panicAt {site}']
        if k == 'assign':
            lhs, rhs = e[1], e[2]
            sp = self_field_path(lhs)
            if sp is not None:
                if len(sp) != 1 or sp[0] not in self.SELF_SETTERS:
                    self.fail(env, f'assignment to self.{".".join(sp)}')
                t = paren(self.v(rhs, env))
                return self.take_pre(env, ind) + [f'{ind}{self.SELF_SETTERS[sp[0]]} {t}']
            if lhs[0] == 'path' and len(lhs[1]) == 1 and lhs[1][0] in env.vars:
                if not env.vars[lhs[1][0]]['mut']:
                    self.fail(env, f'assignment to immutable {lhs[1][0]}')
                if rhs[0] in ('if', 'match', 'block') and self.has_effect(rhs, env):
                    # `x = match .. { .. => return .., .. => v }`: the arms yield the value or leave
                    lines = self.ctl(rhs, env, 'val', ind + '  ')
                    j = 0
                    while not re.match(r'\s*(if|match) ', lines[j]):
                        j += 1
                    return [ind + l.strip() for l in lines[:j]] + \
                        [f'{ind}{lname(lhs[1][0])} ← {lines[j].strip()}'] + lines[j + 1:]
                t = self.v(rhs, env)
                return self.take_pre(env, ind) + [f'{ind}{lname(lhs[1][0])} := {t}']
            self.fail(env, 'assignment target')
        if k == 'return':
            return self.ret(e[1], env, ind)
        if k in ('if', 'match', 'block', 'loop'):
            return self.ctl(e, env, 'unit', ind)
        # mutating calls on locals
        inner = e[1] if k == 'try' else e
        if inner[0] == 'mcall' and inner[1][0] == 'path' and len(inner[1][1]) == 1 and inner[1][1][0] in env.vars:
            var = inner[1][1][0]
            info = env.vars[var]
            if inner[2] == 'extend':
                if k != 'try':
                    self.fail(env, 'extend() without ?')
                a = paren(self.v(inner[3][0], env))
                b = paren(self.v(inner[3][1], env))
                env.fresh += 1
                r = f'__r{env.fresh}'
                nv = f'__m{env.fresh}'
                lines = [f'{ind}let ({nv}, {r}) := incompleteExtend {lname(var)} {a} {b}']
                if info['alias'] == 'incomplete':
                    lines.append(f'{ind}setIncompleteM (some {nv})')
                elif info['mut']:
                    lines.append(f'{ind}{lname(var)} := {nv}')
                else:
                    self.fail(env, f'extend() on immutable {var}')
                lines.append(f'{ind}liftRes {r}')
                return lines
            if inner[2] == 'set_random_mask' and k != 'try':
                if not info['mut']:
                    self.fail(env, f'set_random_mask() on immutable {var}')
                return [f'{ind}{lname(var)} ← setRandomMask {lname(var)}']
        if k == 'try':
            # value of `x?` discarded
            kind, t = self.classify(e[1], env)
            if kind == 'M':
                return [f'{ind}let _ ← {t}']
            if kind == 'R':
                return [f'{ind}let _ ← liftRes {paren(t)}']
            self.fail(env, '`?` on a non-Result')
        kind, t = self.classify(e, env)
        if kind == 'MP':
            return [f'{ind}let _ ← {t}']
        if kind == 'M':
            self.fail(env, 'Result of a call is dropped')
        self.fail(env, f'expression statement without effect ({k})')

    def ret(self, e, env, ind):
        if e is None:
            return [f'{ind}return ()']
        if env.loop is not None:
            # inside a loop helper: errors travel in the monad, values leave through LoopOut.ret
            if env.ret_result and e[0] == 'call' and e[1] == ('path', ['Err']):
                t = paren(self.v(e[2][0], env))
                return self.take_pre(env, ind) + [f'{ind}throwE {t}']
            if env.ret_result and e[0] == 'call' and e[1] == ('path', ['Ok']):
                t = paren(self.v(e[2][0], env))
                return self.take_pre(env, ind) + [f'{ind}return (LoopOut.ret {t})']
            self.fail(env, 'this form of `return` inside a loop')
        if env.ret_result:
            if e[0] == 'call' and e[1] == ('path', ['Err']):
                t = paren(self.v(e[2][0], env))
                return self.take_pre(env, ind) + [f'{ind}throwE {t}']
            if e[0] == 'call' and e[1] == ('path', ['Ok']):
                t = self.v(e[2][0], env)
                return self.take_pre(env, ind) + [f'{ind}return {t}']
            kind, t = self.classify(e, env)
            if kind == 'M':
                return [f'{ind}return (← {t})']
            if kind == 'R':
                return [f'{ind}return (← liftRes {paren(t)})']
            self.fail(env, 'return of a non-Result')
        return [f'{ind}return {self.v(e, env)}']

    def tail(self, e, env, mode, ind):
        k = e[0]
        if self.is_skip(e):
            return []
        if k in ('if', 'match', 'block', 'loop'):
            return self.ctl(e, env, mode, ind)
        if k == 'return':
            return self.ret(e[1], env, ind)
        if mode == 'unit':
            if k == 'unit':
                return []
            return self.effect_stmt(e, env, ind)
        if mode == 'val' or (mode == 'ret' and not env.ret_result):
            kind, t = self.classify(e, env)
            if kind == 'M':
                if t.startswith('panicAt '):
                    return [f'{ind}{t}']
                self.fail(env, 'Result-returning call as a plain value')
            if kind == 'MP':
                return [f'{ind}{t}']
            return [f'{ind}pure {paren(t)}']
        # mode == 'ret', function returns Result
        if k == 'call' and e[1] == ('path', ['Ok']) and e[2][0][0] in ('if', 'match', 'block') and self.has_effect(e[2][0], env):
            return self.ctl(e[2][0], env, 'val', ind)
        if k == 'call' and e[1] == ('path', ['Ok']):
            t = paren(self.v(e[2][0], env))
            return self.take_pre(env, ind) + [f'{ind}pure {t}']
        if k == 'call' and e[1] == ('path', ['Err']):
            return [f'{ind}throwE {paren(self.v(e[2][0], env))}']
        kind, t = self.classify(e, env)
        if kind == 'M':
            return [f'{ind}{t}']
        if kind == 'R':
            return [f'{ind}liftRes {paren(t)}']
        self.fail(env, 'tail of a Result function is not a Result')

    # ------------------------------------------------------------ control flow
    def ctl(self, e, env, mode, ind):
        k = e[0]
        if k == 'block':
            return self.seq(e, env, mode, ind)
        if k == 'if':
            return self.if_(e, env, mode, ind)
        if k == 'match':
            return self.match_(e, env, mode, ind)
        if k == 'loop':
            if mode != 'ret' or env.loop_helper is None:
                self.fail(env, '`loop` is translated only as the tail of a function')
            return [f'{ind}{env.loop_helper} (← readFuel)']
        self.fail(env, f'control form {k}')

    def branch(self, blk, env, mode, ind):
        sub = env.child()
        lines = self.seq(self.as_block(blk), sub, mode, ind)
        env.fresh = max(env.fresh, sub.fresh)
        return lines

    def if_(self, e, env, mode, ind):
        _, c, then, els = e
        out = []
        if c[0] == 'let':
            sub = env.child()
            pat_ast = c[1]
            alias = None
            # `if let Some(ref mut x) = self.incomplete`
            if pat_ast[0] == 'tstruct' and pat_ast[1] == ['Some'] and pat_ast[2][0][0] == 'bind' and pat_ast[2][0][2]:
                sp = self_field_path(c[2])
                if sp != ('incomplete',):
                    self.fail(env, '`ref` binding of something other than self.incomplete')
                alias = 'incomplete'
            skind, st = self.val(c[2], env)
            p = self.pat(pat_ast, sub, skind)
            if alias:
                sub.vars[pat_ast[2][0][1]]['alias'] = alias
            out += self.take_pre(env, ind)
            out.append(f'{ind}if let {p} := {st} then')
            for mb in getattr(sub, 'mut_binds', []):
                out.append(f'{ind}  let mut {lname(mb)} := {lname(mb)}')
            sub.mut_binds = []
            out += self.seq(self.as_block(then), sub, mode, ind + '  ')
            env.fresh = max(env.fresh, sub.fresh)
        else:
            ct = self.v(c, env)
            out += self.take_pre(env, ind)
            out.append(f'{ind}if {ct} then')
            out += self.branch(then, env, mode, ind + '  ')
        if els is not None:
            out.append(f'{ind}else')
            if els[0] == 'if':
                out += self.if_(els, env, mode, ind + '  ')
            else:
                out += self.branch(els, env, mode, ind + '  ')
        elif mode != 'unit':
            self.fail(env, '`if` without `else` where a value is needed')
        return out

    ALL_CTORS = {
        'OpCtl': {'Close', 'Ping', 'Pong', 'Reserved'},
        'OpData': {'Continue', 'Text', 'Binary', 'Reserved'},
        'OpCode': {'Data', 'Control'},
        'WebSocketState': {'Active', 'ClosedByUs', 'ClosedByPeer', 'CloseAcknowledged', 'Terminated'},
        'Role': {'Server', 'Client'},
        'Message': {'Text', 'Binary', 'Ping', 'Pong', 'Close', 'Frame'},
        'Option': {'Some', 'None'},
    }

    def top_ctor(self, p):
        """(enum, ctor, args_irrefutable) for simple constructor patterns"""
        if p[0] == 'ppath':
            segs = p[1]
            if segs == ['None']:
                return [('Option', 'None', True)]
            if len(segs) >= 2:
                return [(segs[-2], segs[-1], True)]
        if p[0] == 'tstruct':
            segs = p[1]
            irr = all(self.irrefutable(q) for q in p[2])
            if segs == ['Some']:
                return [('Option', 'Some', irr)]
            if segs in (['Ok'], ['Err']):
                return [('Result', segs[0], irr)]
            if len(segs) >= 2:
                return [(segs[-2], segs[-1], irr)]
        if p[0] == 'or':
            r = []
            for q in p[1]:
                t = self.top_ctor(q)
                if t is None:
                    return None
                r += t
            return r
        return None

    def exhaustive(self, arms, skind):
        """do the guard-free arms cover their type? returns (covered, needs_panic_arm)"""
        if any(self.irrefutable(p) for p, _, _ in arms):
            return True, False
        seen = {}
        for p, _, _ in arms:
            t = self.top_ctor(p)
            if t is None:
                return False, False
            for enum, ctor, irr in t:
                if irr:
                    seen.setdefault(enum, set()).add(ctor)
                else:
                    seen.setdefault(enum, set())
        if len(seen) != 1:
            return False, False
        enum, ctors = next(iter(seen.items()))
        if enum == 'Result':
            # Ok + Err covered: the model's `Res` has a third constructor
            return False, ctors == {'Ok', 'Err'}
        if enum in self.ALL_CTORS and ctors == self.ALL_CTORS[enum]:
            return True, False
        return False, False

    def match_(self, e, env, mode, ind):
        _, scrut, arms = e
        skind, st = self.val(scrut, env)
        out = self.take_pre(env, ind)
        # the scrutinee is named so that a guard that fails can fall through and re-match
        if any(g is not None for _, g, _ in arms) and not re.fullmatch(r'[A-Za-z_][A-Za-z0-9_]*', st):
            env.fresh += 1
            nm = f'__s{env.fresh}'
            out.append(f'{ind}let {nm} := {st}')
            st = nm
        out += self.chain(arms, st, skind, env, mode, ind)
        return out

    def plain_match(self, arms, st, skind, env, mode, ind):
        out = [f'{ind}match {st} with']
        for p, _, b in arms:
            sub = env.child()
            lp = self.pat(p, sub, skind)
            out.append(f'{ind}| {lp} =>')
            for mb in getattr(sub, 'mut_binds', []):
                out.append(f'{ind}  let mut {lname(mb)} := {lname(mb)}')
            sub.mut_binds = []
            out += self.seq(self.as_block(b), sub, mode, ind + '  ')
            env.fresh = max(env.fresh, sub.fresh)
        covered, need_panic = self.exhaustive(arms, skind)
        if need_panic:
            out.append(f'{ind}| {self.RES}.panic __p => panicAt __p')
        elif not covered:
            # unreachable: the Rust match is exhaustive
            out.append(f'{ind}| _ => panicAt {self.PANIC}.fuel')
        return out

    def chain(self, arms, st, skind, env, mode, ind):
        if not arms:
            return [f'{ind}panicAt {self.PANIC}.fuel']
        if all(g is None for _, g, _ in arms):
            return self.plain_match(arms, st, skind, env, mode, ind)
        (p, g, b), rest = arms[0], arms[1:]
        # counters for panic sites must not advance twice when the rest is duplicated
        if g is None:
            if self.irrefutable(p):
                self.fail(env, 'arms after an irrefutable pattern')
            sub = env.child()
            lp = self.pat(p, sub, skind)
            out = [f'{ind}match {st} with', f'{ind}| {lp} =>']
            out += self.seq(self.as_block(b), sub, mode, ind + '  ')
            out.append(f'{ind}| _ =>')
            out += self.chain(rest, st, skind, env, mode, ind + '  ')
            return out
        if self.irrefutable(p):
            sub = env.child()
            out = []
            if p[0] == 'bind':
                sub.vars[p[1]] = {'kind': skind, 'mut': False, 'alias': None}
                if lname(p[1]) != st:
                    out.append(f'{ind}let {lname(p[1])} := {st}')
            out.append(f'{ind}if {self.v(g, sub)} then')
            out += self.seq(self.as_block(b), sub, mode, ind + '  ')
            out.append(f'{ind}else')
            out += self.chain(rest, st, skind, env, mode, ind + '  ')
            return out
        sub = env.child()
        lp = self.pat(p, sub, skind)
        saved = dict(env.counter)
        rest1 = self.chain(rest, st, skind, env, mode, ind + '    ')
        env.counter.clear()
        env.counter.update(saved)
        rest2 = self.chain(rest, st, skind, env, mode, ind + '  ')
        out = [f'{ind}match {st} with', f'{ind}| {lp} =>', f'{ind}  if {self.v(g, sub)} then']
        out += self.seq(self.as_block(b), sub, mode, ind + '    ')
        out.append(f'{ind}  else')
        out += rest1
        out.append(f'{ind}| _ =>')
        out += rest2
        return out


def translate(src):
    parsed = {}
    specs = {}
    for rust, (lean, within) in FNS.items():
        fn = parse_fn(src, rust, within, what=f'WebSocketContext::{rust}')
        parsed[rust] = fn
        ret = fn['ret'].replace(' ', '')
        m = re.fullmatch(r'(?:crate::)?Result<(.*)>', ret)
        specs[rust] = {'lean': lean, 'ret_result': bool(m), 'ret_lean': lean_type(m.group(1) if m else ret)}
    reset = parse_fn(src, 'check_connection_reset', RESET_IMPL, what='Result::check_connection_reset')

    tr = Tr(specs)
    out = []
    out.append('/- GENERATED by translator/ctx2lean.py from src/protocol/mod.rs — do not edit. -/')
    out.append('import WsModel.CtxM')
    out.append('set_option linter.unusedVariables false')
    out.append('namespace WsModel.GenCtx')
    out.append('open WsModel WsModel.Gen')
    out.append('')
    out.append('def setStateM (s : WsState) : M Unit := modifyW (·.setState s)')
    out.append('def setAdditionalM (a : Option Frame) : M Unit := modifyW (·.setAdditionalRaw a)')
    out.append('def setUnflushedM (b : Bool) : M Unit := modifyW (·.setUnflushed b)')
    out.append('def setIncompleteM (i : Option Incomplete) : M Unit := modifyW (·.setIncomplete i)')
    out.append('')
    # the pure trait method
    env = Env('Result::check_connection_reset', False)
    env.vars['self'] = {'kind': 'R', 'mut': False, 'alias': None}
    if reset['self'] != 'self' or [p[0] for p in reset['params']] != ['state']:
        raise TranslateError('Result::check_connection_reset: signature changed')
    env.vars['state'] = {'kind': 'V', 'mut': False, 'alias': None}
    if tr.has_effect(reset['body'], env):
        raise TranslateError('Result::check_connection_reset: no longer a pure function')
    out.append('/-- `impl CheckConnectionReset for Result<T>` -/')
    out.append('def resCheckConnectionReset {α : Type} (self_ : Res α) (state : WsState) : Res α :=')
    out.append('  ' + tr.pterm(reset['body'], env))
    out.append('')

    for rust in ORDER:
        fn = parsed[rust]
        sp = specs[rust]
        env = Env(rust, sp['ret_result'])
        params = []
        generic = False
        for (pn, ty, is_mut) in fn['params']:
            if pn == 'stream':
                continue
            lt = lean_type(ty)
            if 'α' in lt:
                generic = True
            kind = 'R' if lt.startswith('Res ') else 'V'
            env.vars[pn] = {'kind': kind, 'mut': False, 'alias': None}
            params.append((pn, lt, is_mut))
        if 'α' in sp['ret_lean']:
            generic = True
        if fn['self'] != '&mut':
            raise TranslateError(f'{rust}: receiver is no longer &mut self')
        sig = ''.join(f' ({lname(pn)} : {lt})' for pn, lt, _ in params)
        gen = ' {α : Type}' if generic else ''
        body = fn['body']
        pre = []
        for pn, lt, is_mut in params:
            if is_mut:
                pre.append(f'  let mut {lname(pn)} := {lname(pn)}')
                env.vars[pn]['mut'] = True
        lines = []
        if body[2] is not None and body[2][0] == 'loop':
            helper = sp['lean'] + 'Loop'
            henv = Env(rust, sp['ret_result'])
            henv.vars = dict(env.vars)
            loop_items = tr.seq(body[2][1], henv, 'unit', '    ')
            out.append(f'/-- the `loop` of `WebSocketContext::{rust}` (fuel-bounded) -/')
            out.append(f'def {helper}{gen}{sig} : Nat → M {paren(sp["ret_lean"])}')
            out.append('  | 0 => panicAt PanicSite.fuel')
            out.append('  | fuel + 1 => do')
            out += loop_items
            out.append(f'    {helper}' + ''.join(f' {lname(pn)}' for pn, _, _ in params) + ' fuel')
            out.append('')
            env.loop_helper = helper + ''.join(f' {lname(pn)}' for pn, _, _ in params)
        env.specs_ret_unit = sp['ret_lean'] == 'Unit'
        items = tr.seq(body, env, 'unit' if (env.specs_ret_unit and not sp['ret_result']) else 'ret', '  ')
        out.append(f'/-- `WebSocketContext::{rust}` -/')
        out.append(f'def {sp["lean"]}{gen}{sig} : M {paren(sp["ret_lean"])} := do')
        out += pre
        out += items
        out.append('')
    out.append('end WsModel.GenCtx')
    return '\n'.join(out) + '\n'


def gen_ctx(repo):
    import os
    src = open(os.path.join(repo, 'src/protocol/mod.rs')).read()
    return translate(src)


if __name__ == '__main__':
    import sys
    print(gen_ctx(sys.argv[1]))
