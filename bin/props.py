"""Per-property configuration of bin/check: which theorem module, which correspondence families
(family, quick count, thorough count), which observables are compared."""

PURE_OBS = None  # compare every line

NOT_APPLICABLE = {}

PROPS = {
    'C08': {
        'families': [('pure:utf8', 500, 20000), ('pure:utf8c', 8, 200), ('ep:utf8', 1500, 40000), ('corpus:utf8', 0, 0)],
        'rule': 'from_utf8 / utf8::decode on all 1- and 2-byte strings, 3-/4-byte strings around every table boundary and structured '
                'valid/invalid/truncated strings; Incomplete::try_complete on every incomplete-prefix shape x next bytes; text messages '
                'cut into fragments (also inside characters) read through WebSocket::read',
        'assumptions': ['std::str::from_utf8 and the utf-8 crate are modelled from their sources (Utf8.lean) and compared differentially; '
                        'Utf8Bytes::as_str (from_utf8_unchecked) is only reached with bytes that passed these checks'],
        'trusted_base': ['Spec/Utf8Table.lean: Unicode Table 3-7 as an inductive predicate + encodeScalar (the specification)'],
        'level_text': 'Kernel-checked: the model of from_utf8 accepts exactly Table 3-7, which is exactly the encodings of scalar-value strings; '
                      'its error reports are exact; the fragment collector accepts iff the concatenation is well-formed, delivers exactly it, '
                      'rejects with the UTF-8 error otherwise and never reaches the unwrap sites of the utf-8 crate. All fragmentations, unbounded.',
        'level_note': 'The tie to std / utf-8 crate code is differential (they are dependencies, modelled from source). End-to-end delivery '
                      'through read is covered by the correspondence and the RFC-decoder monitor.',
    },
    'C18': {
        'families': [('pure:hparse', 1, 1), ('pure:hformat', 2000, 100000), ('pure:fformat', 300, 6000)],
        'exhaustive': True,
        'rule': 'all 65536 values of the first two header bytes with boundary extended lengths, masks and every truncation point '
                'through FrameHeader::parse; all flag/opcode/mask/boundary-length combinations through FrameHeader::format; frame '
                'pairs through Frame::format and (behind each other in the shared buffer) Frame::format_into_buf',
        'assumptions': ['payload lengths are u64 (hypothesis len < 2^64)'],
        'trusted_base': ['Generated/LengthFormat.lean and Coding.lean come from the translator; Header.lean is the hand model of '
                         'FrameHeader::{format,parse_internal}, compared exhaustively over the first two bytes'],
        'level_text': 'Kernel-checked: parse(format h len ++ rest) = (h, len, header size) for every header with a defined opcode and every '
                      '64-bit length; shortest length form; parse total (never panics), prefix-closed and stable under appended input; '
                      're-encoding gives the canonical form; both frame encoders emit identical bytes of length Frame::len.',
        'level_note': 'The header model is hand-written (bit operations on UInt8, constants and tables from the translator); tie = exhaustive '
                      'differential run over all first-two-byte values plus an independent RFC header reader as monitor.',
    },
    'C19': {
        'families': [('pure:mask', 4, 40), ('pure:fformat', 200, 4000), ('ep:maskpaths', 1, 1)],
        'rule': 'payload lengths 0..=67 x 8 alignments x keys sweeping every value of every key byte through the real '
                'apply_mask (hook) inside canary-filled buffers; frame pairs encoded behind each other in the shared write '
                'buffer; server reads of masked frames / client writes at every (length, offset)',
        'assumptions': ['that the unsafe align_to_mut reinterpretation touches no neighbouring byte is memory behaviour: '
                        'checked with canaries on the real crate, not proved (partial)'],
        'trusted_base': ['the model of apply_mask_fast32 takes the (prefix, words, suffix) split as a parameter; '
                         'C19_fast_eq_spec holds for every split'],
        'level_text': 'Kernel-checked theorem that the word-wise fast path equals byte-wise XOR with key[i mod 4] for EVERY buffer, '
                      'key and every (prefix, words, suffix) split, plus involution and the in-place encoder leaving the buffer prefix '
                      'untouched; the real routine is compared with the specification at every length 0..67 x alignment with canaries.',
        'level_note': 'Partial for the memory-safety part (adjacent bytes): canary test on the real crate, not a theorem. '
                      'Little-endian target assumed (from_ne_bytes / rotate_right).',
    },
    'C20': {
        'families': [('pure:closecode', 1, 1), ('pure:opcode', 1, 1)],
        'exhaustive': True,
        'rule': 'complete enumeration of all 65536 status codes (and all 256 opcode bytes) through the public '
                'conversions of the real crate; every evaluation is distinct and non-trivial',
        'assumptions': ['status codes are u16 (hypothesis c < 65536 of the theorems)'],
        'trusted_base': ['Generated/Coding.lean is produced by the translator from coding.rs'],
        'level_text': 'Kernel-checked theorems for ALL 65536 codes (symbolic case split on the generated if-chain, no enumeration) '
                      'about functions regenerated from coding.rs on every run; plus exhaustive differential run of the real conversions. '
                      'A finite pure table is exactly where a proof over the translated source is complete.',
        'level_note': 'Trusts the Lean kernel and the translator (restricted Rust subset, fails closed); the exhaustive differential run '
                      'cross-checks the translator against the compiled crate.',
    },
}
