"""Per-property configuration of bin/check: which theorem module, which correspondence families
(family, quick count, thorough count), which observables are compared."""

PURE_OBS = None  # compare every line

NOT_APPLICABLE = {}

PROPS = {
    'C20': {
        'families': [('pure:closecode', 1, 1), ('pure:opcode', 1, 1)],
        'exhaustive': True,
        'rule': 'complete enumeration of all 65536 status codes (and all 256 opcode bytes) through the public '
                'conversions of the real crate; every evaluation is distinct and non-trivial',
        'assumptions': ['status codes are u16 (hypothesis c < 65536 of the theorems)'],
        'trusted_base': ['Generated/Coding.lean is produced by the translator from coding.rs'],
        'level_text': 'Kernel-checked theorems for ALL 65536 codes (symbolic case split on the generated if-chain, no enumeration) '
                      'about functions regenerated from coding.rs on every run; plus exhaustive differential run of the real conversions. '
                      'A finite pure table is exactly where a proof over the translated source is complete.',
        'level_note': 'Trusts the Lean kernel and the translator (restricted Rust subset, fails closed); the exhaustive differential run '
                      'cross-checks the translator against the compiled crate.',
    },
}
