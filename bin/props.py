"""Per-property configuration of bin/check: which theorem module, which correspondence families
(family, quick count, thorough count), which observables are compared."""

PURE_OBS = None  # compare every line

NOT_APPLICABLE = {}

PROPS = {
    'C01': {
        'modules': ['C01', 'TieWrite', 'TieRead', 'TieRun', 'TieCodec', 'TieFsock', 'FsockProps'],
        'families': [('ep:backpressure', 500, 10000), ('fs', 300, 8000), ('ep:pipe', 400, 4000), ('ep:sizes', 400, 8000), ('tp', 100, 3000)],
        'rule': 'message sequences (text, binary, ping, pong) with payload sizes 0, 1, 125/126/127, 4095..4097, 65535/65536/65537, 70000 written by a '
                'real endpoint of either role under partial writes and WouldBlock, its real wire output read by a real endpoint of the other role '
                'under several segmentations, pre-read splits and six read-buffer sizes; read list compared with written list',
        'assumptions': ['text payloads are valid UTF-8 (true of every Utf8Bytes) and control payloads are at most 125 bytes (documented precondition '
                        'of Message::Ping/Pong; a longer one is written and rejected by the peer as ControlFrameTooBig)',
                        'total wire image below 2^64 bytes'],
        'trusted_base': ['Spec/Rfc6455.lean as specification'],
        'level_text': 'Kernel-checked, unbounded in count and size: decode(encode(msgs)) = msgs at the level of whole message sequences for both '
                      'directions, every key and every payload length (C01_spec_roundtrip); the writer puts exactly the concatenated encodings on the '
                      'wire under every buffer size and partial-write behaviour (C01_writer_wire, with C10); the reader returns exactly the messages and '
                      'then blocks for every pre-read split and segmentation (C01_end_to_end, through the C05 refinement).',
        'level_note': 'Composition of C10, C18, C19, C05. BytesMut capacity policy is not modelled (chunk sizes universally quantified).',
    },
    'C04': {
        'modules': ['C04', 'C04Progress', 'C04Pair', 'TieWrite', 'TieRead', 'TieRun'],
        'families': [('ep:slotrace', 1, 1), ('tp', 2000, 60000), ('ep:close', 500, 10000), ('ep:backpressure', 800, 20000)],
        'rule': 'two real endpoints (client and server) joined by two in-memory pipes: adaptive random schedules of {write data, ping, pong, flush, read, '
                'close} on both sides x delivery granularity (1 byte .. all) x write-side WouldBlock windows x flush blocks, incl. simultaneous close and '
                'close with data or pings in flight; then a fair drain phase (both flush and read, drop the transport on ConnectionClosed)',
        'assumptions': ['no message/frame size limit and max_write_buffer_size >= 400 on both sides (the buffer holds the largest frame used)',
                        'nothing pre-read; user operations are Sendable (control payloads <= 125 bytes, no raw frames) and CloseOk (close reason <= 123 bytes)',
                        'transport behaviour is benign: reads deliver pipe bytes or WouldBlock, writes accept >= 1 byte or WouldBlock, flush ok or WouldBlock'],
        'trusted_base': [],
        'level_text': 'Kernel-checked safety by composition: on ANY prefix of the wire image of frames that are legitimate for the sender\'s role with '
                      'nothing after a Close (guaranteed for every reachable sender state by C09_queued_wellformed, C03_close_is_last, C10_fifo) the '
                      'receiver\'s decoder never reports an error, delivers one message per frame in order and ends closed iff a Close was sent; '
                      'transferred to the reading endpoint for every segmentation through C05 (C04_reader_sees_no_protocol_error). '
                      'Two-party model (WsModel/TwoParty.lean), kernel-checked for EVERY interleaving / delivery schedule / WouldBlock pattern: '
                      'C04_pair_no_protocol_error, C04_pair_prefix_delivery, C04_pair_close_completes (both told ConnectionClosed, server first, '
                      'within two rounds of the fair driver). D1 and D4 were genuine violations of this property and were repaired.',
        'level_note': 'The per-side monitors of C03, C07 and C13 also run on both sides of every two-party case; the joint monitor ties the two-party model to the crate.',
    },
    'C07': {
        'modules': ['C07', 'TieWrite', 'TieRead', 'TieRun', 'TieCodec', 'TieConfig', 'CfgLive', 'TieReadIn'],
        'families': [('corpus:', 0, 0), ('ep:tinybuf', 600, 15000), ('ep:hostile', 2500, 80000), ('ep:mixed', 500, 20000), ('ep:limits', 300, 10000),
                     ('hs:server', 1200, 40000), ('hs:client', 1200, 40000), ('tp', 150, 4000), ('ep:cfglive', 400, 8000)],
        'rule': 'random, mutated-valid and boundary-crafted byte streams x per-call transport outcomes {n bytes, 0, WouldBlock, Interrupted, reset, '
                'other error} on read, write and flush x roles x finite limits, sockets and both handshakes; every call under catch_unwind, '
                'debug assertions and overflow checks on, a transport-call watchdog against spinning',
        'assumptions': ['configurations with max_frame_size = None are outside the property (finite limits): an announced 2^63 length reaches reserve',
                        'real hangs / aborts inside dependencies are runtime behaviour: watched on the real crate (partial)'],
        'trusted_base': [],
        'level_text': 'Kernel-checked: the header parser never panics; construction panics iff max <= write_buffer_size (documented); for every reachable '
                      'state no write-side call panics; reading never panics: every expect/unwrap/unreachable site is unreachable (collector invariant, '
                      'header present after split, do_close never in Terminated) and the loops have enough fuel (each continuing iteration consumes a '
                      'script event / at least 2 stream bytes); every call makes a bounded number of transport calls (explicit bound). '
                      'D8 (handshake assert on a zero-length write) was found here and fixed.',
        'level_note': 'Partial for wall-clock hangs and dependency aborts. The handshake no-panic part is covered by the machine model '
                      '(Round.panic only for an empty write buffer, never constructed) and the correspondence.',
    },
    'C09': {
        'modules': ['C09', 'TieWrite', 'TieFrame', 'TieHdr', 'TieMask'],
        'families': [('corpus:defects', 0, 0), ('ep:sizes', 400, 8000), ('ep:mixed', 800, 20000), ('ep:ping', 500, 10000), ('ep:maskpaths', 1, 1),
                     ('pure:hformat', 500, 20000)],
        'rule': 'all message kinds, payload sizes 0..70000 around the encoding boundaries, both roles, histories that trigger automatic pongs and '
                'close replies; every byte the real endpoint wrote is re-parsed by the independent RFC header reader',
        'assumptions': ['"fresh unpredictable key" is a property of rand: the model takes keys from an oracle (partial); the translator checks nothing '
                        'about rand; the hook only queues keys for the harness',
                        'raw Message::Frame writes are excluded (escape hatch)'],
        'trusted_base': [],
        'level_text': 'Kernel-checked for every reachable state: every frame ever queued has FIN set, RSV clear, one of the five opcodes and is masked iff '
                      'client; the role never changes; the accepted bytes are a prefix of the concatenated encodings, each of which decodes to its own '
                      'header in the shortest length form followed by payload XOR key (client) or the payload (server); a client takes each key from '
                      'the mask source in order; automatic pongs and close replies carry at most 125 bytes.',
        'level_note': 'Partial for key unpredictability.',
    },
    'C13': {
        'modules': ['C13', 'TieWrite', 'TieRead', 'TieRun'],
        'families': [('ep:slotrace', 1, 1), ('corpus:defects', 0, 0), ('ep:backpressure', 2500, 80000), ('ep:close', 800, 20000), ('tp', 150, 4000)],
        'rule': 'histories x WouldBlock windows on write/flush x max_write_buffer_size from just above the largest frame to unlimited x write_buffer_size',
        'assumptions': ['max_write_buffer_size holds the largest single frame of the history when empty (property quantifier; hypothesis hfit)'],
        'trusted_base': [],
        'level_text': 'Kernel-checked for every reachable state: after close() on an open connection, whatever it returned, the Close frame is pending '
                      '(slot or queued); likewise the reply once a Close was delivered; a pending Close is never dropped by any call under any transport '
                      'behaviour; queued = buffered or accepted, in order; one successful flush delivers the pending frame, drains the buffer and '
                      'flushes the transport; read retries whenever something is pending or unflushed; ConnectionClosed is never reported with a Close '
                      'unsent on a live transport; a pending pong is only replaced by a newer pong or a Close. '
                      'D2, D3, D7 were genuine violations found here and fixed.',
        'level_note': 'The first statement of pong_never_dropped was proved false (a user pong replaces the pending one) and corrected.',
    },
    'C02': {
        'modules': ['C02', 'TieWrite', 'TieRead', 'TieRun', 'TieCodec', 'TieColl', 'TieInc', 'TieHdr'],
        'families': [('ep:codec', 2500, 80000), ('ep:utf8', 500, 10000), ('ep:utf8cuts', 1, 1), ('ep:limits', 500, 10000)],
        'rule': 'well-formed frame sequences with arbitrary fragmentation and interleaved control frames, and the same with a single rule '
                'violation injected (RSV, reserved opcodes, fragmented / oversized control, stray continuation, nested data frame, wrong '
                'mask direction, malformed close payload, non-minimal lengths, huge announced lengths), byte garbage; role x accept_unmasked_frames; '
                'every case is decoded by the one-shot RFC decoder and compared with what the real crate delivered',
        'assumptions': ['a close reason that is not UTF-8 is reported as Error::Utf8 (class utf8), not as a protocol error; the property text '
                        'lists "malformed close payload" under protocol errors: read as the 1-byte payload (DESIGN.md section 7)',
                        'max_message_size = None behaves as usize::MAX in the code; the refinement theorem is stated against those effective limits'],
        'trusted_base': ['Spec/Rfc6455.lean: the one-shot decoder is the specification (readable in minutes, shares no code with the incremental reader)'],
        'level_text': 'Kernel-checked refinement: for EVERY inbound byte stream, role, accept_unmasked_frames, limits, pre-read split and segmentation, '
                      'successive reads deliver exactly the messages of the independent one-shot RFC 6455 decoder and end as it ends '
                      '(C02_refines_spec_effective); each listed violation is proved to be a protocol error of the specification.',
        'level_note': 'The first formulation (limits taken literally, None = unlimited) was proved FALSE for streams of 2^64+20 bytes '
                      '(C05_unlimited_needs_size_bound) and replaced by effective limits / a size hypothesis.',
    },
    'C05': {
        'modules': ['C05', 'TieWrite', 'TieRead', 'TieRun', 'TieCodec', 'TieConfig', 'TieFsock', 'FsockProps', 'TieReadIn'],
        'families': [('fs', 500, 15000), ('ep:codec', 2500, 80000), ('ep:sizes', 300, 5000), ('ep:pipe', 150, 3000), ('ep:cfglive', 400, 8000)],
        'rule': 'inbound streams under many segmentations (1-byte, small, large chunks, WouldBlock between segments), every (pre-read, rest) split '
                'the generator picks, six read-buffer sizes; each case compared with the one-shot decoder of the whole stream',
        'assumptions': ['the outbound side accepts what it is offered (the property is about how the INBOUND stream is cut); '
                        'max_write_buffer_size >= 200 so automatic replies fit'],
        'trusted_base': ['Spec/Rfc6455.lean as specification'],
        'level_text': 'Kernel-checked for ALL streams, ALL segmentations with WouldBlock anywhere and ALL (pre-read, rest) splits, by induction over '
                      'the read script: the result of reading equals the one-shot decoding of the concatenated stream, hence is independent of the cut '
                      '(C05_reads_effective_limits, C05_same_stream_same_result); a blocked read is neutral (C05_wouldblock_neutral); never panics; '
                      'read_buffer_size does not occur in the model at all (chunk sizes are universally quantified).',
        'level_note': 'BytesMut capacity policy is not modelled: the harness reports how many bytes each transport read delivered and the theorem '
                      'covers every such chunking.',
    },
    'C15': {
        'modules': ['C15', 'C15Headers', 'TieHs', 'TieResp', 'TieParts', 'C15Gen'],
        'families': [('corpus:hs', 0, 0), ('hs:cuts', 1, 1), ('hs:server', 2500, 60000)],
        'rule': 'request heads from a grammar: every subset / order / casing of the required headers, near-miss values, duplicates, extra headers up to '
                'and past the limit, key shapes, methods, versions, bare-LF line ends, byte mutations, trailing bytes, endless heads; every transport '
                'segmentation with WouldBlock and partial writes; three callback behaviours',
        'assumptions': ['httparse and http::Uri are external: what they report for the received bytes is an input of the model (taken from the real '
                        'crates on every case); "nothing following the head" means nothing had been received beyond the head when it completed'],
        'trusted_base': ['Generated/Handshake.lean (header names, required values, split characters, order of checks, GUID) from the translator; '
                         'Handshake/Sha1.lean, Base64.lean compared with the sha1 / data-encoding crates'],
        'level_text': 'Kernel-checked: the server goes on to answer iff the parsed head satisfies exactly the property\'s list (C15_accept_iff); the '
                      'answer is the 101 with Upgrade, Connection and base64(SHA-1(key ++ GUID)) byte for byte, and GUID + SHA-1 + Base64 reproduce the '
                      'RFC example (kernel evaluation); name case, header order (headers occurring once) and additional headers are irrelevant; an invalid '
                      'request never gets a 101; a callback rejection is written in full and reported as an HTTP error.',
        'level_note': 'Parsing bytes into (method, version, path, headers) is httparse, not tungstenite: modelled as a parameter; the monitor re-decides '
                      'every real handshake from the parsed view with an independent transcription of the property.',
    },
    'C16': {
        'modules': ['C16', 'TieHs', 'TieVerify', 'C16Gen', 'TieCStage'],
        'families': [('corpus:hs', 0, 0), ('hs:cuts', 1, 1), ('hs:client', 2500, 60000)],
        'rule': 'target URIs (userinfo with and without @ in the password, IPv6, ports, no path, wrong scheme, relative), extra headers, subprotocol '
                'lists, hand-made requests with missing / duplicated required headers; responses with every element missing or altered, accept value '
                'with one character changed, subprotocol cases, frames following the head at every segmentation',
        'assumptions': ['"16 fresh random bytes": the key is an input of the model (partial); the harness checks it decodes to 16 bytes',
                        'http::Uri parsing is external (its view of scheme / authority / path is an input)'],
        'trusted_base': ['Generated/Handshake.lean from the translator incl. uriHostAfterLastAt (find vs rfind)'],
        'level_text': 'Kernel-checked: the request is one GET with each of the five headers exactly once followed by the remaining headers '
                      '(HeaderMap swap-remove modelled); a URL-built request has the authority without credentials as Host and passes the server\'s '
                      'own checks with the accept value the client expects; the client accepts iff status 101, Upgrade, Connection, matching accept '
                      'and the subprotocol condition; bytes after the head become the pre-read buffer of the socket (and by C05 are read independently '
                      'of where the boundary fell).',
        'level_note': 'Partial for key randomness. D9 (Host cut at the first @) and D10 (caller-built HTTP/2 request sent as GET / HTTP/2.0) were found here and fixed.',
    },
    'C17': {
        'modules': ['C17', 'C17Client', 'TieHs', 'TieResp'],
        'families': [('corpus:hs', 0, 0), ('hs:cuts', 1, 1), ('hs:server', 2500, 60000), ('hs:client', 1500, 30000)],
        'rule': 'segmentations of valid and invalid heads into up to 64+ reads, WouldBlock before any read / write / flush, partial write sizes, '
                '1-byte drips, heads above 64 KiB, 125 headers',
        'assumptions': ['httparse is prefix-stable on the head (Partial on every proper prefix): hypothesis HeadOf of the theorem, checked on every '
                        'generated head by the parsed-view lines; TooManyHeaders is httparse behaviour',
                        'responses shorter than 400 bytes or scripts long enough (model fuel; see C17_server_schedule_independent)'],
        'trusted_base': ['Generated/Attack.lean (the four constants and the check) from the translator'],
        'level_text': 'Kernel-checked: for every sequence of read sizes the guard stops a reading stage within 513 reads and 65536+4096 bytes, accepted '
                      'prefixes have <= 512 reads, <= 65536 bytes and (beyond 64 reads) an average >= 128 bytes; a WouldBlock round returns the machine '
                      'unchanged; for every benign schedule (any segmentation of the head, any WouldBlock placement, any partial write sizes) the server '
                      'handshake is either still interrupted having written a prefix of the right bytes or has ended exactly as the one-shot '
                      'specification says with exactly its bytes written.',
        'level_note': 'Client side: C17_client_schedule_independent (any partial write sizes, any WouldBlock placement, any segmentation of the '
                      'response head; bytes beyond the head are handed to the socket) under the assumption hstable about httparse.',
    },
    'C03': {
        'modules': ['C03', 'TieWrite', 'TieRead', 'TieRun', 'TieExamples'],
        'families': [('ep:slotrace', 1, 1), ('corpus:defects', 0, 0), ('ep:exhaustive', 3, 4), ('ep:close', 2500, 80000), ('ep:mixed', 800, 20000), ('ep:hostile', 500, 20000)],
        'rule': 'interleavings of user calls (read, write of each kind, flush, close) with peer frames (data, ping, close, garbage after '
                'close), transport EOF/reset at any point, WouldBlock on any write or flush, both roles; corpus = the witnesses of the '
                'defects found while modelling (D1-D7)',
        'assumptions': ['raw Message::Frame writes are outside the property (explicit escape hatch): excluded by hypothesis Op.noRaw'],
        'trusted_base': ['Generated/State.lean (WsState, is_active, can_read, check_not_terminated) from the translator'],
        'level_text': 'Kernel-checked invariant over ALL histories and ALL transport scripts (induction over the op list and the read loop): '
                      'fifo, buffer bound, CloseLast (nothing is ever queued after a Close), slot discipline, drained-before-termination; '
                      'from it: writes refused and world unchanged once closing; closing irreversible; no message after a Close; '
                      'ConnectionClosed only after a Close was received and (server) everything queued was accepted and nothing pending or the '
                      'transport ended, client only after transport end; never a clean close without a received Close; terminated state frozen '
                      'with AlreadyClosed; can_write/can_read agree with write/read.',
        'level_note': 'The theorems are about the model of the FIXED code (see known_findings.json: D1-D7 were genuine violations of this '
                      'property and were repaired); the model is tied to the code by the correspondence on every run and the monitor '
                      'evaluates the seven sub-claims on every implementation trace.',
    },
    'C10': {
        'modules': ['C10', 'TieWrite', 'TieRead', 'TieRun', 'TieCodec', 'TieExamples', 'CfgLive', 'TieFsock', 'FsockProps'],
        'families': [('fs', 500, 15000), ('ep:slotrace', 1, 1), ('corpus:defects', 0, 0), ('ep:backpressure', 2000, 60000), ('ep:sizes', 300, 5000), ('ep:mixed', 500, 20000)],
        'rule': 'message sequences x per-call transport write outcomes (accept k of n for many k, WouldBlock, repeated) x flush outcomes '
                'x write_buffer_size',
        'assumptions': [],
        'trusted_base': [],
        'level_text': 'Kernel-checked for every reachable state: accepted ++ buffered = encoding of the queue (no byte lost, repeated or '
                      'reordered under every write outcome); a user data message is queued exactly once, after all earlier ones, iff its write '
                      'returned Ok or a transport error; no other call queues user data; flush = Ok implies buffer empty, everything accepted, '
                      'transport flushed after its last write.',
        'level_note': 'Unbounded histories by induction; tie to code by correspondence (wire bytes compared byte for byte, masks fixed by the hook).',
    },
    'C06': {
        'modules': ['C06', 'C06Global', 'TieWrite', 'TieRead', 'TieRun', 'TieCodec', 'TieColl', 'TieConfig', 'TieFsock', 'FsockProps', 'TieInc', 'TieReadIn'],
        'families': [('fs', 800, 20000), ('corpus:limits', 0, 0), ('ep:limits', 1500, 40000), ('ep:codec', 500, 10000), ('ep:cfglive', 400, 8000)],
        'rule': 'frame/fragment size patterns around the configured limits (limit-1, limit, limit+1; limits 0,1,5,10,125,126,300), '
                'headers announcing up to 2^64-1 bytes with nothing following, every read-buffer size; read-only cases are also '
                'checked against the one-shot RFC decoder with the same limits',
        'assumptions': ['real heap use is allocator / BytesMut behaviour: not modelled (partial); the model bounds the sizes the code '
                        'asks for: no reserve before the announced length passed the max_frame_size check',
                        'configurations with max_frame_size = None are outside the property (finite limits)'],
        'trusted_base': ['Spec/Rfc6455.lean (one-shot decoder with limits) as specification'],
        'level_text': 'Kernel-checked: no frame above max_frame_size is ever returned; an over-limit announced length is a capacity error '
                      'in the call that completes the header, with no transport read; the reassembly accumulator never exceeds '
                      'max_message_size and the first excess is a capacity error (text counts the undecoded tail); the specification never '
                      'delivers an over-limit message. All limits, sizes and announced lengths.',
        'level_note': 'Partial: memory actually allocated is not modelled. The end-to-end bound on delivered messages follows from the '
                      'refinement theorem of C05 (C05_segmentation_independent) together with C06_spec_messages_bounded.',
    },
    'C11': {
        'modules': ['C11', 'C11Global', 'TieWrite', 'TieRead', 'TieRun'],
        'families': [('ep:slotrace', 1, 1), ('corpus:defects', 0, 0), ('ep:ping', 2000, 60000), ('ep:backpressure', 800, 20000)],
        'rule': 'sequences of pings (payload 0..125) interleaved with data, user pongs and closes, read/write/flush call patterns, '
                'WouldBlock on any write or flush, small write buffers',
        'assumptions': ['max_write_buffer_size holds the largest single frame (property quantifier)'],
        'trusted_base': [],
        'level_text': 'Kernel-checked (per call): a ping read while open puts pong(payload) into the pending slot and is delivered; none once '
                      'closing; a blocked write/flush inside read sets the retry flag and never fails the read; a successful flush queues the '
                      'pending reply exactly once after everything queued before, empties the slot, drains the buffer and flushes the transport '
                      '(also through the put-back-and-retry path). Monitor on implementation traces: pongs are a subsequence of pings, none invented, '
                      'sent by the next op whose transport writes succeed.',
        'level_note': 'History level: C11_order_no_invention (for every history the queued pongs are a sublist of the pings read and pongs written, '
                      'in order: none invented, none reordered), C11_ping_makes_pong_pending, C13_pong_never_dropped.',
    },
    'C12': {
        'modules': ['C12', 'C12Global', 'TieWrite', 'TieRead', 'TieRun', 'TieFrame', 'TieConfig', 'C20Gen'],
        'families': [('ep:slotrace', 1, 1), ('corpus:defects', 0, 0), ('ep:close', 2000, 60000), ('ep:backpressure', 1500, 40000), ('pure:closecode', 1, 1), ('ep:cfglive', 400, 8000)],
        'rule': 'close frames with every class of status code (all 65536 through the conversion functions), reasons empty..123 bytes, '
                'arriving in every connection state, with and without a pending pong',
        'assumptions': [],
        'trusted_base': ['Generated/Coding.lean (closeCodeOfU16, closeCodeIsAllowed) and State.lean (protocolViolationReason) from the translator'],
        'level_text': 'Kernel-checked for ALL codes (symbolic, via C20_allowed_iff), reasons and states: on an open connection the reported close '
                      'and the queued reply carry the same (code, reason): the peer\'s own if the code may appear on the wire, else 1002 '
                      '"Protocol violation"; empty answered with empty; a Close answering ours is reported unchanged and not answered; a second '
                      'Close is ignored; the pending reply is never displaced; malformed payloads are errors.',
        'level_note': '"Exactly one Close reaches the wire" is the CloseLast part of the C03 invariant plus C13; here per-call theorems for every state.',
    },
    'C14': {
        'modules': ['C14', 'C14Global', 'TieWrite', 'TieCodec', 'TieExamples', 'TieConfig', 'CfgLive', 'TieFsock', 'FsockProps'],
        'families': [('fs', 500, 15000), ('ep:slotrace', 1, 1), ('corpus:defects', 0, 0), ('ep:backpressure', 2000, 60000), ('ep:tinybuf', 600, 15000), ('ep:wbound', 1, 1), ('ep:mixed', 500, 10000), ('ep:cfglive', 400, 8000)],
        'rule': '(write_buffer_size, max_write_buffer_size) pairs incl. 0 and adjacent values, message size sequences, transport refusal '
                'windows, ping floods while blocked',
        'assumptions': ['max_write_buffer_size holds the largest single frame used (property quantifier)'],
        'trusted_base': ['Generated/State.lean configValid from the translator'],
        'level_text': 'Kernel-checked: construction panics iff max <= write_buffer_size and both sizes reach the codec; buffer_frame never grows '
                      'the buffer beyond the maximum; an over-limit frame is handed back intact with nothing queued or written and is accepted '
                      'once there is room; at or below write_buffer_size the transport is not touched, above it it is; WriteBufferFull from write '
                      'returns the message as its frame and changes neither queue, buffer nor wire.',
        'level_note': 'Codec- and call-level theorems for every state; the history-level bound is the `bound` field of the C03 invariant.',
    },
    'C08': {
        'modules': ['C08', 'TieWrite', 'TieRead', 'TieRun', 'TieColl', 'TieInc'],
        'families': [('ep:utf8cuts', 1, 1), ('pure:utf8', 500, 20000), ('pure:utf8c', 8, 200), ('ep:utf8', 1500, 40000), ('corpus:utf8', 0, 0)],
        'rule': 'from_utf8 / utf8::decode on all 1- and 2-byte strings, 3-/4-byte strings around every table boundary and structured '
                'valid/invalid/truncated strings; Incomplete::try_complete on every incomplete-prefix shape x next bytes; text messages '
                'cut into fragments (also inside characters) read through WebSocket::read',
        'assumptions': ['std::str::from_utf8 and the utf-8 crate are modelled from their sources (Utf8.lean) and compared differentially; '
                        'Utf8Bytes::as_str (from_utf8_unchecked) is only reached with bytes that passed these checks'],
        'trusted_base': ['Spec/Utf8Table.lean: Unicode Table 3-7 as an inductive predicate + encodeScalar (the specification)'],
        'level_text': 'Kernel-checked: the model of from_utf8 accepts exactly Table 3-7, which is exactly the encodings of scalar-value strings; '
                      'its error reports are exact; the fragment collector accepts iff the concatenation is well-formed, delivers exactly it, '
                      'rejects with the UTF-8 error otherwise and never reaches the unwrap sites of the utf-8 crate. All fragmentations, unbounded.',
        'level_note': 'The tie to std / utf-8 crate code is differential (they are dependencies, modelled from source). End-to-end delivery '
                      'through read is covered by the correspondence and the RFC-decoder monitor.',
    },
    'C18': {
        'modules': ['C18', 'TieFrame', 'TieCodec', 'TieFsock', 'TieHdr', 'C18Gen'],
        'families': [('fs', 500, 15000), ('pure:hparse', 1, 1), ('pure:hparseat', 1500, 60000), ('pure:hformat', 2000, 100000), ('pure:fformat', 300, 6000)],
        'exhaustive': True,
        'rule': 'all 65536 values of the first two header bytes with boundary extended lengths, masks and every truncation point '
                'through FrameHeader::parse; all flag/opcode/mask/boundary-length combinations through FrameHeader::format; frame '
                'pairs through Frame::format and (behind each other in the shared buffer) Frame::format_into_buf',
        'assumptions': ['payload lengths are u64 (hypothesis len < 2^64)'],
        'trusted_base': ['Generated/LengthFormat.lean and Coding.lean come from the translator; Header.lean is the hand model of '
                         'FrameHeader::{format,parse_internal}, compared exhaustively over the first two bytes'],
        'level_text': 'Kernel-checked: parse(format h len ++ rest) = (h, len, header size) for every header with a defined opcode and every '
                      '64-bit length; shortest length form; parse total (never panics), prefix-closed and stable under appended input; '
                      're-encoding gives the canonical form; both frame encoders emit identical bytes of length Frame::len.',
        'level_note': 'The header model is hand-written (bit operations on UInt8, constants and tables from the translator); tie = exhaustive '
                      'differential run over all first-two-byte values plus an independent RFC header reader as monitor.',
    },
    'C19': {
        'modules': ['C19', 'TieFrame', 'TieFsock', 'FsockProps', 'TieMask', 'C19Gen'],
        'miri': 'mirimask',
        'families': [('ep:codec', 500, 10000), ('fs', 500, 15000), ('pure:mask', 4, 40), ('pure:fformat', 200, 4000), ('ep:maskpaths', 1, 1)],
        'rule': 'payload lengths 0..=67 x 8 alignments x keys sweeping every value of every key byte through the real '
                'apply_mask (hook) inside canary-filled buffers; frame pairs encoded behind each other in the shared write '
                'buffer; server reads of masked frames / client writes at every (length, offset)',
        'assumptions': ['that the unsafe align_to_mut reinterpretation touches no neighbouring byte is memory behaviour: '
                        'checked with canaries on the real crate, not proved (partial)'],
        'trusted_base': ['apply_mask / apply_mask_fallback / apply_mask_fast32 are machine-translated every run (mask2lean -> MaskGen.lean, '
                         'Tie_mask_*); the answer of unsafe align_to_mut is a parameter (any split with pre + 4*words <= len); '
                         'C19_fast_eq_spec and Tie_mask_applyMask hold for every split; little-endian target'],
        'level_text': 'Kernel-checked theorem that the word-wise fast path equals byte-wise XOR with key[i mod 4] for EVERY buffer, '
                      'key and every (prefix, words, suffix) split, plus involution and the in-place encoder leaving the buffer prefix '
                      'untouched; the real routine is compared with the specification at every length 0..67 x alignment with canaries.',
        'level_note': 'Partial for the memory-safety part (adjacent bytes): canary test on the real crate, not a theorem. '
                      'Little-endian target assumed (from_ne_bytes / rotate_right).',
    },
    'C20': {
        'modules': ['C20', 'C20Gen', 'TieFrame'],
        'families': [('pure:closecode', 1, 1), ('pure:opcode', 1, 1)],
        'exhaustive': True,
        'rule': 'complete enumeration of all 65536 status codes (and all 256 opcode bytes) through the public '
                'conversions of the real crate; every evaluation is distinct and non-trivial',
        'assumptions': ['status codes are u16 (hypothesis c < 65536 of the theorems)'],
        'trusted_base': ['Generated/Coding.lean is produced by the translator from coding.rs'],
        'level_text': 'Kernel-checked theorems for ALL 65536 codes (symbolic case split on the generated if-chain, no enumeration) '
                      'about functions regenerated from coding.rs on every run; plus exhaustive differential run of the real conversions. '
                      'A finite pure table is exactly where a proof over the translated source is complete.',
        'level_note': 'Trusts the Lean kernel and the translator (restricted Rust subset, fails closed); the exhaustive differential run '
                      'cross-checks the translator against the compiled crate.',
    },
}
