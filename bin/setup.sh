#!/bin/bash
# setup_cmd: build everything from files on disk only (offline).
set -e
cd "$(dirname "$0")/.."
export CARGO_NET_OFFLINE=true
mkdir -p work evidence replays
python3 translator/rs2lean.py /repo lean/WsModel/Generated || true
(cd lean && lake build WsModel WsProofs wsdriver 2>&1 | grep -v conda | tail -5)
(cd harness && cp /repo/Cargo.lock Cargo.lock 2>/dev/null || true; cargo build --release --offline 2>&1 | grep -v conda | tail -3)
test -x lean/.lake/build/bin/wsdriver
test -x harness/target/release/wsharness
echo setup ok
